#!/bin/bash
# thorough_all.sh : runs the thorough tier of every property (used with `vp run --with-repo`, ELVIS_REPO=$VP_RUN_REPO)
cd "$(dirname "$0")"
rc=0
for c in C01 C02 C03 C04 C05 C06 C07 C08 C09 C10 C11 C12 C13 C14 C15 C16 C17 C18 C19 C20; do
  ./check $c --tier thorough --no-evidence > thorough-$c.log 2>&1; r=$?
  echo "$c rc=$r $(tail -1 thorough-$c.log)"
  grep -E "selftest (missed|broken|stale)" thorough-$c.log
  [ $r -ne 0 ] && rc=1
done
exit $rc
