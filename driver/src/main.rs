// elvis-factgen: rustc_private driver that dumps `mir_built` facts of the workspace crates
// as one JSON document per crate (see /verif/DESIGN.md appendix C).
//
// Invoked through RUSTC_WORKSPACE_WRAPPER: argv = [self, rustc, args...].
// Output: $ELVIS_FACTS_DIR/<crate_name>-<crate_type>.json (one write per process).
#![feature(rustc_private)]
#![allow(rustc::internal)]

extern crate rustc_abi;
extern crate rustc_data_structures;
extern crate rustc_driver;
extern crate rustc_hir;
extern crate rustc_interface;
extern crate rustc_middle;
extern crate rustc_session;
extern crate rustc_span;

mod json;

use json::J;
use rustc_driver::Compilation;
use rustc_hir::def::DefKind;
use rustc_hir::def_id::{DefId, LocalDefId};
use rustc_middle::mir::{
    self, AggregateKind, AssertKind, BasicBlock, BorrowKind, CastKind, Const, ConstValue, Operand,
    Place, PlaceElem, Rvalue, StatementKind, TerminatorKind, UnwindAction,
};
use rustc_middle::ty::{self, GenericArgsRef, Instance, InstanceKind, Ty, TyCtxt, TypingEnv};
use rustc_span::Span;
use std::collections::{BTreeMap, HashMap};

struct Cb;

impl rustc_driver::Callbacks for Cb {
    fn after_expansion<'tcx>(
        &mut self,
        _compiler: &rustc_interface::interface::Compiler,
        tcx: TyCtxt<'tcx>,
    ) -> Compilation {
        if let Ok(dir) = std::env::var("ELVIS_FACTS_DIR") {
            dump(tcx, &dir);
        }
        Compilation::Continue
    }
}

fn main() {
    let argv: Vec<String> = std::env::args().collect();
    // [wrapper, rustc, args..] -> run_compiler wants [rustc, args..]
    let args: Vec<String> = argv[1..].to_vec();
    rustc_driver::run_compiler(&args, &mut Cb);
}

struct Cx<'tcx> {
    tcx: TyCtxt<'tcx>,
    types: Vec<J>,
    type_ix: HashMap<Ty<'tcx>, usize>,
    named_consts: BTreeMap<String, DefId>,
    adts_seen: BTreeMap<String, DefId>,
}

fn key(tcx: TyCtxt<'_>, d: DefId) -> String {
    format!("{}{}", tcx.crate_name(d.krate), tcx.def_path(d).to_string_no_crate_verbose())
}

fn def_name(tcx: TyCtxt<'_>, d: DefId) -> String {
    tcx.item_name(d).to_string()
}

fn s(x: impl Into<String>) -> J {
    J::Str(x.into())
}

impl<'tcx> Cx<'tcx> {
    fn loc(&self, sp: Span) -> J {
        // line of the outermost call site when the span comes from a macro expansion
        let sp0 = sp.source_callsite();
        let sm = self.tcx.sess.source_map();
        if sp0.is_dummy() {
            return J::Null;
        }
        let p = sm.lookup_char_pos(sp0.lo());
        let name = format!("{}", p.file.name.prefer_local_unconditionally());
        s(format!("{}:{}", name, p.line))
    }

    fn mac(&self, sp: Span) -> J {
        if sp.from_expansion() {
            // outermost macro in the backtrace that is not the desugaring
            let mut names = vec![];
            for e in sp.macro_backtrace() {
                names.push(J::Str(format!("{}", e.kind.descr())));
            }
            if names.is_empty() {
                // desugaring (?, await, for)
                let d = sp.ctxt().outer_expn_data();
                return J::Arr(vec![s(format!("{}", d.kind.descr()))]);
            }
            J::Arr(names)
        } else {
            J::Null
        }
    }

    fn gargs(&mut self, args: GenericArgsRef<'tcx>) -> J {
        let mut v = vec![];
        for a in args.iter() {
            if let Some(t) = a.as_type() {
                v.push(J::Int(self.ty(t) as i128));
            } else if let Some(c) = a.as_const() {
                match c.try_to_target_usize(self.tcx) {
                    Some(n) => v.push(J::obj(vec![("const", J::Int(n as i128))])),
                    None => v.push(J::obj(vec![("const", J::Null)])),
                }
            }
        }
        J::Arr(v)
    }

    fn ty(&mut self, t: Ty<'tcx>) -> usize {
        if let Some(&i) = self.type_ix.get(&t) {
            return i;
        }
        // reserve the slot first (recursive types through ADT args are finite, but be safe)
        let ix = self.types.len();
        self.types.push(J::Null);
        self.type_ix.insert(t, ix);
        let tcx = self.tcx;
        let j = match *t.kind() {
            ty::Bool => J::obj(vec![("k", s("bool"))]),
            ty::Char => J::obj(vec![("k", s("char"))]),
            ty::Int(i) => J::obj(vec![("k", s("int")), ("n", s(i.name_str()))]),
            ty::Uint(i) => J::obj(vec![("k", s("int")), ("n", s(i.name_str()))]),
            ty::Float(f) => J::obj(vec![("k", s("float")), ("n", s(f.name_str()))]),
            ty::Adt(def, args) => {
                let k = key(tcx, def.did());
                if def.did().is_local() {
                    self.adts_seen.insert(k.clone(), def.did());
                }
                let a = self.gargs(args);
                J::obj(vec![("k", s("adt")), ("d", s(k)), ("a", a)])
            }
            ty::Str => J::obj(vec![("k", s("str"))]),
            ty::Array(e, n) => {
                let e = self.ty(e);
                let n = n.try_to_target_usize(tcx);
                J::obj(vec![
                    ("k", s("array")),
                    ("e", J::Int(e as i128)),
                    ("len", n.map(|x| J::Int(x as i128)).unwrap_or(J::Null)),
                ])
            }
            ty::Slice(e) => {
                let e = self.ty(e);
                J::obj(vec![("k", s("slice")), ("e", J::Int(e as i128))])
            }
            ty::RawPtr(e, m) => {
                let e = self.ty(e);
                J::obj(vec![("k", s("ptr")), ("m", J::Bool(m.is_mut())), ("e", J::Int(e as i128))])
            }
            ty::Ref(_, e, m) => {
                let e = self.ty(e);
                J::obj(vec![("k", s("ref")), ("m", J::Bool(m.is_mut())), ("e", J::Int(e as i128))])
            }
            ty::FnDef(d, args) => {
                let a = self.gargs(args);
                J::obj(vec![("k", s("fndef")), ("d", s(key(tcx, d))), ("a", a)])
            }
            ty::FnPtr(..) => J::obj(vec![("k", s("fnptr")), ("s", s(format!("{}", t)))]),
            ty::Dynamic(preds, _) => {
                let mut v = vec![];
                for p in preds.iter() {
                    if let ty::ExistentialPredicate::Trait(tr) = p.skip_binder() {
                        v.push(s(key(tcx, tr.def_id)));
                    } else if let ty::ExistentialPredicate::AutoTrait(d) = p.skip_binder() {
                        v.push(s(key(tcx, d)));
                    }
                }
                J::obj(vec![("k", s("dyn")), ("t", J::Arr(v))])
            }
            ty::Closure(d, args) => {
                let ups: Vec<Ty<'tcx>> = args.as_closure().upvar_tys().iter().collect();
                let u = J::Arr(ups.into_iter().map(|t| J::Int(self.ty(t) as i128)).collect());
                J::obj(vec![("k", s("closure")), ("d", s(key(tcx, d))), ("u", u)])
            }
            ty::CoroutineClosure(d, _) => {
                J::obj(vec![("k", s("coroutine_closure")), ("d", s(key(tcx, d)))])
            }
            ty::Coroutine(d, args) => {
                let ups: Vec<Ty<'tcx>> = args.as_coroutine().upvar_tys().iter().collect();
                let u = J::Arr(ups.into_iter().map(|t| J::Int(self.ty(t) as i128)).collect());
                J::obj(vec![("k", s("coroutine")), ("d", s(key(tcx, d))), ("u", u)])
            }
            ty::Never => J::obj(vec![("k", s("never"))]),
            ty::Tuple(ts) => {
                let v: Vec<Ty<'tcx>> = ts.iter().collect();
                let u = J::Arr(v.into_iter().map(|t| J::Int(self.ty(t) as i128)).collect());
                J::obj(vec![("k", s("tuple")), ("e", u)])
            }
            ty::Alias(..) => J::obj(vec![("k", s("alias")), ("s", s(format!("{}", t)))]),
            ty::Param(p) => J::obj(vec![("k", s("param")), ("n", s(p.name.as_str()))]),
            _ => J::obj(vec![("k", s("other")), ("s", s(format!("{:?}", t.kind())))]),
        };
        self.types[ix] = j;
        ix
    }

    fn place(&mut self, body: &mir::Body<'tcx>, p: Place<'tcx>) -> J {
        let tcx = self.tcx;
        let mut pty = mir::PlaceTy::from_ty(body.local_decls[p.local].ty);
        let mut proj = vec![];
        for elem in p.projection.iter() {
            let e = match elem {
                PlaceElem::Deref => s("*"),
                PlaceElem::Field(f, fty) => {
                    let (owner, name) = match *pty.ty.kind() {
                        ty::Adt(def, _) => {
                            let v = match pty.variant_index {
                                Some(v) => def.variant(v),
                                None => def.non_enum_variant(),
                            };
                            let vn = if def.is_enum() {
                                format!("{}::{}", key(tcx, def.did()), v.name)
                            } else {
                                key(tcx, def.did())
                            };
                            (vn, v.fields[f].name.to_string())
                        }
                        ty::Closure(d, _) | ty::Coroutine(d, _) => {
                            let mut nm = format!("upvar{}", f.index());
                            if let Some(ld) = d.as_local() {
                                let caps = tcx.closure_captures(ld);
                                if let Some(c) = caps.get(f.index()) {
                                    nm = c.to_symbol().to_string();
                                }
                            }
                            (key(tcx, d), nm)
                        }
                        ty::Tuple(_) => ("tuple".to_string(), format!("{}", f.index())),
                        _ => ("?".to_string(), format!("{}", f.index())),
                    };
                    let t = self.ty(fty);
                    J::Arr(vec![s("f"), J::Int(f.index() as i128), s(owner), s(name), J::Int(t as i128)])
                }
                PlaceElem::Index(l) => J::Arr(vec![s("i"), J::Int(l.index() as i128)]),
                PlaceElem::ConstantIndex { offset, min_length, from_end } => J::Arr(vec![
                    s("ci"),
                    J::Int(offset as i128),
                    J::Int(min_length as i128),
                    J::Bool(from_end),
                ]),
                PlaceElem::Subslice { from, to, from_end } => {
                    J::Arr(vec![s("ss"), J::Int(from as i128), J::Int(to as i128), J::Bool(from_end)])
                }
                PlaceElem::Downcast(name, v) => J::Arr(vec![
                    s("dc"),
                    s(name.map(|n| n.to_string()).unwrap_or_default()),
                    J::Int(v.index() as i128),
                ]),
                PlaceElem::OpaqueCast(_) => s("opaque"),
                PlaceElem::UnwrapUnsafeBinder(_) => s("unwrap_binder"),
            };
            proj.push(e);
            pty = pty.projection_ty(tcx, elem);
        }
        J::Arr(vec![J::Int(p.local.index() as i128), J::Arr(proj)])
    }

    fn fnref(&mut self, owner: DefId, d: DefId, args: GenericArgsRef<'tcx>) -> J {
        let tcx = self.tcx;
        let mut o = vec![("fn", s(key(tcx, d)))];
        o.push(("pretty", s(tcx.def_path_str(d))));
        let a = self.gargs(args);
        o.push(("a", a));
        if let Some(tr) = tcx.trait_of_assoc(d) {
            o.push(("trait", s(key(tcx, tr))));
        }
        let env = TypingEnv::post_analysis(tcx, owner);
        let res = std::panic::catch_unwind(std::panic::AssertUnwindSafe(|| {
            Instance::try_resolve(tcx, env, d, args)
        }));
        match res {
            Ok(Ok(Some(inst))) => {
                let kind = match inst.def {
                    InstanceKind::Item(_) => "item",
                    InstanceKind::Virtual(..) => "virtual",
                    InstanceKind::Intrinsic(_) => "intrinsic",
                    InstanceKind::ClosureOnceShim { .. } => "closure_once_shim",
                    InstanceKind::FnPtrShim(..) => "fnptr_shim",
                    InstanceKind::DropGlue(..) => "drop_glue",
                    InstanceKind::CloneShim(..) => "clone_shim",
                    InstanceKind::ReifyShim(..) => "reify_shim",
                    InstanceKind::VTableShim(..) => "vtable_shim",
                    _ => "other",
                };
                o.push(("rk", s(kind)));
                o.push(("res", s(key(tcx, inst.def_id()))));
                let ra = self.gargs(inst.args);
                o.push(("ra", ra));
            }
            Ok(Ok(None)) => o.push(("rk", s("unresolved"))),
            _ => o.push(("rk", s("error"))),
        }
        J::Obj(o.into_iter().map(|(k, v)| (k.to_string(), v)).collect())
    }

    fn constant(&mut self, owner: DefId, c: &mir::ConstOperand<'tcx>) -> J {
        let tcx = self.tcx;
        let t = c.const_.ty();
        let tix = self.ty(t);
        let val: J = match *t.kind() {
            ty::FnDef(d, args) => self.fnref(owner, d, args),
            _ => match c.const_ {
                Const::Unevaluated(uv, _) => {
                    if uv.promoted.is_some() {
                        J::obj(vec![("promoted", J::Bool(true))])
                    } else {
                        let k = key(tcx, uv.def);
                        let dk = tcx.def_kind(uv.def);
                        if matches!(dk, DefKind::Const { .. } | DefKind::AssocConst { .. }) {
                            self.named_consts.insert(k.clone(), uv.def);
                        }
                        J::obj(vec![("named", s(k))])
                    }
                }
                Const::Val(v, _) => self.constval(v, t),
                Const::Ty(_, ct) => match ct.try_to_leaf() {
                    Some(si) => scalar_int(si, t),
                    None => {
                        // pattern constants of type &str / &[u8] are valtrees
                        let is_str = matches!(t.kind(), ty::Ref(_, inner, _) if inner.is_str());
                        match ct.try_to_value().and_then(|v| v.try_to_raw_bytes(tcx)) {
                            Some(b) if is_str => J::obj(vec![("str", s(String::from_utf8_lossy(b).to_string()))]),
                            Some(b) => J::obj(vec![("bytes", J::Arr(b.iter().map(|x| J::Int(*x as i128)).collect()))]),
                            None => J::obj(vec![("opaque", s(format!("{}", ct)))]),
                        }
                    }
                },
            },
        };
        J::Arr(vec![s("c"), J::Int(tix as i128), val])
    }

    fn constval(&mut self, v: ConstValue, t: Ty<'tcx>) -> J {
        let tcx = self.tcx;
        match v {
            ConstValue::Scalar(mir::interpret::Scalar::Int(si)) => scalar_int(si, t),
            ConstValue::Scalar(_) => J::obj(vec![("ptr", J::Bool(true))]),
            ConstValue::ZeroSized => J::obj(vec![("zst", J::Bool(true))]),
            ConstValue::Slice { .. } => {
                let is_str = matches!(t.kind(), ty::Ref(_, inner, _) if inner.is_str());
                let is_bytes = matches!(t.kind(), ty::Ref(_, inner, _) if matches!(inner.kind(), ty::Slice(e) if *e == tcx.types.u8));
                if is_str || is_bytes {
                    if let Some(b) = v.try_get_slice_bytes_for_diagnostics(tcx) {
                        if is_str {
                            return J::obj(vec![("str", s(String::from_utf8_lossy(b).to_string()))]);
                        }
                        return J::obj(vec![(
                            "bytes",
                            J::Arr(b.iter().map(|x| J::Int(*x as i128)).collect()),
                        )]);
                    }
                }
                J::obj(vec![("slice", J::Bool(true))])
            }
            ConstValue::Indirect { .. } => J::obj(vec![("indirect", J::Bool(true))]),
        }
    }

    fn operand(&mut self, owner: DefId, body: &mir::Body<'tcx>, o: &Operand<'tcx>) -> J {
        match o {
            Operand::Copy(p) => {
                let p = self.place(body, *p);
                J::Arr(vec![s("cp"), p])
            }
            Operand::Move(p) => {
                let p = self.place(body, *p);
                J::Arr(vec![s("mv"), p])
            }
            Operand::Constant(c) => self.constant(owner, c),
            #[allow(unreachable_patterns)]
            _ => J::Arr(vec![s("rt")]),
        }
    }

    fn rvalue(&mut self, owner: DefId, body: &mir::Body<'tcx>, rv: &Rvalue<'tcx>) -> J {
        let tcx = self.tcx;
        match rv {
            Rvalue::Use(o, ..) => {
                let o = self.operand(owner, body, o);
                J::Arr(vec![s("use"), o])
            }
            Rvalue::Repeat(o, n) => {
                let o = self.operand(owner, body, o);
                let n = n.try_to_target_usize(tcx).map(|x| J::Int(x as i128)).unwrap_or(J::Null);
                J::Arr(vec![s("repeat"), o, n])
            }
            Rvalue::Ref(_, bk, p) => {
                let k = match bk {
                    BorrowKind::Shared => "shared",
                    BorrowKind::Fake(_) => "fake",
                    BorrowKind::Mut { .. } => "mut",
                };
                let p = self.place(body, *p);
                J::Arr(vec![s("ref"), s(k), p])
            }
            Rvalue::RawPtr(_, p) => {
                let p = self.place(body, *p);
                J::Arr(vec![s("rawptr"), p])
            }
            Rvalue::Cast(k, o, t) => {
                let kind = match k {
                    CastKind::IntToInt => "IntToInt".to_string(),
                    other => format!("{:?}", other),
                };
                let o = self.operand(owner, body, o);
                let t = self.ty(*t);
                J::Arr(vec![s("cast"), s(kind), o, J::Int(t as i128)])
            }
            Rvalue::BinaryOp(op, ab) => {
                let a = self.operand(owner, body, &ab.0);
                let b = self.operand(owner, body, &ab.1);
                J::Arr(vec![s("bin"), s(format!("{:?}", op)), a, b])
            }
            Rvalue::UnaryOp(op, o) => {
                let o = self.operand(owner, body, o);
                J::Arr(vec![s("un"), s(format!("{:?}", op)), o])
            }
            Rvalue::Discriminant(p) => {
                let p = self.place(body, *p);
                J::Arr(vec![s("discr"), p])
            }
            Rvalue::Aggregate(k, ops) => {
                let kind = match **k {
                    AggregateKind::Array(_) => J::obj(vec![("k", s("array"))]),
                    AggregateKind::Tuple => J::obj(vec![("k", s("tuple"))]),
                    AggregateKind::Adt(d, v, args, _, active) => {
                        let def = tcx.adt_def(d);
                        let var = def.variant(v);
                        if d.is_local() {
                            self.adts_seen.insert(key(tcx, d), d);
                        }
                        let fields: Vec<J> = match active {
                            Some(f) => vec![s(var.fields[f].name.to_string())],
                            None => var.fields.iter().map(|f| s(f.name.to_string())).collect(),
                        };
                        let a = self.gargs(args);
                        J::obj(vec![
                            ("k", s("adt")),
                            ("d", s(key(tcx, d))),
                            ("v", s(var.name.to_string())),
                            ("vi", J::Int(v.index() as i128)),
                            ("enum", J::Bool(def.is_enum())),
                            ("fields", J::Arr(fields)),
                            ("a", a),
                        ])
                    }
                    AggregateKind::Closure(d, _) => {
                        J::obj(vec![("k", s("closure")), ("d", s(key(tcx, d)))])
                    }
                    AggregateKind::Coroutine(d, _) => {
                        J::obj(vec![("k", s("coroutine")), ("d", s(key(tcx, d)))])
                    }
                    AggregateKind::CoroutineClosure(d, _) => {
                        J::obj(vec![("k", s("coroutine_closure")), ("d", s(key(tcx, d)))])
                    }
                    AggregateKind::RawPtr(..) => J::obj(vec![("k", s("rawptr"))]),
                };
                let ops: Vec<J> = ops.iter().map(|o| self.operand(owner, body, o)).collect();
                J::Arr(vec![s("agg"), kind, J::Arr(ops)])
            }
            Rvalue::CopyForDeref(p) => {
                let p = self.place(body, *p);
                J::Arr(vec![s("use"), J::Arr(vec![s("cp"), p])])
            }
            Rvalue::ThreadLocalRef(d) => J::Arr(vec![s("tls"), s(key(tcx, *d))]),
            #[allow(unreachable_patterns)]
            other => J::Arr(vec![s("other"), s(format!("{:?}", other))]),
        }
    }

    fn unwind(&self, u: &UnwindAction) -> J {
        match u {
            UnwindAction::Cleanup(b) => J::Int(b.index() as i128),
            _ => J::Null,
        }
    }

    fn bb(&self, b: BasicBlock) -> J {
        J::Int(b.index() as i128)
    }

    fn body(&mut self, def: LocalDefId, body: &mir::Body<'tcx>) -> J {
        let tcx = self.tcx;
        let did = def.to_def_id();
        let dk = tcx.def_kind(did);
        let mut o: Vec<(&str, J)> = vec![];
        o.push(("key", s(key(tcx, did))));
        o.push(("pretty", s(tcx.def_path_str(did))));
        let kind = match dk {
            DefKind::Fn => "fn",
            DefKind::AssocFn => "method",
            DefKind::Closure => {
                if tcx.is_coroutine(did) {
                    "coroutine"
                } else {
                    "closure"
                }
            }
            _ => "other",
        };
        o.push(("kind", s(kind)));
        if matches!(dk, DefKind::Closure) {
            o.push(("parent", s(key(tcx, tcx.parent(did)))));
            o.push(("root", s(key(tcx, tcx.typeck_root_def_id(did)))));
        } else {
            o.push(("parent", J::Null));
            o.push(("root", s(key(tcx, did))));
        }
        if matches!(dk, DefKind::Fn | DefKind::AssocFn) {
            o.push(("vis", s(format!("{:?}", tcx.visibility(did)))));
            o.push(("name", s(tcx.item_name(did).to_string())));
        }
        if matches!(dk, DefKind::AssocFn) {
            if let Some(imp) = tcx.impl_of_assoc(did) {
                o.push(("impl", s(key(tcx, imp))));
                let self_ty = tcx.type_of(imp).instantiate_identity().skip_norm_wip();
                let st = self.ty(self_ty);
                o.push(("self_ty", J::Int(st as i128)));
                if let Some(tr) = tcx.impl_opt_trait_ref(imp) {
                    let tr = tr.instantiate_identity().skip_norm_wip();
                    o.push(("impl_trait", s(key(tcx, tr.def_id))));
                    o.push(("derived", J::Bool(tcx.is_automatically_derived(imp))));
                    let ai = tcx.associated_item(did);
                    if let Some(tm) = ai.trait_item_def_id() {
                        o.push(("trait_method", s(key(tcx, tm))));
                    }
                }
            } else if let Some(tr) = tcx.trait_of_assoc(did) {
                o.push(("in_trait", s(key(tcx, tr))));
            }
        }
        o.push(("span", self.loc(body.span)));
        o.push(("argc", J::Int(body.arg_count as i128)));
        // locals
        let mut names: HashMap<usize, String> = HashMap::new();
        let mut upnames: Vec<J> = vec![];
        for vdi in &body.var_debug_info {
            if let mir::VarDebugInfoContents::Place(p) = vdi.value {
                if p.projection.is_empty() {
                    names.insert(p.local.index(), vdi.name.to_string());
                } else {
                    let pj = self.place(body, p);
                    upnames.push(J::Arr(vec![s(vdi.name.to_string()), pj]));
                }
            }
        }
        let mut locals = vec![];
        for (l, d) in body.local_decls.iter_enumerated() {
            let t = self.ty(d.ty);
            let n = names.get(&l.index()).map(|x| s(x.clone())).unwrap_or(J::Null);
            locals.push(J::Arr(vec![J::Int(t as i128), n, J::Bool(d.is_user_variable())]));
        }
        o.push(("locals", J::Arr(locals)));
        o.push(("debug_places", J::Arr(upnames)));
        // blocks
        let mut blocks = vec![];
        for (_bb, data) in body.basic_blocks.iter_enumerated() {
            let mut stmts = vec![];
            for st in &data.statements {
                match &st.kind {
                    StatementKind::Assign(b) => {
                        let (p, rv) = &**b;
                        let pj = self.place(body, *p);
                        let rj = self.rvalue(did, body, rv);
                        stmts.push(J::Arr(vec![s("a"), pj, rj, self.loc(st.source_info.span), self.mac(st.source_info.span)]));
                    }
                    StatementKind::SetDiscriminant { place, variant_index } => {
                        let pj = self.place(body, **place);
                        stmts.push(J::Arr(vec![
                            s("setdiscr"),
                            pj,
                            J::Int(variant_index.index() as i128),
                            self.loc(st.source_info.span),
                        ]));
                    }
                    StatementKind::StorageDead(l) => {
                        stmts.push(J::Arr(vec![s("dead"), J::Int(l.index() as i128)]));
                    }
                    _ => {}
                }
            }
            let term = data.terminator();
            let sp = term.source_info.span;
            let tj = match &term.kind {
                TerminatorKind::Goto { target } => J::Arr(vec![s("goto"), self.bb(*target)]),
                TerminatorKind::SwitchInt { discr, targets } => {
                    let d = self.operand(did, body, discr);
                    let mut arms = vec![];
                    for (v, t) in targets.iter() {
                        arms.push(J::Arr(vec![J::Int(v as i128), self.bb(t)]));
                    }
                    J::Arr(vec![s("switch"), d, J::Arr(arms), self.bb(targets.otherwise()), self.loc(sp), self.mac(sp)])
                }
                TerminatorKind::UnwindResume => J::Arr(vec![s("resume")]),
                TerminatorKind::UnwindTerminate(_) => J::Arr(vec![s("abort")]),
                TerminatorKind::Return => J::Arr(vec![s("return")]),
                TerminatorKind::Unreachable => J::Arr(vec![s("unreachable")]),
                TerminatorKind::Drop { place, target, unwind, .. } => {
                    let p = self.place(body, *place);
                    J::Arr(vec![s("drop"), p, self.bb(*target), self.unwind(unwind)])
                }
                TerminatorKind::Call { func, args, destination, target, unwind, fn_span, .. } => {
                    let f = self.operand(did, body, func);
                    let a: Vec<J> = args.iter().map(|x| self.operand(did, body, &x.node)).collect();
                    let d = self.place(body, *destination);
                    J::Arr(vec![
                        s("call"),
                        f,
                        J::Arr(a),
                        d,
                        target.map(|t| self.bb(t)).unwrap_or(J::Null),
                        self.unwind(unwind),
                        self.loc(*fn_span),
                        self.mac(sp),
                    ])
                }
                TerminatorKind::TailCall { .. } => J::Arr(vec![s("tailcall")]),
                TerminatorKind::Assert { cond, expected, msg, target, unwind } => {
                    let c = self.operand(did, body, cond);
                    let m = match &**msg {
                        AssertKind::BoundsCheck { len, index } => {
                            let l = self.operand(did, body, len);
                            let i = self.operand(did, body, index);
                            J::obj(vec![("kind", s("BoundsCheck")), ("len", l), ("index", i)])
                        }
                        AssertKind::Overflow(op, a, b) => {
                            let a = self.operand(did, body, a);
                            let b = self.operand(did, body, b);
                            J::obj(vec![("kind", s("Overflow")), ("op", s(format!("{:?}", op))), ("a", a), ("b", b)])
                        }
                        AssertKind::OverflowNeg(a) => {
                            let a = self.operand(did, body, a);
                            J::obj(vec![("kind", s("OverflowNeg")), ("a", a)])
                        }
                        AssertKind::DivisionByZero(a) => {
                            let a = self.operand(did, body, a);
                            J::obj(vec![("kind", s("DivisionByZero")), ("a", a)])
                        }
                        AssertKind::RemainderByZero(a) => {
                            let a = self.operand(did, body, a);
                            J::obj(vec![("kind", s("RemainderByZero")), ("a", a)])
                        }
                        other => J::obj(vec![("kind", s("Other")), ("s", s(format!("{:?}", other)))]),
                    };
                    J::Arr(vec![
                        s("assert"),
                        c,
                        J::Bool(*expected),
                        m,
                        self.bb(*target),
                        self.unwind(unwind),
                        self.loc(sp),
                    ])
                }
                TerminatorKind::Yield { value, resume, drop, .. } => {
                    let v = self.operand(did, body, value);
                    J::Arr(vec![
                        s("yield"),
                        v,
                        self.bb(*resume),
                        drop.map(|t| self.bb(t)).unwrap_or(J::Null),
                    ])
                }
                TerminatorKind::CoroutineDrop => J::Arr(vec![s("coroutine_drop")]),
                TerminatorKind::FalseEdge { real_target, imaginary_target } => {
                    J::Arr(vec![s("false_edge"), self.bb(*real_target), self.bb(*imaginary_target)])
                }
                TerminatorKind::FalseUnwind { real_target, unwind } => {
                    J::Arr(vec![s("false_unwind"), self.bb(*real_target), self.unwind(unwind)])
                }
                TerminatorKind::InlineAsm { .. } => J::Arr(vec![s("asm")]),
            };
            blocks.push(J::obj(vec![
                ("c", J::Bool(data.is_cleanup)),
                ("s", J::Arr(stmts)),
                ("t", tj),
            ]));
        }
        o.push(("blocks", J::Arr(blocks)));
        J::Obj(o.into_iter().map(|(k, v)| (k.to_string(), v)).collect())
    }

    fn adt(&mut self, d: DefId) -> J {
        let tcx = self.tcx;
        let def = tcx.adt_def(d);
        let mut variants = vec![];
        for (vi, v) in def.variants().iter_enumerated() {
            let mut fields = vec![];
            for f in v.fields.iter() {
                let fty = tcx.type_of(f.did).instantiate_identity().skip_norm_wip();
                let t = self.ty(fty);
                fields.push(J::obj(vec![
                    ("name", s(f.name.to_string())),
                    ("ty", J::Int(t as i128)),
                    ("vis", s(format!("{:?}", f.vis))),
                ]));
            }
            let discr = if def.is_enum() {
                J::Int(def.discriminant_for_variant(tcx, vi).val as i128)
            } else {
                J::Null
            };
            variants.push(J::obj(vec![
                ("name", s(v.name.to_string())),
                ("discr", discr),
                ("fields", J::Arr(fields)),
            ]));
        }
        let kind = if def.is_enum() {
            "enum"
        } else if def.is_union() {
            "union"
        } else {
            "struct"
        };
        let self_ty = tcx.type_of(d).instantiate_identity().skip_norm_wip();
        let (mut hits, mut opaque) = (vec![], vec![]);
        cell_walk(tcx, self_ty, &mut vec![def_name(tcx, d)], &mut vec![], &mut hits, &mut opaque);
        J::obj(vec![
            ("cells", J::Arr(hits.into_iter().map(s).collect())),
            ("cell_opaque", J::Arr(opaque.into_iter().map(s).collect())),
            ("key", s(key(tcx, d))),
            ("pretty", s(tcx.def_path_str(d))),
            ("kind", s(kind)),
            ("vis", s(format!("{:?}", tcx.visibility(d)))),
            ("span", self.loc(tcx.def_span(d))),
            ("variants", J::Arr(variants)),
        ])
    }
}

struct UnsafeVisitor<'tcx> {
    tcx: TyCtxt<'tcx>,
    found: Vec<(String, Span)>,
}

impl<'tcx> rustc_hir::intravisit::Visitor<'tcx> for UnsafeVisitor<'tcx> {
    type NestedFilter = rustc_middle::hir::nested_filter::OnlyBodies;
    fn maybe_tcx(&mut self) -> TyCtxt<'tcx> {
        self.tcx
    }
    fn visit_block(&mut self, b: &'tcx rustc_hir::Block<'tcx>) {
        if let rustc_hir::BlockCheckMode::UnsafeBlock(rustc_hir::UnsafeSource::UserProvided) = b.rules {
            self.found.push(("block".to_string(), b.span));
        }
        rustc_hir::intravisit::walk_block(self, b);
    }
}

/// Deep walk: is an `UnsafeCell` reachable from `t` other than through the reference counts of
/// `Arc`/`Rc`? `path` is the field path walked so far; hits and opaque ends are recorded.
fn cell_walk<'tcx>(
    tcx: TyCtxt<'tcx>,
    t: Ty<'tcx>,
    path: &mut Vec<String>,
    seen: &mut Vec<Ty<'tcx>>,
    hits: &mut Vec<String>,
    opaque: &mut Vec<String>,
) {
    if seen.contains(&t) {
        return;
    }
    seen.push(t);
    match *t.kind() {
        ty::Adt(def, args) => {
            if def.is_unsafe_cell() {
                hits.push(format!("{} : {}", path.join("."), t));
                return;
            }
            let dn = tcx.get_diagnostic_name(def.did());
            let is_rc = matches!(dn, Some(n) if n == rustc_span::sym::Arc || n == rustc_span::sym::Rc);
            if is_rc {
                // shared ownership: the counts are interior-mutable by design; only the payload matters
                if let Some(inner) = args.types().next() {
                    path.push(format!("<{}>", if dn == Some(rustc_span::sym::Arc) { "Arc" } else { "Rc" }));
                    cell_walk(tcx, inner, path, seen, hits, opaque);
                    path.pop();
                }
                return;
            }
            // generic arguments denote logical ownership even when the storage is a type-erased raw
            // pointer (Vec<T> = RawVecInner{ptr: Unique<u8>} + PhantomData<T>)
            for (i, a) in args.types().enumerate() {
                path.push(format!("<{}>", i));
                cell_walk(tcx, a, path, seen, hits, opaque);
                path.pop();
            }
            for v in def.variants().iter() {
                for f in v.fields.iter() {
                    let ft = tcx.type_of(f.did).instantiate(tcx, args).skip_norm_wip();
                    path.push(format!("{}", f.name));
                    cell_walk(tcx, ft, path, seen, hits, opaque);
                    path.pop();
                }
            }
        }
        ty::Pat(e, _) => cell_walk(tcx, e, path, seen, hits, opaque),
        ty::Array(e, _) | ty::Slice(e) | ty::RawPtr(e, _) | ty::Ref(_, e, _) => {
            path.push("[]".to_string());
            cell_walk(tcx, e, path, seen, hits, opaque);
            path.pop();
        }
        ty::Tuple(ts) => {
            for (i, e) in ts.iter().enumerate() {
                path.push(format!("{}", i));
                cell_walk(tcx, e, path, seen, hits, opaque);
                path.pop();
            }
        }
        ty::Bool | ty::Char | ty::Int(_) | ty::Uint(_) | ty::Float(_) | ty::Str | ty::Never | ty::FnDef(..) | ty::FnPtr(..) => {}
        _ => opaque.push(format!("{} : {}", path.join("."), t)),
    }
}

fn scalar_int<'tcx>(si: ty::ScalarInt, t: Ty<'tcx>) -> J {
    let size = si.size();
    let bits = si.to_bits(size);
    match t.kind() {
        ty::Bool => J::obj(vec![("bool", J::Bool(bits != 0))]),
        ty::Int(_) => {
            // sign-extend
            let sh = 128 - size.bits();
            let v = ((bits as i128) << sh) >> sh;
            J::obj(vec![("int", J::Int(v))])
        }
        ty::Char => J::obj(vec![("int", J::Int(bits as i128)), ("char", J::Bool(true))]),
        _ => {
            if bits > i128::MAX as u128 {
                J::obj(vec![("int", J::Str(format!("{}", bits)))])
            } else {
                J::obj(vec![("int", J::Int(bits as i128))])
            }
        }
    }
}

fn dump(tcx: TyCtxt<'_>, dir: &str) {
    let t0 = std::time::Instant::now();
    let krate = tcx.crate_name(rustc_hir::def_id::LOCAL_CRATE).to_string();
    let ctype = format!("{:?}", tcx.crate_types().first().copied()).to_lowercase();
    let ctype = ctype.trim_start_matches("some(").trim_end_matches(')').to_string();
    let is_test = tcx.sess.is_test_crate();
    let mut cx = Cx {
        tcx,
        types: vec![],
        type_ix: HashMap::new(),
        named_consts: BTreeMap::new(),
        adts_seen: BTreeMap::new(),
    };
    let mut bodies = vec![];
    let mut owners: Vec<LocalDefId> = tcx.hir_body_owners().collect();
    // deepest closures first: typeck of a body that spawns/awaits another body's coroutine needs
    // that coroutine's witness types, which steals its `mir_built`; reading inner bodies first
    // keeps almost everything at the `mir_built` stage.
    owners.sort_by_key(|d| {
        let k = key(tcx, d.to_def_id());
        let depth = k.matches("{closure#").count();
        (usize::MAX - depth, k)
    });
    // Clone every body first: callee resolution below may force queries (coroutine witnesses,
    // const eval) that steal `mir_built` of other bodies.
    let mut cloned: Vec<(LocalDefId, mir::Body<'_>)> = vec![];
    let mut stolen: Vec<J> = vec![];
    for def in owners {
        let dk = tcx.def_kind(def.to_def_id());
        if !matches!(dk, DefKind::Fn | DefKind::AssocFn | DefKind::Closure) {
            continue;
        }
        let st = tcx.mir_built(def);
        if !st.is_stolen() {
            let b = st.borrow().clone();
            cloned.push((def, b));
            continue;
        }
        // Stolen already (MIR building of an earlier body const-evaluated a pattern constant,
        // which ran CTFE on this const fn). Use the CTFE MIR instead and say so.
        let pr = &tcx.mir_promoted(def).0;
        if !pr.is_stolen() {
            let b = pr.borrow().clone();
            stolen.push(J::Arr(vec![s(key(tcx, def.to_def_id())), s("promoted")]));
            cloned.push((def, b));
        } else if tcx.is_const_fn(def.to_def_id()) {
            let b = tcx.mir_for_ctfe(def).clone();
            stolen.push(J::Arr(vec![s(key(tcx, def.to_def_id())), s("ctfe")]));
            cloned.push((def, b));
        } else {
            stolen.push(J::Arr(vec![s(key(tcx, def.to_def_id())), s("missing")]));
        }
    }
    cloned.sort_by_key(|(d, _)| key(tcx, d.to_def_id()));
    for (def, b) in &cloned {
        bodies.push(cx.body(*def, b));
    }
    // all local ADTs (not only the ones seen in bodies)
    for id in tcx.hir_crate_items(()).definitions() {
        let d = id.to_def_id();
        if matches!(tcx.def_kind(d), DefKind::Struct | DefKind::Enum | DefKind::Union) {
            cx.adts_seen.insert(key(tcx, d), d);
        }
        if matches!(tcx.def_kind(d), DefKind::Const { .. } | DefKind::AssocConst { .. }) {
            // only consts that have a value (not trait assoc consts without default)
            cx.named_consts.insert(key(tcx, d), d);
        }
    }
    let adt_list: Vec<DefId> = cx.adts_seen.values().copied().collect();
    let mut adts = vec![];
    for d in adt_list {
        adts.push(cx.adt(d));
    }
    // trait impls for local types
    let mut impls = vec![];
    for id in tcx.hir_crate_items(()).definitions() {
        let d = id.to_def_id();
        if let DefKind::Impl { of_trait } = tcx.def_kind(d) {
            let self_ty = tcx.type_of(d).instantiate_identity().skip_norm_wip();
            let st = cx.ty(self_ty);
            let mut o = vec![
                ("key", s(key(tcx, d))),
                ("self_ty", J::Int(st as i128)),
                ("derived", J::Bool(tcx.is_automatically_derived(d))),
                ("span", cx.loc(tcx.def_span(d))),
            ];
            if of_trait {
                let tr = tcx.impl_trait_ref(d).instantiate_identity().skip_norm_wip();
                o.push(("trait", s(key(tcx, tr.def_id))));
            }
            let mut methods = vec![];
            for ai in tcx.associated_items(d).in_definition_order() {
                if matches!(tcx.def_kind(ai.def_id), DefKind::AssocFn) {
                    let mut m = vec![("name", s(ai.name().to_string())), ("key", s(key(tcx, ai.def_id)))];
                    if let Some(tm) = ai.trait_item_def_id() {
                        m.push(("trait_method", s(key(tcx, tm))));
                    }
                    methods.push(J::obj(m));
                }
            }
            o.push(("methods", J::Arr(methods)));
            impls.push(J::obj(o));
        }
    }
    // named constants (evaluated after all bodies were read; evaluation may steal mir_built
    // of const fns, which is fine now)
    let mut consts = vec![];
    let named: Vec<(String, DefId)> = cx.named_consts.iter().map(|(k, d)| (k.clone(), *d)).collect();
    for (k, d) in named {
        let t = tcx.type_of(d).instantiate_identity().skip_norm_wip();
        let mut val = J::Null;
        if matches!(t.kind(), ty::Int(_) | ty::Uint(_) | ty::Bool | ty::Char) && tcx.generics_of(d).is_empty() {
            let has_body = d.as_local().map(|l| tcx.hir_maybe_body_owned_by(l).is_some()).unwrap_or(true);
            if has_body {
                let r = std::panic::catch_unwind(std::panic::AssertUnwindSafe(|| tcx.const_eval_poly(d)));
                if let Ok(Ok(cv)) = r {
                    if let Some(si) = cv.try_to_scalar_int() {
                        val = scalar_int(si, t);
                    }
                }
            }
        }
        let tix = cx.ty(t);
        consts.push(J::obj(vec![
            ("key", s(k)),
            ("ty", J::Int(tix as i128)),
            ("val", val),
            ("span", cx.loc(tcx.def_span(d))),
        ]));
    }
    let mut uv = UnsafeVisitor { tcx, found: vec![] };
    tcx.hir_visit_all_item_likes_in_crate(&mut uv);
    for id in tcx.hir_crate_items(()).definitions() {
        let d = id.to_def_id();
        match tcx.def_kind(d) {
            DefKind::Fn | DefKind::AssocFn => {
                if tcx.fn_sig(d).skip_binder().safety().is_unsafe() {
                    uv.found.push(("fn".to_string(), tcx.def_span(d)));
                }
            }
            DefKind::Impl { of_trait: true } => {
                if tcx.impl_trait_header(d).safety.is_unsafe() && !tcx.is_automatically_derived(d) {
                    uv.found.push(("impl".to_string(), tcx.def_span(d)));
                }
            }
            _ => {}
        }
    }
    let unsafe_inv: Vec<J> = uv
        .found
        .iter()
        .filter(|(_, sp)| !sp.from_expansion())
        .map(|(k, sp)| J::Arr(vec![s(k.clone()), cx.loc(*sp)]))
        .collect();
    let unsafe_expn: Vec<J> = uv
        .found
        .iter()
        .filter(|(_, sp)| sp.from_expansion())
        .map(|(k, sp)| J::Arr(vec![s(k.clone()), cx.loc(*sp), cx.mac(*sp)]))
        .collect();
    let nonce = std::env::var("ELVIS_FACTS_NONCE").unwrap_or_default();
    let config = std::env::var("ELVIS_FACTS_CONFIG").unwrap_or_else(|_| "default".into());
    let nb = bodies.len();
    let doc = J::obj(vec![
        ("schema", J::Int(1)),
        ("nonce", s(nonce)),
        ("crate", s(krate.clone())),
        ("crate_type", s(ctype.clone())),
        ("is_test", J::Bool(is_test)),
        ("config", s(config)),
        ("stolen", J::Arr(stolen)),
        ("unsafe", J::Arr(unsafe_inv)),
        ("unsafe_in_macros", J::Arr(unsafe_expn)),
        ("types", J::Arr(std::mem::take(&mut cx.types))),
        ("consts", J::Arr(consts)),
        ("adts", J::Arr(adts)),
        ("impls", J::Arr(impls)),
        ("bodies", J::Arr(bodies)),
    ]);
    let mut out = String::with_capacity(1 << 24);
    doc.write(&mut out);
    let suffix = if is_test { "-test" } else { "" };
    let path = format!("{}/{}-{}{}.json", dir, krate, ctype, suffix);
    let tmp = format!("{}.tmp.{}", path, std::process::id());
    std::fs::write(&tmp, out.as_bytes()).expect("write facts");
    std::fs::rename(&tmp, &path).expect("rename facts");
    eprintln!(
        "elvis-factgen: {} bodies={} bytes={} in {:?}",
        path,
        nb,
        out.len(),
        t0.elapsed()
    );
}
