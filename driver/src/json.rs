// Minimal JSON value + writer (the driver has no cargo dependencies).
pub enum J {
    Null,
    Bool(bool),
    Int(i128),
    Str(String),
    Arr(Vec<J>),
    Obj(Vec<(String, J)>),
}

impl J {
    pub fn obj(v: Vec<(&str, J)>) -> J {
        J::Obj(v.into_iter().map(|(k, v)| (k.to_string(), v)).collect())
    }

    pub fn write(&self, out: &mut String) {
        match self {
            J::Null => out.push_str("null"),
            J::Bool(b) => out.push_str(if *b { "true" } else { "false" }),
            J::Int(i) => out.push_str(&i.to_string()),
            J::Str(s) => esc(s, out),
            J::Arr(v) => {
                out.push('[');
                for (i, x) in v.iter().enumerate() {
                    if i > 0 {
                        out.push(',');
                    }
                    x.write(out);
                }
                out.push(']');
            }
            J::Obj(v) => {
                out.push('{');
                for (i, (k, x)) in v.iter().enumerate() {
                    if i > 0 {
                        out.push(',');
                    }
                    esc(k, out);
                    out.push(':');
                    x.write(out);
                }
                out.push('}');
            }
        }
    }
}

fn esc(s: &str, out: &mut String) {
    out.push('"');
    for c in s.chars() {
        match c {
            '"' => out.push_str("\\\""),
            '\\' => out.push_str("\\\\"),
            '\n' => out.push_str("\\n"),
            '\r' => out.push_str("\\r"),
            '\t' => out.push_str("\\t"),
            c if (c as u32) < 0x20 => out.push_str(&format!("\\u{:04x}", c as u32)),
            c => out.push(c),
        }
    }
    out.push('"');
}
