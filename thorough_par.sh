#!/bin/bash
# thorough_par.sh [jobs] : the thorough tier of every property, several properties at a time (each variant / stored seed
# is applied to its own scratch copy, so the runs are independent)
cd "$(dirname "$0")"
J=${1:-4}
printf '%s\n' C14 C17 C01 C03 C05 C02 C04 C06 C07 C08 C09 C10 C11 C12 C13 C15 C16 C18 C19 C20 | \
  xargs -P "$J" -I{} sh -c './check {} --tier thorough --no-evidence > thorough-{}.log 2>&1; echo "{} rc=$? $(tail -1 thorough-{}.log)"; grep -E "selftest (missed|broken|stale)" thorough-{}.log'
