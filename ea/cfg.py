"""Control-flow graph queries over `mir_built` bodies.

Edges: real successors only. Unwind/cleanup edges, the imaginary targets of FalseEdge/FalseUnwind,
the `drop` edge of Yield and the failing side of Assert are not edges: rules speak about normal
executions (a panic is handled by the panic rules, not by the path rules).
"""


def succs_of_term(t):
    k = t[0]
    if k == "goto":
        return [t[1]]
    if k == "switch":
        out = [a[1] for a in t[2]] + [t[3]]
        seen, r = set(), []
        for x in out:
            if x not in seen:
                seen.add(x)
                r.append(x)
        return r
    if k == "drop":
        return [t[2]]
    if k == "call":
        return [t[4]] if t[4] is not None else []
    if k == "assert":
        return [t[4]]
    if k == "yield":
        return [t[2]]
    if k in ("false_edge", "false_unwind"):
        return [t[1]]
    return []  # return, unreachable, resume, abort, coroutine_drop, tailcall, asm


def _const_switch_target(blk):
    """If the block's switch tests the discriminant of an enum value built in the same block
    (`_4 = Option::None; _5 = discr(_4); switch _5` — the async_trait `if let Some(r) = None` idiom),
    return the only feasible successor."""
    t = blk["t"]
    if t[0] != "switch" or t[1][0] not in ("cp", "mv") or t[1][1][1]:
        return None
    want = t[1][1][0]
    known = {}   # local -> variant index of the aggregate it holds
    dis = {}     # local -> variant index its value (a discriminant) denotes
    for st in blk["s"]:
        if st[0] != "a" or st[1][1]:
            if st[0] == "a":
                known.pop(st[1][0], None)
            continue
        l, rv = st[1][0], st[2]
        known.pop(l, None)
        dis.pop(l, None)
        if rv[0] == "agg" and rv[1]["k"] == "adt" and rv[1].get("enum") and rv[1]["d"] in ("core::option::Option", "core::result::Result"):
            known[l] = rv[1]["vi"]
        elif rv[0] == "discr" and not rv[1][1] and rv[1][0] in known:
            dis[l] = known[rv[1][0]]
    if want not in dis:
        return None
    v = dis[want]
    for val, tg in t[2]:
        if val == v:
            return tg
    return t[3]


class Cfg:
    def __init__(self, body):
        self.body = body
        n = len(body.blocks)
        self.n = n
        self.succ = [succs_of_term(b["t"]) for b in body.blocks]
        self.pruned = []
        for i, b in enumerate(body.blocks):
            only = _const_switch_target(b)
            if only is not None:
                self.pruned.append((i, [s for s in self.succ[i] if s != only]))
                self.succ[i] = [only]
        # `Err(e)?` / `None?`: Try::branch of a value built as Err/None in the calling block always breaks
        for i, b in enumerate(body.blocks):
            tr = b["t"]
            if tr[0] != "call" or tr[4] is None:
                continue
            c = tr[1][2] if tr[1][0] == "c" and isinstance(tr[1][2], dict) else None
            if not c or not c.get("fn", "").endswith("ops::try_trait::Try::branch") or len(tr[2]) != 1:
                continue
            a = tr[2][0]
            if a[0] not in ("cp", "mv") or a[1][1]:
                continue
            var = None
            for st in b["s"]:
                if st[0] == "a" and st[1] == [a[1][0], []]:
                    rv = st[2]
                    var = None
                    if rv[0] == "agg" and rv[1]["k"] == "adt" and rv[1]["d"] in ("core::option::Option", "core::result::Result"):
                        var = rv[1]["v"]
            if var is None:
                continue
            nb = body.blocks[tr[4]]
            sw = nb["t"]
            if sw[0] != "switch" or sw[1][0] not in ("cp", "mv"):
                continue
            dl = sw[1][1][0]
            isd = any(st[0] == "a" and st[1] == [dl, []] and st[2][0] == "discr" and st[2][1] == tr[3] for st in nb["s"])
            if not isd:
                continue
            val = 1 if var in ("Err", "None") else 0   # ControlFlow::Break = 1
            only = None
            for v, tg in sw[2]:
                if v == val:
                    only = tg
            if only is None:
                only = sw[3]
            self.pruned.append((tr[4], [s for s in self.succ[tr[4]] if s != only]))
            self.succ[tr[4]] = [only]
        self.pred = [[] for _ in range(n)]
        for i, ss in enumerate(self.succ):
            for s in ss:
                self.pred[s].append(i)
        self.reach = self._reach_from(0, ())
        self.returns = [i for i in range(n) if body.blocks[i]["t"][0] == "return" and i in self.reach]
        self._idom = None
        self._ipdom = None

    # ------------------------------------------------------------ reachability
    def _reach_from(self, start, removed):
        removed = set(removed)
        if start in removed:
            return set()
        seen = {start}
        st = [start]
        while st:
            x = st.pop()
            for s in self.succ[x]:
                if s not in seen and s not in removed:
                    seen.add(s)
                    st.append(s)
        return seen

    def reachable_from(self, start, removed=()):
        return self._reach_from(start, removed)

    def reaches(self, a, b, removed=()):
        """Is there a path a ->+ b (one or more edges) avoiding `removed` blocks?"""
        removed = set(removed)
        seen = set()
        st = [s for s in self.succ[a] if s not in removed]
        while st:
            x = st.pop()
            if x == b:
                return True
            if x in seen:
                continue
            seen.add(x)
            for s in self.succ[x]:
                if s not in removed and s not in seen:
                    st.append(s)
        return False

    def reach_plus(self, a):
        """Blocks reachable from a by one or more edges (cached)."""
        c = self.__dict__.setdefault("_rp", {})
        r = c.get(a)
        if r is None:
            seen = set()
            st = list(self.succ[a])
            while st:
                x = st.pop()
                if x in seen:
                    continue
                seen.add(x)
                st.extend(self.succ[x])
            r = c[a] = seen
        return r

    def path(self, a, b, removed=()):
        """Some path a ->* b avoiding `removed` (list of blocks) or None."""
        removed = set(removed)
        if a in removed:
            return None
        prev = {a: None}
        st = [a]
        while st:
            x = st.pop(0)
            if x == b:
                out = []
                while x is not None:
                    out.append(x)
                    x = prev[x]
                return out[::-1]
            for s in self.succ[x]:
                if s not in prev and s not in removed:
                    prev[s] = x
                    st.append(s)
        return None

    # ------------------------------------------------------------ dominators
    def _dom(self, entry_nodes, succ, pred):
        # Cooper-Harvey-Kennedy on the graph induced by nodes reachable from the (virtual) entry
        n = self.n
        VIRT = n
        succ_v = lambda x: entry_nodes if x == VIRT else succ[x]
        order, seen = [], set()
        st = [(VIRT, iter(succ_v(VIRT)))]
        seen.add(VIRT)
        while st:
            x, it = st[-1]
            adv = False
            for s in it:
                if s not in seen:
                    seen.add(s)
                    st.append((s, iter(succ_v(s))))
                    adv = True
                    break
            if not adv:
                order.append(x)
                st.pop()
        rpo = order[::-1]
        num = {x: i for i, x in enumerate(rpo)}
        idom = {VIRT: VIRT}

        def preds(x):
            ps = [p for p in pred[x] if p in num]
            if x in entry_nodes:
                ps.append(VIRT)
            return ps

        def inter(a, b):
            while a != b:
                while num[a] > num[b]:
                    a = idom[a]
                while num[b] > num[a]:
                    b = idom[b]
            return a

        changed = True
        while changed:
            changed = False
            for x in rpo[1:]:
                ps = [p for p in preds(x) if p in idom]
                if not ps:
                    continue
                new = ps[0]
                for p in ps[1:]:
                    new = inter(new, p)
                if idom.get(x) != new:
                    idom[x] = new
                    changed = True
        return idom, VIRT

    @property
    def idom(self):
        if self._idom is None:
            self._idom, _ = self._dom([0], self.succ, self.pred)
        return self._idom

    @property
    def ipdom(self):
        """Immediate post-dominators w.r.t. the normal `return` exits."""
        if self._ipdom is None:
            self._ipdom, _ = self._dom(list(self.returns), self.pred, self.succ)
        return self._ipdom

    def dominates(self, a, b):
        """a dominates b (reflexive). Unreachable b is dominated by everything."""
        if b not in self.reach:
            return True
        if a not in self.reach:
            return False
        idom = self.idom
        x = b
        while True:
            if x == a:
                return True
            p = idom.get(x)
            if p is None or p == x or p == self.n:
                return False
            x = p

    def strictly_dominates(self, a, b):
        return a != b and self.dominates(a, b)

    def postdominates(self, a, b):
        """Every path from b to a normal return passes through a (reflexive)."""
        ip = self.ipdom
        if b not in ip:
            return True  # b cannot reach a return
        x = b
        while True:
            if x == a:
                return True
            p = ip.get(x)
            if p is None or p == x or p == self.n:
                return False
            x = p

    def all_paths_through(self, start, targets, through):
        """Every path start ->* t (t in targets) passes through a block of `through`
        (decided by deleting `through` and testing reachability)."""
        through = set(through)
        if start in through:
            return True
        r = self._reach_from(start, through)
        return not any(t in r for t in targets)

    def in_loop(self, bb):
        return self.reaches(bb, bb)

    def dom_chain(self, bb):
        out = []
        x = bb
        idom = self.idom
        while x in idom and idom[x] != x and idom[x] != self.n:
            x = idom[x]
            out.append(x)
        return out


def cfg(body):
    if body._cfg is None:
        body._cfg = Cfg(body)
    return body._cfg
