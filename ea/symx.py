"""Symbolic expression extraction from small loop-free MIR bodies, and finite-domain evaluation of the result.

`extract(prog, body, args, inline)` walks the (non-cleanup) CFG of a loop-free body and returns the returned value
as one term: branches on symbolic values become `ite` nodes, calls of workspace functions listed in `inline` are
expanded, every other call stays an uninterpreted `("call", key, args)` node. Nothing is executed: the result is a
formula over the parameters which the rules then (a) compare structurally after canonicalisation (linear forms over
wrapping arithmetic) or (b) evaluate over a *finite abstraction* of its inputs (all weak orderings of the values
compared, or the regions delimited by the constants compared against).

Terms (tuples):
  ("const", n) ("bool", b) ("param", name) ("field", t, name) ("call", key, (args...)) ("bin", op, a, b)
  ("not", t) ("cast", t) ("variant", adt, vname, discr) ("pair", a, b) ("agg", d, (fields...))
  ("ite", c, a, b) ("switch", c, ((v, t)...), else) ("fn", name) ("opaque", s) ("unreachable",) ("never",)
"""
from . import facts as F
from . import cfg as C

M32 = 1 << 32


class Unsupported(Exception):
    pass


LOG = ("log",)     # pseudo-location holding the ordered effect-only calls of a path (effects mode)


INT_WIDTH = {"u8": 8, "u16": 16, "u32": 32, "u64": 64, "u128": 128, "usize": 64, "i8": 8, "i16": 16, "i32": 32, "i64": 64, "i128": 128, "isize": 64, "bool": 1}


def tystr_of(body, tix):
    try:
        return F.tystr(body.types, tix)
    except Exception:
        return "?"


def width_of(t, default):
    """Widest integer type mentioned by a cast inside t (the type the surrounding arithmetic is carried out in)."""
    w = [0]

    def go(x):
        if isinstance(x, tuple):
            if x and x[0] == "cast" and len(x) > 2:
                w[0] = max(w[0], INT_WIDTH.get(x[2], 0))
            for y in x[1:]:
                if isinstance(y, tuple):
                    go(y)
    go(t)
    return w[0] or default


def _fold_bin(op, a, b):
    if a[0] == "const" and b[0] == "const":
        x, y = a[1], b[1]
        try:
            if op in ("Add", "AddUnchecked"):
                return ("const", x + y)
            if op in ("Sub", "SubUnchecked"):
                return ("const", x - y)
            if op == "Mul":
                return ("const", x * y)
            if op == "Shl":
                return ("const", x << y)
            if op == "Shr":
                return ("const", x >> y)
            if op == "BitAnd":
                return ("const", x & y)
            if op == "BitOr":
                return ("const", x | y)
            if op in ("Eq", "Ne", "Lt", "Le", "Gt", "Ge"):
                return ("bool", {"Eq": x == y, "Ne": x != y, "Lt": x < y, "Le": x <= y, "Gt": x > y, "Ge": x >= y}[op])
        except (ValueError, OverflowError):
            pass
    return None


class Extractor:
    def __init__(self, prog, inline=(), max_depth=4, max_nodes=4000, effects=False):
        self.prog = prog
        self.effects = effects      # model `&mut` arguments of calls as uninterpreted functional updates
        self.inline = set(inline)
        self.max_depth = max_depth
        self.max_nodes = max_nodes
        self.nodes = 0
        self.inlined = set()
        self.discr_of = {"core::option::Option::None": 0, "core::option::Option::Some": 1, "core::result::Result::Ok": 0, "core::result::Result::Err": 1,
                         "core::ops::control_flow::ControlFlow::Continue": 0, "core::ops::control_flow::ControlFlow::Break": 1}

    # ------------------------------------------------------------------ operands / places
    def const(self, c):
        if isinstance(c, dict):
            if "int" in c:
                v = c["int"]
                return ("const", int(v) if isinstance(v, str) else v)
            if "bool" in c:
                return ("bool", bool(c["bool"]))
            if "fn" in c:
                return ("fn", c.get("res") or c["fn"])
            if "str" in c:
                return ("str", c["str"])
            if "named" in c:
                k = self.prog.consts.get(c["named"])
                v = k.get("val") if k else None
                if isinstance(v, dict) and ("int" in v or "bool" in v):
                    return self.const(v)
                return ("named", c["named"])
        return ("opaque", repr(c)[:60])

    def read(self, body, env, pl):
        l, proj = pl
        hops = 0
        while proj and proj[0] == "*" and ("ref", l) in env and hops < 8:
            tl, tproj = env[("ref", l)]
            l, proj = tl, list(tproj) + list(proj[1:])
            hops += 1
        if l not in env:
            raise Unsupported("read of unassigned local _%d in %s" % (l, body.key))
        t = env[l]
        for e in proj:
            if e == "*":
                continue
            if isinstance(e, list) and e[0] == "f":
                idx, name = e[1], e[3]
                if t[0] == "downcast" and t[1][0] == "agg" and idx < len(t[1][2]):
                    t = t[1][2][idx]
                elif t[0] == "pair":
                    t = t[1 + idx]
                elif t[0] == "agg" and idx < len(t[2]):
                    t = t[2][idx]
                elif t[0] == "with":
                    while t[0] == "with" and t[2] != name:
                        t = t[1]
                    t = t[3] if t[0] == "with" else ("field", t, name)
                else:
                    t = ("field", t, name)
            elif isinstance(e, list) and e[0] == "dc":
                t = ("downcast", t, e[1])
            elif isinstance(e, list) and e[0] in ("i", "ci"):
                ix = ("const", e[1]) if e[0] == "ci" else env.get(e[1], ("local", e[1]))
                if t[0] == "agg" and ix[0] == "const" and ix[1] < len(t[2]):
                    t = t[2][ix[1]]
                else:
                    t = ("index", t, ix)
            else:
                raise Unsupported("projection %r in %s" % (e, body.key))
        return t

    def write(self, body, env, pl, val, bb):
        """Assignment to `local.f.g...` (derefs of tracked `&mut` locals are followed, other derefs ignored):
        functional update of the local's term."""
        l, proj = pl
        hops = 0
        while proj and proj[0] == "*" and ("ref", l) in env and hops < 8:
            tl, tproj = env[("ref", l)]
            l, proj = tl, list(tproj) + list(proj[1:])
            hops += 1
        fl = [e for e in proj if e != "*"]
        if any(not (isinstance(e, list) and e[0] == "f") for e in fl) or l not in env:
            raise Unsupported("write to projected place in %s bb%d" % (body.key, bb))
        env[l] = self._update(env[l], [(e[1], e[3]) for e in fl], val)

    def _update(self, base, path, val):
        if not path:
            return val
        (idx, name), rest = path[0], path[1:]
        if rest:
            # current value of the field, then update inside it
            if base[0] == "agg" and idx < len(base[2]):
                cur = base[2][idx]
            elif base[0] == "pair" and idx in (0, 1):
                cur = base[1 + idx]
            else:
                cur = base
                while cur[0] == "with" and cur[2] != name:
                    cur = cur[1]
                cur = cur[3] if cur[0] == "with" else ("field", base if base[0] != "with" else _with_root(base), name)
            val = self._update(cur, rest, val)
        if base[0] == "agg" and idx < len(base[2]):
            return ("agg", base[1], base[2][:idx] + (val,) + base[2][idx + 1:])
        if base[0] == "pair" and idx in (0, 1):
            return ("pair", val, base[2]) if idx == 0 else ("pair", base[1], val)
        return ("with", base, name, val)

    def operand(self, body, env, op):
        if op[0] in ("cp", "mv"):
            return self.read(body, env, op[1])
        return self.const(op[2])

    def rvalue(self, body, env, rv):
        k = rv[0]
        if k == "use":
            return self.operand(body, env, rv[1])
        if k == "cast":
            t = self.operand(body, env, rv[2])
            if rv[1] == "IntToInt":
                ty = tystr_of(body, rv[3]) if len(rv) > 3 else "?"
                if t[0] == "const":
                    w = INT_WIDTH.get(ty)
                    return ("const", t[1] % (1 << w)) if w and not ty.startswith("i") and t[1] >= 0 else t
                return ("cast", t, ty)
            return ("castk", rv[1], t)
        if k == "bin":
            op = rv[1]
            a, b = self.operand(body, env, rv[2]), self.operand(body, env, rv[3])
            if op.endswith("WithOverflow"):
                base = op[:-len("WithOverflow")]
                f = _fold_bin(base, a, b)
                return ("pair", f or ("bin", base, a, b), ("bool", False))
            return _fold_bin(op, a, b) or ("bin", op, a, b)
        if k == "un":
            t = self.operand(body, env, rv[2])
            if rv[1] == "Not":
                return ("bool", not t[1]) if t[0] == "bool" else ("not", t)
            return ("un", rv[1], t)
        if k == "ref":
            return self.read(body, env, rv[2])
        if k == "discr":
            t = self.read(body, env, rv[1])
            if t[0] == "variant":
                return ("const", t[3])
            if t[0] == "agg" and t[1] in self.discr_of:
                return ("const", self.discr_of[t[1]])
            return ("discr", t)
        if k == "agg":
            info = rv[1]
            ops = tuple(self.operand(body, env, o) for o in rv[2])
            if info["k"] == "adt" and info.get("enum") and not ops:
                adt = self.prog.adts.get(info["d"])
                d = info["vi"]
                if adt is not None:
                    d = adt["variants"][info["vi"]].get("discr", info["vi"])
                return ("variant", info["d"], info["v"], d)
            if info["k"] == "tuple" and len(ops) == 2:
                return ("pair", ops[0], ops[1])
            name = info.get("d", info["k"]) + ("::" + info["v"] if info.get("v") else "")
            if info["k"] == "adt" and info.get("enum"):
                adt = self.prog.adts.get(info["d"])
                self.discr_of[name] = adt["variants"][info["vi"]].get("discr", info["vi"]) if adt is not None else info["vi"]
            return ("agg", name, ops)
        raise Unsupported("rvalue %s in %s" % (k, body.key))

    # ------------------------------------------------------------------ control flow
    def run(self, body, args, depth=0):
        if depth > self.max_depth:
            raise Unsupported("inlining depth exceeded at %s" % body.key)
        if len(args) != body.argc:
            raise Unsupported("arity mismatch for %s" % body.key)
        env = {i + 1: a for i, a in enumerate(args)}
        if depth == 0:
            self._params = tuple(args)
        return self._block(body, 0, env, (), depth)

    def _block(self, body, bb, env, path, depth):
        if depth == 0 and bb in getattr(self, "stop", ()) and path:
            # a designated cut point (e.g. a loop header reached again): report the state reached so far
            changed = tuple((p, env[i + 1]) for i, p in enumerate(self._params) if env.get(i + 1) != p)
            if env.get(LOG):
                changed += ((LOG, env[LOG]),)
            named = tuple(sorted((body.local_name(l), v) for l, v in env.items() if isinstance(l, int) and l > body.argc and body.local_name(l)
                                 and v != ("local", l)))
            return ("state", ("stop", bb, named), changed)
        self.nodes += 1
        if self.nodes > self.max_nodes:
            raise Unsupported("expression too large in %s" % body.key)
        if bb in path:
            if getattr(self, "loops_ok", False):
                # this branch runs into a loop: not followed (the calls logged so far stay with the leaf)
                if self.effects and env.get(LOG):
                    return ("state", ("loop", bb), ((LOG, env.get(LOG, ())),))
                return ("loop", bb)
            raise Unsupported("loop through bb%d in %s" % (bb, body.key))
        path = path + (bb,)
        blk = body.blocks[bb]
        env = dict(env)
        for st in blk["s"]:
            if st[0] != "a":
                continue
            pl, rv = st[1], st[2]
            if pl[1]:
                self.write(body, env, pl, self.rvalue(body, env, rv), bb)
                continue
            env.pop(("ref", pl[0]), None)
            if self.effects and rv[0] == "ref" and str(rv[1]).startswith("mut"):
                # remember what the reference points at (resolved through references it is itself derived from)
                tl, tproj = rv[2][0], list(rv[2][1])
                hops = 0
                while tproj and tproj[0] == "*" and ("ref", tl) in env and hops < 8:
                    tl, tproj = env[("ref", tl)][0], list(env[("ref", tl)][1]) + tproj[1:]
                    hops += 1
                env[("ref", pl[0])] = (tl, tuple(tproj))
            elif self.effects and rv[0] == "use" and rv[1][0] in ("cp", "mv") and not rv[1][1][1] and ("ref", rv[1][1][0]) in env:
                env[("ref", pl[0])] = env[("ref", rv[1][1][0])]
            env[pl[0]] = self.rvalue(body, env, rv)
        t = blk["t"]
        k = t[0]
        if k == "return":
            ret = env.get(0, ("unit",))
            if self.effects and depth == 0:
                changed = tuple((p, env[i + 1]) for i, p in enumerate(self._params) if env.get(i + 1) != p)
                if env.get(LOG):
                    changed += ((LOG, env[LOG]),)
                if changed:
                    return ("state", ret, changed)
            return ret
        if k == "goto":
            return self._block(body, t[1], env, path, depth)
        if k in ("false_edge", "false_unwind"):
            return self._block(body, t[1], env, path, depth)
        if k == "drop":
            return self._block(body, t[2], env, path, depth)
        if k == "assert":
            return self._block(body, t[4], env, path, depth)
        if k == "unreachable":
            return ("unreachable",)
        if k == "switch":
            c = self.operand(body, env, t[1])
            arms, other = t[2], t[3]
            if c[0] in ("const", "bool"):
                v = c[1] if c[0] == "const" else (1 if c[1] else 0)
                for val, tg in arms:
                    if val == v:
                        return self._block(body, tg, env, path, depth)
                return self._block(body, other, env, path, depth)
            if len(arms) == 1 and arms[0][0] == 0 and _is_boolish(c):
                return mk_ite(c, self._block(body, other, env, path, depth), self._block(body, arms[0][1], env, path, depth))
            outs = tuple((val, self._block(body, tg, env, path, depth)) for val, tg in arms)
            e = self._block(body, other, env, path, depth)
            return ("switch", c, outs, e)
        if k == "call":
            c = F.callee(t)
            if c is None:
                raise Unsupported("indirect call in %s" % body.key)
            key = F.callee_key(t)
            muts = []
            if self.effects:
                for i, a in enumerate(F.call_args(t)):
                    if a[0] in ("cp", "mv") and not a[1][1] and ("ref", a[1][0]) in env:
                        muts.append((i, env[("ref", a[1][0])]))
            decl0 = c.get("fn", "")
            last0 = (key or "").rsplit("::", 1)[-1]
            if muts and last0 in ("new_unchecked", "as_mut", "get_mut", "get_unchecked_mut", "deref_mut", "borrow_mut", "as_deref_mut") and len(F.call_args(t)) == 1:
                # reference-to-reference conversions (Pin::new_unchecked(&mut f), ...): the result points at the same place
                d = F.call_dest(t)
                if not d[1]:
                    tl, tproj = muts[0][1]
                    env[("ref", d[0])] = (tl, tuple(tproj))
                    env[d[0]] = self.read(body, env, [tl, list(tproj)])
                    if t[4] is None:
                        return ("never",)
                    return self._block(body, t[4], env, path, depth)
            if muts and decl0.endswith("future::future::Future::poll"):
                tl, tproj = muts[0][1]
                fut = self.read(body, env, [tl, list(tproj)])
                while fut[0] == "call" and fut[1].rsplit("::", 1)[-1] in ("into_future",) and fut[2]:
                    fut = fut[2][0]
                d = F.call_dest(t)
                self.discr_of["core::task::poll::Poll::Ready"] = 0
                self.discr_of["core::task::poll::Poll::Pending"] = 1
                env[LOG] = env.get(LOG, ()) + (("await", fut),)
                env[d[0]] = ("agg", "core::task::poll::Poll::Ready", (("await", fut),))
                if t[4] is None:
                    return ("never",)
                return self._block(body, t[4], env, path, depth)
            if muts:
                # current pointee values stand for the `&mut` arguments
                args = tuple(self.read(body, env, [m[1][0], list(m[1][1])]) if any(m[0] == i for m in muts) and False else self.operand(body, env, a)
                             for i, a in enumerate(F.call_args(t)))
                args = list(args)
                for i, (tl, tproj) in muts:
                    args[i] = self.read(body, env, [tl, list(tproj)])
                args = tuple(args)
                d = F.call_dest(t)
                if d[1]:
                    raise Unsupported("call result into projected place in %s" % body.key)
                rty = body.local_tystr(d[0])
                if rty.startswith("&mut") or rty.startswith("core::option::Option<&mut") or rty.startswith("core::pin::Pin<&mut"):
                    raise Unsupported("call returning a mutable reference (%s) in %s" % (key, body.key))
                for i, (tl, tproj) in muts:
                    self.write(body, env, [tl, list(tproj)], ("upd", key, i, args), bb)
                env.pop(("ref", d[0]), None)
                env[d[0]] = ("call", key, args)
                if t[4] is None:
                    return ("never",)
                return self._block(body, t[4], env, path, depth)
            args = tuple(self.operand(body, env, a) for a in F.call_args(t))
            decl = c.get("fn", "")
            if key in self.inline and key in self.prog.bodies:
                self.inlined.add(key)
                res = self.run(self.prog.bodies[key], args, depth + 1)
                if self.effects and body.local_tystr(F.call_dest(t)[0]) in ("()", "!"):
                    # an inlined helper called for its effect only: its formula (conditions, calls) stays on the path
                    env[LOG] = env.get(LOG, ()) + (("inlined", key, res),)
            elif decl.endswith("future::future::Future::poll") and len(args) == 2:
                # an `.await`: the future completes with a value named after the future (the Pending arm, which only
                # yields and polls again, is not a behaviour of its own)
                fut = args[0]
                while fut[0] == "call" and fut[1].rsplit("::", 1)[-1] in ("new_unchecked", "into_future", "get_unchecked_mut", "as_mut") and fut[2]:
                    fut = fut[2][0]
                res = ("agg", "core::task::poll::Poll::Ready", (("await", fut),))
                self.discr_of["core::task::poll::Poll::Ready"] = 0
                self.discr_of["core::task::poll::Poll::Pending"] = 1
                if self.effects:
                    env[LOG] = env.get(LOG, ()) + (("await", fut),)
            elif decl.endswith("ops::try_trait::Try::branch") and len(args) == 1 and args[0][0] == "agg" and args[0][1].rsplit("::", 1)[-1] in ("Ok", "Some", "Err", "None"):
                v = args[0][1].rsplit("::", 1)[-1]
                CF = "core::ops::control_flow::ControlFlow::"
                if v in ("Ok", "Some"):
                    res = ("agg", CF + "Continue", (args[0][2][0],) if args[0][2] else (("unit",),))
                else:
                    res = ("agg", CF + "Break", (args[0],))
            else:
                res = ("call", key, args)
            d = F.call_dest(t)
            if d[1]:
                raise Unsupported("call result into projected place in %s" % body.key)
            if self.effects and res[0] == "call":
                rty = body.local_tystr(d[0])
                if rty in ("()", "!") or "JoinHandle" in rty or key in getattr(self, "log_calls", ()):
                    # a call made for its effect only: keep it, in order, in the path's effect log
                    env[LOG] = env.get(LOG, ()) + (res,)
            env[d[0]] = res
            if t[4] is None:
                return ("never",)
            return self._block(body, t[4], env, path, depth)
        raise Unsupported("terminator %s in %s" % (k, body.key))


def _with_root(t):
    while t[0] == "with":
        t = t[1]
    return t


def with_fields(t):
    """('with' chain) -> (root, {field: value}) with later writes overriding earlier ones."""
    out = {}
    chain = []
    while t[0] == "with":
        chain.append((t[2], t[3]))
        t = t[1]
    for n, v in reversed(chain):
        out[n] = v
    return t, out


def _is_boolish(t):
    return t[0] in ("bin", "not", "call", "ite", "param", "field", "bool", "cast")


def mk_ite(c, a, b):
    if c[0] == "bool":
        return a if c[1] else b
    if a == b:
        return a
    if a == ("bool", True) and b == ("bool", False):
        return c
    if a == ("bool", False) and b == ("bool", True):
        return ("not", c)
    return ("ite", c, a, b)


def params_of(body):
    return tuple(("param", body.local_name(i) or "_%d" % i) for i in range(1, body.argc + 1))


def extract_from(prog, body, bb, effects=True, inline=(), stop=()):
    """Formula of the code from block `bb` to the return (or to a block of `stop`), with every local standing for
    itself (("local", l)): used for the loop-free tail of a function that contains a loop, or for one loop body."""
    ex = Extractor(prog, inline, effects=effects)
    ex.stop = set(stop)
    env = {l: ("local", l) for l in range(1, len(body.locals))}
    ex._params = tuple(env[i + 1] for i in range(body.argc))
    return ex._block(body, bb, env, (), 0), ex


def extract(prog, body, args=None, inline=(), effects=False):
    ex = Extractor(prog, inline, effects=effects)
    t = ex.run(body, tuple(args) if args is not None else params_of(body))
    return t, ex


# ---------------------------------------------------------------------- substitution / partial evaluation
def subst(t, f):
    """Bottom-up rewrite: f(node) -> replacement or None."""
    if not isinstance(t, tuple):
        return t
    r = f(t)
    if r is not None:
        return r
    k = t[0]
    if k == "ite":
        return mk_ite(subst(t[1], f), subst(t[2], f), subst(t[3], f))
    if k == "bin":
        a, b = subst(t[2], f), subst(t[3], f)
        return _fold_bin(t[1], a, b) or ("bin", t[1], a, b)
    if k == "not":
        x = subst(t[1], f)
        return ("bool", not x[1]) if x[0] == "bool" else ("not", x)
    if k == "call":
        return ("call", t[1], tuple(subst(a, f) for a in t[2]))
    if k in ("cast", "discr"):
        x = subst(t[1], f)
        if k == "discr" and x[0] == "variant":
            return ("const", x[3])
        return (k, x) + tuple(t[2:])
    if k == "field":
        return ("field", subst(t[1], f), t[2])
    if k == "pair":
        return ("pair", subst(t[1], f), subst(t[2], f))
    if k == "switch":
        c = subst(t[1], f)
        outs = tuple((v, subst(x, f)) for v, x in t[2])
        e = subst(t[3], f)
        if c[0] == "const":
            for v, x in outs:
                if v == c[1]:
                    return x
            return e
        return ("switch", c, outs, e)
    if k == "agg":
        return ("agg", t[1], tuple(subst(a, f) for a in t[2]))
    if k == "upd":
        return ("upd", t[1], t[2], tuple(subst(a, f) for a in t[3]))
    if k == "with":
        return ("with", subst(t[1], f), t[2], subst(t[3], f))
    if k == "state":
        return ("state", subst(t[1], f), tuple((p_, tuple(subst(c, f) for c in v) if p_ == LOG else subst(v, f)) for p_, v in t[2]))
    if k in ("downcast", "index"):
        return (k, subst(t[1], f)) + tuple(subst(x, f) if isinstance(x, tuple) and x and isinstance(x[0], str) else x for x in t[2:])
    if k in ("castk", "un", "await", "divc", "ok", "err", "inlined"):
        return (k,) + tuple(subst(x, f) if isinstance(x, tuple) and x and isinstance(x[0], str) else x for x in t[1:])
    return t


def atoms(t, pred, out=None):
    """All sub-terms satisfying pred (not descending into them)."""
    if out is None:
        out = []
    if not isinstance(t, tuple) or not t:
        return out
    if not isinstance(t[0], str):
        # a plain sequence of terms (an effect log, an argument list)
        for x in t:
            atoms(x, pred, out)
        return out
    if pred(t):
        if t not in out:
            out.append(t)
        return out
    for x in t[1:]:
        if isinstance(x, tuple):
            if x and isinstance(x[0], str):
                atoms(x, pred, out)
            else:
                for y in x:
                    if isinstance(y, tuple):
                        if len(y) == 2 and not isinstance(y[0], str):
                            atoms(y[1], pred, out)
                        else:
                            atoms(y, pred, out)
    return out


# ---------------------------------------------------------------------- linear forms over wrapping arithmetic
def lin(t):
    """Canonical linear form ((atom, coef)... sorted, const mod 2^32) of a term built from wrapping_add/sub,
    +, -, widening casts and constants; anything else is an atom."""
    co = {}
    k0 = [0]

    def go(x, s):
        k = x[0]
        if k == "const":
            k0[0] += s * x[1]
            return
        if k == "cast":
            return go(x[1], s)
        if k == "call" and len(x[2]) == 2 and x[1].rsplit("::", 1)[-1] in ("wrapping_add", "wrapping_sub"):
            go(x[2][0], s)
            go(x[2][1], s if x[1].endswith("wrapping_add") else -s)
            return
        if k == "bin" and x[1] in ("Add", "Sub", "AddUnchecked", "SubUnchecked"):
            go(x[2], s)
            go(x[3], s if x[1].startswith("Add") else -s)
            return
        if k == "bin" and x[1] in ("Mul", "MulUnchecked") and (x[2][0] == "const" or x[3][0] == "const"):
            c, y = (x[2][1], x[3]) if x[2][0] == "const" else (x[3][1], x[2])
            go(y, s * c)
            return
        if k == "bin" and x[1] == "Shl" and x[3][0] == "const" and 0 <= x[3][1] < 32:
            go(x[2], s * (1 << x[3][1]))
            return
        if k == "bin" and x[1] == "Div" and x[3][0] == "const":
            x = ("divc", lin(x[2]), x[3][1])      # canonical atom: numerator as a linear form
        co[x] = co.get(x, 0) + s

    go(t, 1)
    items = tuple(sorted(((a, c) for a, c in co.items() if c), key=repr))
    return (items, k0[0] % M32)


def lin_shift(l, d):
    return (l[0], (l[1] + d) % M32)


def lin_str(l, names=None):
    parts = []
    for a, c in l[0]:
        n = term_str(a)
        parts.append(("" if c == 1 else "-" if c == -1 else "%d*" % c) + n)
    s = " + ".join(parts).replace("+ -", "- ")
    k = l[1]
    if k > M32 // 2:
        k -= M32
    if k or not parts:
        s += (" %s %d" % ("+" if k >= 0 else "-", abs(k))) if parts else str(k)
    return s


def term_str(t, depth=0):
    if not isinstance(t, tuple):
        return str(t)
    k = t[0]
    if k == "const":
        return str(t[1])
    if k == "bool":
        return "true" if t[1] else "false"
    if k == "param":
        return t[1]
    if k == "local":
        return "_%d" % t[1]
    if k == "field":
        return term_str(t[1]) + "." + t[2]
    if k == "cast":
        return term_str(t[1])
    if k == "variant":
        return t[2]
    if k == "call":
        return "%s(%s)" % (t[1].rsplit("::", 1)[-1], ", ".join(term_str(a) for a in t[2]))
    if k == "bin":
        return "(%s %s %s)" % (term_str(t[2]), t[1], term_str(t[3]))
    if k == "not":
        return "!" + term_str(t[1])
    if k == "ite":
        return "if %s {%s} else {%s}" % (term_str(t[1]), term_str(t[2]), term_str(t[3]))
    if k == "switch":
        return "match %s {%s, _ => %s}" % (term_str(t[1]), ", ".join("%s => %s" % (v, term_str(x)) for v, x in t[2]), term_str(t[3]))
    if k == "index":
        return "%s[%s]" % (term_str(t[1]), term_str(t[2]))
    if k == "await":
        return "await(%s)" % term_str(t[1])
    if k == "inlined":
        return "%s{%s}" % (t[1].rsplit("::", 1)[-1], term_str(t[2]))
    if k == "stop":
        return "stop(bb%s)" % t[1]
    if k == "divc":
        return "(%s)/%d" % (lin_str(t[1]), t[2])
    if k == "upd":
        return "%s!(%s)" % (t[1].rsplit("::", 1)[-1], ", ".join(term_str(a) for a in t[3]))
    if k == "with":
        r, fs = with_fields(t)
        return "%s{%s}" % (term_str(r), ", ".join("%s: %s" % (n, term_str(v)) for n, v in fs.items()))
    if k == "state":
        return "%s; %s" % (term_str(t[1]), "; ".join(("effects [%s]" % ", ".join(term_str(c) for c in v)) if p == LOG else "%s := %s" % (term_str(p), term_str(v)) for p, v in t[2]))
    if k == "agg":
        return "%s{%s}" % (t[1].rsplit("::", 2)[-1] if "::" in t[1] else t[1], ", ".join(term_str(x) for x in t[2]))
    if k == "pair":
        return "(%s, %s)" % (term_str(t[1]), term_str(t[2]))
    if not isinstance(k, str):
        return "(" + ", ".join(term_str(x) for x in t) + ")"
    return k + "(" + ", ".join(term_str(x) for x in t[1:] if isinstance(x, tuple)) + ")"


# ---------------------------------------------------------------------- evaluation over a finite abstraction
def evaluate(t, val):
    """Evaluate a boolean/integer formula; `val(atom)` supplies the value of every leaf that is not a constant or an
    operator (returns int/bool) or raises KeyError."""
    k = t[0]
    if k == "const":
        return t[1]
    if k == "bool":
        return t[1]
    if k == "ite":
        return evaluate(t[2], val) if evaluate(t[1], val) else evaluate(t[3], val)
    if k == "not":
        return not evaluate(t[1], val)
    if k == "bin" and t[1] in ("Eq", "Ne", "Lt", "Le", "Gt", "Ge"):
        a, b = evaluate(t[2], val), evaluate(t[3], val)
        return {"Eq": a == b, "Ne": a != b, "Lt": a < b, "Le": a <= b, "Gt": a > b, "Ge": a >= b}[t[1]]
    if k == "bin" and t[1] in ("BitAnd", "BitOr", "BitXor"):
        a, b = evaluate(t[2], val), evaluate(t[3], val)
        return {"BitAnd": a & b, "BitOr": a | b, "BitXor": a ^ b}[t[1]]
    if k == "switch":
        c = evaluate(t[1], val)
        for v, x in t[2]:
            if v == c:
                return evaluate(x, val)
        return evaluate(t[3], val)
    return val(t)


def weak_orderings(n):
    """All assignments of ranks to n items (weak orders), as tuples of ranks 0..m-1 with every rank used."""
    out = []

    def go(i, cur):
        if i == n:
            used = set(cur)
            if used == set(range(len(used))):
                out.append(tuple(cur))
            return
        for r in range(n):
            go(i + 1, cur + [r])

    go(0, [])
    return out


# ---------------------------------------------------------------------- concrete evaluation of integer formulas
NUM_IMPL_WIDTH = {"{impl#6}": 8, "{impl#7}": 16, "{impl#8}": 32, "{impl#9}": 64, "{impl#10}": 128, "{impl#11}": 64,
                  "{impl#0}": 8, "{impl#1}": 16, "{impl#2}": 32, "{impl#3}": 64, "{impl#4}": 128, "{impl#5}": 64}


class Panics(Exception):
    """The formula would panic (overflow check, division by zero) for the given values."""


def _call_width(key, default):
    parts = key.split("::")
    if len(parts) >= 3 and parts[0] == "core" and parts[1] == "num" and parts[2] in NUM_IMPL_WIDTH:
        return NUM_IMPL_WIDTH[parts[2]]
    return default


def concrete(t, env, width=32):
    """Value of an integer/boolean formula under `env` (term -> int/bool). Unbound leaves raise KeyError. `width` is
    the width arithmetic is carried out in unless a cast or a core::num method says otherwise. Overflow of checked
    operators raises Panics. Option values are ('some', v) / ('none',)."""
    if t in env:
        return env[t]
    k = t[0]
    if k == "const":
        return t[1]
    if k == "bool":
        return t[1]
    if k == "cast":
        v = concrete(t[1], env, width)
        w = INT_WIDTH.get(t[2]) if len(t) > 2 else None
        return int(v) % (1 << w) if w else int(v)
    if k == "not":
        v = concrete(t[1], env, width)
        return (not v) if isinstance(v, bool) else (~v) % (1 << _tw(t[1], width))
    if k == "ite":
        return concrete(t[2], env, width) if concrete(t[1], env, width) else concrete(t[3], env, width)
    if k == "switch":
        c = concrete(t[1], env, width)
        c = int(c) if isinstance(c, bool) else c
        for v, x in t[2]:
            if v == c:
                return concrete(x, env, width)
        return concrete(t[3], env, width)
    if k == "pair":
        return (concrete(t[1], env, width), concrete(t[2], env, width))
    if k == "field" and t[2] in ("0", "1"):
        v = concrete(t[1], env, width)
        if isinstance(v, tuple) and v and v[0] == "some":
            return v[1]
        return v[int(t[2])] if isinstance(v, tuple) else v
    if k == "agg" and t[1].endswith("Option::Some") and len(t[2]) == 1:
        return ("some", concrete(t[2][0], env, width))
    if k == "agg" and t[1].endswith("Option::None"):
        return ("none",)
    if k == "discr":
        v = concrete(t[1], env, width)
        if isinstance(v, tuple) and v and v[0] in ("some", "none"):
            return 1 if v[0] == "some" else 0
        return v
    if k == "bin":
        op = t[1]
        a, b = concrete(t[2], env, width), concrete(t[3], env, width)
        if op in ("Eq", "Ne", "Lt", "Le", "Gt", "Ge"):
            return {"Eq": a == b, "Ne": a != b, "Lt": a < b, "Le": a <= b, "Gt": a > b, "Ge": a >= b}[op]
        a, b = int(a), int(b)
        w = max(_tw(t[2], width), _tw(t[3], width)) if op not in ("Shl", "Shr") else _tw(t[2], width)
        if op in ("BitAnd", "BitOr", "BitXor"):
            return {"BitAnd": a & b, "BitOr": a | b, "BitXor": a ^ b}[op]
        if op in ("Shl", "Shr"):
            if not 0 <= b < w:
                raise Panics("shift by %d in u%d" % (b, w))
            return ((a << b) if op == "Shl" else (a >> b)) % (1 << w)
        if op in ("Div", "Rem"):
            if b == 0:
                raise Panics("division by zero")
            return a // b if op == "Div" else a % b
        r = {"Add": a + b, "Sub": a - b, "Mul": a * b}[op]
        if not 0 <= r < (1 << w):
            raise Panics("%s overflows u%d (%d %s %d)" % (op, w, a, op, b))
        return r
    if k == "call":
        nm = t[1].rsplit("::", 1)[-1]
        w = _call_width(t[1], width)
        M = 1 << w
        if nm in ("is_none", "is_some") and len(t[2]) == 1:
            v = concrete(t[2][0], env, width)
            if isinstance(v, tuple) and v and v[0] in ("some", "none"):
                return (v[0] == "none") == (nm == "is_none")
            raise KeyError(t)
        a = [concrete(x, env, width) for x in t[2]]
        if len(a) == 2 and nm in ("lt", "le", "gt", "ge", "eq", "ne") and all(isinstance(x, tuple) and x and all(isinstance(y, (int, bool)) for y in x) for x in a):
            # comparison of tuples: lexicographic, in the plain numeric order of the components
            x, y = tuple(int(v) for v in a[0]), tuple(int(v) for v in a[1])
            return {"lt": x < y, "le": x <= y, "gt": x > y, "ge": x >= y, "eq": x == y, "ne": x != y}[nm]
        if len(a) == 2 and nm in ("lt", "le", "gt", "ge") and all(isinstance(x, (int, bool)) for x in a) and ("cmp::" in t[1] or "core::cmp" in t[1]):
            x, y = int(a[0]), int(a[1])
            return {"lt": x < y, "le": x <= y, "gt": x > y, "ge": x >= y}[nm]
        if len(a) == 2 and all(isinstance(x, (int, bool)) for x in a):
            x, y = int(a[0]), int(a[1])
            if nm in ("wrapping_add", "wrapping_sub", "wrapping_mul"):
                return {"wrapping_add": x + y, "wrapping_sub": x - y, "wrapping_mul": x * y}[nm] % M
            if nm in ("checked_add", "checked_sub", "checked_mul"):
                r = {"checked_add": x + y, "checked_sub": x - y, "checked_mul": x * y}[nm]
                return ("some", r) if 0 <= r < M else ("none",)
            if nm in ("saturating_add", "saturating_sub", "saturating_mul"):
                r = {"saturating_add": x + y, "saturating_sub": x - y, "saturating_mul": x * y}[nm]
                return min(max(r, 0), M - 1)
            if nm in ("overflowing_add", "overflowing_sub"):
                r = x + y if nm == "overflowing_add" else x - y
                return (r % M, not 0 <= r < M)
            if nm in ("min", "max"):
                return min(x, y) if nm == "min" else max(x, y)
            if nm in ("add", "sub", "mul") and "core::ops::arith" in t[1]:
                # the operator traits on integers (&a + b, ..): checked like the built-in operators
                w2 = width if _call_width(t[1], 0) == 0 else w
                r = {"add": x + y, "sub": x - y, "mul": x * y}[nm]
                if not 0 <= r < (1 << max(w2, 64 if width >= 64 else w2)):
                    raise Panics("%s overflows (%d, %d)" % (nm, x, y))
                return r
            if nm in ("div_ceil", "div_euclid", "rem_euclid", "checked_div", "next_multiple_of"):
                if y == 0:
                    if nm == "checked_div":
                        return ("none",)
                    raise Panics("%s by zero" % nm)
                if nm == "next_multiple_of":
                    r = -(-x // y) * y
                    if r >= M:
                        raise Panics("next_multiple_of overflows u%d" % w)
                    return r
                r = {"div_ceil": -(-x // y), "div_euclid": x // y, "rem_euclid": x % y, "checked_div": x // y}[nm]
                return ("some", r) if nm == "checked_div" else r
            if nm == "abs_diff":
                return abs(x - y)
        if len(a) == 1 and isinstance(a[0], (int, bool)) and nm in ("from", "into", "to_owned", "clone"):
            return a[0]
        if len(a) == 1 and nm in ("unwrap", "expect") and isinstance(a[0], tuple) and a[0] and a[0][0] == "some":
            return a[0][1]
    raise KeyError(t)


def _tw(t, default):
    if t[0] == "cast" and len(t) > 2:
        return INT_WIDTH.get(t[2], default)
    if t[0] == "bin":
        return _tw(t[2], default) if t[1] in ("Shl", "Shr") else max(_tw(t[2], default), _tw(t[3], default))
    if t[0] == "not":
        return _tw(t[1], default)
    if t[0] == "call":
        return _call_width(t[1], default)
    return default


def ok_paths(t, is_ok):
    """[(conditions, leaf)] for every leaf accepted by is_ok; conditions: [(term, ('is', bool) | ('eq', v) | ('ne', [vs]))]."""
    out = []

    def go(x, conds):
        if x[0] == "state":
            return go(x[1], conds)
        if x[0] == "ite":
            go(x[2], conds + [(x[1], ("is", True))])
            go(x[3], conds + [(x[1], ("is", False))])
        elif x[0] == "switch":
            for v, y in x[2]:
                go(y, conds + [(x[1], ("eq", v))])
            go(x[3], conds + [(x[1], ("ne", [v for v, _ in x[2]]))])
        elif is_ok(x):
            out.append((conds, x))
    go(t, [])
    return out


def paths(t):
    """Every path of an effects-mode formula: [(conds, log, leaf)] with conds = [(term, ('is', bool) | ('eq', v) | ('ne', [vs]))]
    and log = the calls logged along the way, in order (logs of nested states are appended as they are met)."""
    out = []

    def go(x, conds, log):
        if x[0] == "state":
            return go(x[1], conds, log + list(dict(x[2]).get(LOG, ())))
        if x[0] == "ite":
            go(x[2], conds + [(x[1], ("is", True))], log)
            go(x[3], conds + [(x[1], ("is", False))], log)
        elif x[0] == "switch":
            for v, y in x[2]:
                go(y, conds + [(x[1], ("eq", v))], log)
            go(x[3], conds + [(x[1], ("ne", [v for v, _ in x[2]]))], log)
        else:
            out.append((conds, log, x))
    go(t, [], [])
    return out
