"""Generate (or load from the content-addressed cache) the fact base of /repo's *current* tree.

The facts come from the rustc_private driver in /verif/driver injected with
RUSTC_WORKSPACE_WRAPPER under `cargo +nightly check --offline`; nothing of /repo is executed.
"""
import fcntl, hashlib, json, os, shutil, subprocess, sys, time, uuid

VERIF = os.path.dirname(os.path.dirname(os.path.abspath(__file__)))
REPO = os.environ.get("ELVIS_REPO", "/repo")
CACHE = os.path.join(VERIF, ".cache")
DRIVER = os.path.join(VERIF, "driver", "target", "release", "elvis-factgen")

CONFIGS = {
    # name -> (cargo package/feature args, expected fact files)
    "default": (["-p", "elvis-core", "-p", "elvis", "--lib", "--bins"],
                ["elvis_core-rlib.json", "elvis-rlib.json", "elvis-executable.json"]),
    "checksum": (["-p", "elvis-core", "--lib", "--features", "compute_checksum"],
                 ["elvis_core-rlib.json"]),
}


class FactgenError(Exception):
    pass


def _sysroot():
    return subprocess.check_output(["rustc", "+nightly", "--print", "sysroot"], text=True).strip()


def source_files(sim):
    out = []
    for root, dirs, files in os.walk(sim):
        dirs[:] = sorted(d for d in dirs if d not in ("target", ".git"))
        for f in sorted(files):
            if f.endswith(".rs") or f in ("Cargo.toml", "Cargo.lock") or f.endswith(".ndl") or f.endswith(".txt"):
                out.append(os.path.join(root, f))
    return out


def tree_hash(sim, config):
    h = hashlib.sha256()
    h.update(config.encode())
    for p in source_files(sim):
        if not (p.endswith(".rs") or p.endswith("Cargo.toml") or p.endswith("Cargo.lock")):
            continue
        h.update(os.path.relpath(p, sim).encode())
        h.update(b"\0")
        with open(p, "rb") as f:
            h.update(hashlib.sha256(f.read()).digest())
    with open(DRIVER, "rb") as f:
        h.update(hashlib.sha256(f.read()).digest())
    return h.hexdigest()[:24]


def build_driver():
    if os.path.exists(DRIVER):
        src_m = max(os.path.getmtime(os.path.join(VERIF, "driver", "src", f))
                    for f in os.listdir(os.path.join(VERIF, "driver", "src")))
        if os.path.getmtime(DRIVER) >= src_m:
            return
    env = dict(os.environ, CARGO_NET_OFFLINE="true")
    r = subprocess.run(["cargo", "+nightly", "build", "--release", "--offline"],
                       cwd=os.path.join(VERIF, "driver"), env=env,
                       stdout=subprocess.PIPE, stderr=subprocess.STDOUT, text=True)
    if r.returncode != 0:
        raise FactgenError("driver build failed:\n" + r.stdout[-4000:])


def generate(config="default", repo=None, quiet=True):
    """Return (facts_dir, hash, info). Facts are regenerated unless cached for this exact tree."""
    repo = repo or REPO
    sim = os.path.join(repo, "sim")
    os.makedirs(CACHE, exist_ok=True)
    with open(os.path.join(CACHE, "lock"), "w") as lk:
        fcntl.flock(lk, fcntl.LOCK_EX)
        build_driver()
        th = tree_hash(sim, config)
        out = os.path.join(CACHE, "facts", th)
        args, expect = CONFIGS[config]
        meta_p = os.path.join(out, "meta.json")
        if os.path.exists(meta_p) and all(os.path.exists(os.path.join(out, e)) for e in expect):
            with open(meta_p) as f:
                meta = json.load(f)
            meta["cached"] = True
            return out, th, meta
        if os.path.exists(out):
            shutil.rmtree(out)
        os.makedirs(out)
        target = os.path.join(CACHE, "target")
        os.makedirs(target, exist_ok=True)
        # cargo must not replay a cached invocation without the wrapper
        fp = os.path.join(target, "debug", ".fingerprint")
        if os.path.isdir(fp):
            for d in os.listdir(fp):
                if d.startswith("elvis-"):
                    shutil.rmtree(os.path.join(fp, d), ignore_errors=True)
        nonce = uuid.uuid4().hex
        env = dict(os.environ)
        env.update({
            "LD_LIBRARY_PATH": _sysroot() + "/lib",
            "RUSTFLAGS": "-Zmir-opt-level=0 -Awarnings",
            "RUSTC_WORKSPACE_WRAPPER": DRIVER,
            "ELVIS_FACTS_DIR": out,
            "ELVIS_FACTS_NONCE": nonce,
            "ELVIS_FACTS_CONFIG": config,
            "CARGO_TARGET_DIR": target,
            "CARGO_NET_OFFLINE": "true",
            "CARGO_INCREMENTAL": "0",
        })
        t0 = time.time()
        r = subprocess.run(["cargo", "+nightly", "check", "--offline"] + args, cwd=sim, env=env,
                           stdout=subprocess.PIPE, stderr=subprocess.STDOUT, text=True)
        dt = time.time() - t0
        if r.returncode != 0:
            shutil.rmtree(out, ignore_errors=True)
            raise FactgenError("cargo check of %s failed (the tree does not compile?):\n%s" % (sim, r.stdout[-6000:]))
        for e in expect:
            p = os.path.join(out, e)
            if not os.path.exists(p):
                shutil.rmtree(out, ignore_errors=True)
                raise FactgenError("fact file %s was not produced (wrapper skipped?)\n%s" % (e, r.stdout[-3000:]))
        meta = {"hash": th, "config": config, "nonce": nonce, "gen_s": round(dt, 2), "files": expect,
                "cached": False}
        with open(meta_p, "w") as f:
            json.dump(meta, f)
        # keep the cache bounded
        _prune(os.path.join(CACHE, "facts"), keep=12)
        return out, th, meta


def _prune(d, keep):
    ents = [os.path.join(d, e) for e in os.listdir(d)]
    ents = [e for e in ents if os.path.isdir(e)]
    ents.sort(key=os.path.getmtime, reverse=True)
    for e in ents[keep:]:
        shutil.rmtree(e, ignore_errors=True)


if __name__ == "__main__":
    cfg = sys.argv[1] if len(sys.argv) > 1 else "default"
    print(generate(cfg))
