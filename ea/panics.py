"""R4 — panic-site enumeration, input-dependence classification and discharge (DESIGN.md §3/R4).

A *site* is a place where the program can panic:
  assert      MIR Assert terminator (overflow, division by zero, bounds check)
  panic       call into the panic machinery (panic!, unreachable!, unimplemented!, assert! failure)
  unwrap      Option/Result::{unwrap, expect, unwrap_err, expect_err}
  index       Index/IndexMut::index on std containers / str (slices out of range, missing key)
  api         curated std/tokio functions that panic on argument values
  contract    call of a workspace function whose body asserts a precondition on its arguments

Key of a site (stable under unrelated edits, no line numbers):
  P-PANIC:<function key>:<kind>:<descriptor>[#n]
"""
from . import facts as F
from .cfg import cfg
from . import dep

PANIC_FNS = ("core::panicking::panic", "core::panicking::panic_fmt", "core::panicking::assert_failed", "core::panicking::panic_display",
             "core::panicking::unreachable_display", "core::panicking::panic_explicit", "std::rt::begin_panic", "core::panicking::panic_nounwind",
             "core::panicking::panic_str", "std::rt::panic_fmt", "core::panicking::panic_bounds_check", "core::option::expect_failed",
             "core::result::unwrap_failed", "core::panicking::assert_failed_inner", "core::panicking::panic_const")
UNWRAP_FNS = ("core::option::{impl#0}::unwrap", "core::option::{impl#0}::expect", "core::result::{impl#0}::unwrap", "core::result::{impl#0}::expect",
              "core::result::{impl#0}::unwrap_err", "core::result::{impl#0}::expect_err")
API_PANICS = {
    # callee key suffix -> description
    "alloc::vec::{impl#1}::remove": "Vec::remove(index out of bounds)", "alloc::vec::{impl#1}::insert": "Vec::insert(index > len)",
    "alloc::vec::{impl#1}::swap_remove": "Vec::swap_remove", "alloc::vec::{impl#1}::drain": "Vec::drain(range)",
    "alloc::vec::{impl#1}::split_off": "Vec::split_off", "alloc::vec::{impl#1}::truncate_front": "Vec",
    "alloc::collections::vec_deque::{impl#5}::drain": "VecDeque::drain(range)", "alloc::collections::vec_deque::{impl#5}::range": "VecDeque::range",
    "core::slice::{impl#0}::copy_from_slice": "copy_from_slice(length mismatch)", "core::slice::{impl#0}::split_at": "split_at(mid > len)",
    "core::slice::{impl#0}::chunks": "chunks(0)", "core::slice::{impl#0}::windows": "windows(0)", "core::str::{impl#0}::split_at": "str::split_at",
    "alloc::string::{impl#0}::remove": "String::remove", "alloc::string::{impl#0}::insert": "String::insert", "alloc::string::{impl#0}::drain": "String::drain",
    "core::time::{impl#0}::mul_f32": "Duration::mul_f32(negative/overflow)", "core::time::{impl#0}::from_secs_f32": "Duration::from_secs_f32",
    "core::time::{impl#0}::mul_f64": "Duration::mul_f64", "core::iter::traits::iterator::Iterator::step_by": "step_by(0)",
    "core::cell::{impl#16}::borrow": "RefCell::borrow", "core::cell::{impl#16}::borrow_mut": "RefCell::borrow_mut",
    "tokio::sync::mpsc::bounded::channel": "mpsc::channel(0)", "core::char::methods::{impl#0}::from_digit": "char::from_digit(radix)",
    "core::num::{impl#9}::pow": "pow overflow", "alloc::vec::{impl#1}::with_capacity": None,
}
OP_TRAIT_PANICS = ("core::ops::arith::Sub::sub", "core::ops::arith::SubAssign::sub_assign", "core::ops::arith::Add::add", "core::ops::arith::AddAssign::add_assign",
                   "core::ops::arith::Mul::mul", "core::ops::arith::MulAssign::mul_assign", "core::ops::arith::Div::div", "core::ops::arith::Rem::rem")


class Site:
    __slots__ = ("body", "bb", "kind", "desc", "loc", "term", "operands", "key", "mac")

    def __init__(self, body, bb, kind, desc, loc, term, operands, mac=None):
        self.body, self.bb, self.kind, self.desc, self.loc, self.term, self.operands, self.mac = body, bb, kind, desc, loc, term, operands, mac
        self.key = None

    def __repr__(self):
        return "<Site %s %s %s>" % (self.key, self.loc, self.desc)


def _ty_of_arg0(body, t):
    c = F.callee(t)
    if c and c.get("a") and isinstance(c["a"][0], int):
        return body.tystr(c["a"][0])
    return ""


def direct_producer(body, site):
    """Callee key of the call that directly produced the unwrapped value (through transparent adapters)."""
    op = site.operands[0]
    for _ in range(8):
        pl = F.op_place(op)
        if pl is None:
            return None
        c = dep.single_def_call(body, pl[0])
        if c is not None:
            ck = F.callee_key(c[1]) or ""
            name = ck.rsplit("::", 1)[-1]
            if name in ("as_ref", "as_mut", "clone", "deref", "deref_mut", "cloned", "copied", "map", "ok", "ok_or", "map_err", "as_deref", "or") and F.call_args(c[1]):
                op = F.call_args(c[1])[0]
                continue
            if name in ("poll",) or "{closure#" in ck:
                return ck
            return ck
        r = dep.single_def_rvalue(body, pl[0])
        if r is None:
            return None
        rv = r[1]
        if rv[0] == "use":
            op = rv[1]
        elif rv[0] == "ref":
            op = ["cp", [rv[2][0], []]]
        else:
            return None
    return None


def _operand_names(body, op, bb):
    """what an operand is computed from: the fields and parameters it depends on (sorted), `k` for a constant"""
    if F.op_const(op) is not None:
        return "k"
    try:
        o = dep.origins(body, op, at=(bb, len(body.stmts(bb))))
    except Exception:
        return "?"
    names = set()
    for a in o:
        if a[0] == "field" and not str(a[2]).isdigit():
            names.add(str(a[2]))
        elif a[0] == "param" and len(a) > 2 and a[2] and not (len(a) > 3 and a[3]):
            names.add(str(a[2]))
        elif a[0] == "call" and a[1]:
            nm = a[1].rsplit("::", 1)[-1]
            if not nm.startswith("{"):
                names.add(nm + "()")
    return ",".join(sorted(names)[:4]) or "k"


def _short_producer(prod):
    if not prod:
        return "?"
    parts = [x for x in prod.split("::") if not x.startswith("{impl#")]
    if parts and parts[-1].startswith("{closure#"):
        parts = parts[:-1] + ["closure"]
    return parts[-1] if parts else "?"


def enumerate_sites(prog, body, contract_fns=()):
    """All potential panic sites of one body (non-cleanup blocks)."""
    out = []
    g = cfg(body)
    for bb, blk in enumerate(body.blocks):
        if blk["c"] or bb not in g.reach:
            continue
        t = blk["t"]
        if t[0] == "assert":
            m = t[3]
            k = m["kind"]
            if k == "Overflow":
                out.append(Site(body, bb, "assert", "Overflow:%s" % m["op"], t[6], t, [m["a"], m["b"]]))
            elif k in ("DivisionByZero", "RemainderByZero"):
                out.append(Site(body, bb, "assert", k, t[6], t, [m["a"]]))
            elif k == "BoundsCheck":
                out.append(Site(body, bb, "assert", "BoundsCheck", t[6], t, [m["len"], m["index"]]))
            elif k == "OverflowNeg":
                out.append(Site(body, bb, "assert", "OverflowNeg", t[6], t, [m["a"]]))
            continue
        if t[0] != "call":
            continue
        c = F.callee(t)
        if c is None:
            continue
        ck = c.get("res") or c["fn"]
        decl = c["fn"]
        mac = F.call_mac(t)
        args = F.call_args(t)
        if any(ck == p or ck.startswith(p + "::") or decl == p for p in PANIC_FNS) or "core::panicking::" in ck:
            which = "panic"
            if mac:
                ms = [x for x in mac if any(w in x for w in ("assert", "unreachable", "unimplemented", "todo", "panic"))]
                which = (ms[-1] if ms else mac[-1]).replace("$crate::", "").replace("panic::", "")
            out.append(Site(body, bb, "panic", which, F.call_loc(t), t, list(args), mac))
        elif ck in UNWRAP_FNS:
            # unwrap and expect are one kind of site; the site is named after what produced the value, so that adding
            # or removing an unrelated unwrap in the same function does not renumber it
            site = Site(body, bb, "unwrap", ck.split("::")[1] + "::" + ck.rsplit("::", 1)[-1].replace("expect", "unwrap"), F.call_loc(t), t, [args[0]])
            prod = direct_producer(body, site)
            site.desc += "<-" + _short_producer(prod)
            out.append(site)
        elif decl.endswith("ops::index::Index::index") or decl.endswith("ops::index::IndexMut::index_mut"):
            out.append(Site(body, bb, "index", "%s[%s]" % (_short_ty(_ty_of_arg0(body, t)), _short_ty(body.tystr(c["a"][1]) if len(c.get("a", [])) > 1 and isinstance(c["a"][1], int) else "?")), F.call_loc(t), t, list(args)))
        elif ck in API_PANICS and API_PANICS[ck]:
            out.append(Site(body, bb, "api", API_PANICS[ck], F.call_loc(t), t, list(args)))
        elif decl in OP_TRAIT_PANICS and ("core::time::Duration" in _ty_of_arg0(body, t) or "Instant" in _ty_of_arg0(body, t)):
            out.append(Site(body, bb, "api", "%s on %s" % (decl.rsplit("::", 1)[-1], _short_ty(_ty_of_arg0(body, t))), F.call_loc(t), t, list(args)))
        elif ck in contract_fns:
            out.append(Site(body, bb, "contract", contract_fns[ck], F.call_loc(t), t, list(args)))
    # stable keys: function key + kind + descriptor (for arithmetic: what the two operands are computed from), numbered
    # in block order among sites with the same descriptor only - so an unrelated operation added or moved elsewhere in
    # the function does not renumber a reviewed site
    seen = {}
    for s in out:
        if s.kind == "assert" and getattr(s, "operands", None):
            s.desc += "(" + ";".join(_operand_names(body, op, s.bb) for op in s.operands) + ")"
        base = "P-PANIC:%s:%s:%s" % (body.key, s.kind, s.desc)
        n = seen.get(base, 0)
        seen[base] = n + 1
        s.key = base if n == 0 else "%s#%d" % (base, n)
    return out


def _short_ty(s):
    return s.replace("alloc::vec::Vec", "Vec").replace("alloc::string::String", "String").replace("core::ops::range::", "").replace(", alloc::alloc::Global", "")[:60]


# ---------------------------------------------------------------------------------------------------
# interval analysis (flow-insensitive per local, with type ranges) for auto-discharging arithmetic asserts
INT_RANGES = {"u8": (0, 2**8 - 1), "u16": (0, 2**16 - 1), "u32": (0, 2**32 - 1), "u64": (0, 2**64 - 1), "u128": (0, 2**128 - 1), "usize": (0, 2**64 - 1),
              "i8": (-2**7, 2**7 - 1), "i16": (-2**15, 2**15 - 1), "i32": (-2**31, 2**31 - 1), "i64": (-2**63, 2**63 - 1), "i128": (-2**127, 2**127 - 1), "isize": (-2**63, 2**63 - 1)}


def ty_range(body, tix):
    t = body.types[tix]
    if t["k"] == "int":
        return INT_RANGES.get(t["n"])
    if t["k"] == "bool":
        return (0, 1)
    if t["k"] == "char":
        return (0, 0x10FFFF)
    return None


# (ADT key, field name) -> (lo, hi): value ranges that hold for every value of the ADT because its only constructor (a
# decoder) enforces them; filled by panic_common.scan after re-verifying each entry's guard on the current tree
FIELD_INV = {}


_RET_IV = {}


class Intervals:
    def __init__(self, prog, body, param_iv=None):
        self.prog = prog
        self.body = body
        self.D = dep.get_defs(body)
        self.memo = {}
        self.param_iv = param_iv or {}   # (body key, param index) -> interval from the call sites in scope

    def of_operand(self, op, depth=0):
        if op[0] == "c":
            v = F.const_int(op)
            if v is not None:
                return (v, v)
            c = op[2]
            if isinstance(c, dict) and "named" in c:
                cv = self.prog.consts.get(c["named"])
                if cv and cv.get("val") and "int" in cv["val"]:
                    x = int(cv["val"]["int"])
                    return (x, x)
            return ty_range(self.body, op[1])
        if op[0] in ("cp", "mv"):
            return self.of_place(op[1], depth)
        return None

    def of_place(self, pl, depth=0):
        # type of the place
        tix = None
        for e in reversed(pl[1]):
            if isinstance(e, list) and e[0] == "f":
                tix = e[4]
                break
        if tix is None:
            if pl[1]:
                return None
            tix = self.body.locals[pl[0]][0]
        tr = ty_range(self.body, tix)
        if pl[1]:
            last = pl[1][-1]
            if isinstance(last, list) and last[0] == "f" and FIELD_INV:
                inv = FIELD_INV.get((last[2], last[3]))
                if inv is not None:
                    return _meet(tr, inv)
            # overflow-checked tuple `(x, false).0`
            if len(pl[1]) == 1 and isinstance(pl[1][0], list) and pl[1][0][0] == "f" and pl[1][0][2] == "tuple" and pl[1][0][3] == "0":
                r = self._local(pl[0], depth, tuple_first=True)
                return _meet(r, tr)
            return tr
        return _meet(self._local(pl[0], depth), tr)

    def _local(self, l, depth, tuple_first=False):
        key = (l, tuple_first)
        if key in self.memo:
            return self.memo[key]
        if depth > 12:
            return None
        self.memo[key] = None  # cycle guard -> unknown
        tr = ty_range(self.body, self.body.locals[l][0])
        ds = self.D.of(l)
        if not ds or (1 <= l <= self.body.argc):
            pi = self.param_iv.get((self.body.key, l)) if not ds else None
            res0 = _meet(pi, tr) if pi else tr
            self.memo[key] = res0
            return res0
        res = None
        first = True
        for d in ds:
            r = None
            if d[0] == "assign" and not d[3][1]:
                r = self._rvalue(d[4], depth + 1, l)
            elif d[0] == "call" and not d[3][1]:
                r = self._call(d[4], depth + 1)
            if r is None:
                r = tr if not tuple_first else None
            if r is None:
                res = None
                first = False
                break
            res = r if first else (min(res[0], r[0]), max(res[1], r[1]))
            first = False
        if not tuple_first:
            res = _meet(res, tr)
        self.memo[key] = res
        return res

    def _rvalue(self, rv, depth, l):
        k = rv[0]
        if k == "use":
            return self.of_operand(rv[1], depth)
        if k == "cast" and rv[1] == "IntToInt":
            src = self.of_operand(rv[2], depth)
            dst = ty_range(self.body, rv[3])
            if src and dst and dst[0] <= src[0] and src[1] <= dst[1]:
                return src
            return dst
        if k == "bin":
            op = rv[1].replace("WithOverflow", "")
            a = self.of_operand(rv[2], depth)
            b = self.of_operand(rv[3], depth)
            if a is None or b is None:
                return None
            if op == "Add":
                return (a[0] + b[0], a[1] + b[1])
            if op == "Sub":
                return (a[0] - b[1], a[1] - b[0])
            if op == "Mul" and a[0] >= 0 and b[0] >= 0:
                return (a[0] * b[0], a[1] * b[1])
            if op == "Div" and b[0] > 0 and a[0] >= 0:
                return (a[0] // b[1], a[1] // b[0])
            if op == "Rem" and b[0] > 0 and a[0] >= 0:
                return (0, b[1] - 1)
            if op == "BitAnd" and a[0] >= 0 and b[0] >= 0:
                return (0, min(a[1], b[1]))
            if op == "BitOr" and a[0] >= 0 and b[0] >= 0:
                hi = 1
                while hi <= max(a[1], b[1]):
                    hi <<= 1
                return (0, hi - 1)
            if op == "Shr" and a[0] >= 0 and b[0] >= 0:
                return (a[0] >> b[1], a[1] >> b[0])
            if op == "Shl" and a[0] >= 0 and b[0] >= 0 and b[1] < 128:
                return (a[0] << b[0], a[1] << b[1])
            if op in ("Lt", "Le", "Gt", "Ge", "Eq", "Ne"):
                return (0, 1)
            return None
        if k == "un":
            return None
        if k == "discr":
            # discriminant of a workspace enum: range of its declared discriminants
            pl = rv[1]
            tix = None
            for e in reversed(pl[1]):
                if isinstance(e, list) and e[0] == "f":
                    tix = e[4]
                    break
            if tix is None and not [e for e in pl[1] if e != "*"]:
                tix = self.body.locals[pl[0]][0]
                ty = self.body.types[tix]
                while ty.get("k") == "ref":
                    ty = self.body.types[ty["e"]]
            else:
                ty = self.body.types[tix] if tix is not None else {}
            if ty.get("k") == "adt" and ty["d"] in self.prog.adts:
                ds = [v["discr"] for v in self.prog.adts[ty["d"]]["variants"] if v["discr"] is not None]
                if ds:
                    return (min(ds), max(ds))
            return None
        return None

    def _call(self, t, depth):
        ck = F.callee_key(t) or ""
        args = F.call_args(t)
        name = ck.rsplit("::", 1)[-1]
        if name in ("min",) and len(args) == 2:
            a, b = self.of_operand(args[0], depth), self.of_operand(args[1], depth)
            if a and b:
                return (min(a[0], b[0]), min(a[1], b[1]))
            if a:
                return (None if False else (INT_RANGES["u64"][0] if a[0] >= 0 else a[0]), a[1]) if a[0] >= 0 else None
            if b:
                return (0, b[1]) if b[0] >= 0 else None
        if name in ("max",) and len(args) == 2:
            a, b = self.of_operand(args[0], depth), self.of_operand(args[1], depth)
            if a and b:
                return (max(a[0], b[0]), max(a[1], b[1]))
        if name in ("wrapping_add", "wrapping_sub", "wrapping_mul", "saturating_sub", "saturating_add", "from_be_bytes", "from_le_bytes"):
            pl = F.call_dest(t)
            return ty_range(self.body, self.body.locals[pl[0]][0]) if not pl[1] else None
        if name == "saturating_sub":
            return None
        if name in ("count_ones", "leading_zeros", "trailing_zeros"):
            return (0, 128)
        # a small loop-free helper of the workspace: the interval of what it returns (computed in the helper itself, with
        # the field invariants of the headers it reads), so that arithmetic moved into a helper keeps its bound
        cb = self.prog.bodies.get(ck)
        if cb is not None and depth < 3 and len(cb.blocks) <= 12 and cb.key.startswith(("elvis_core::", "elvis::")):
            key = ("ret", ck)
            if key not in _RET_IV:
                _RET_IV[key] = None
                try:
                    g_ = cfg(cb)
                    if not any(g_.in_loop(bb) for bb in range(len(cb.blocks)) if not cb.is_cleanup(bb)):
                        sub = Intervals(self.prog, cb, self.param_iv)
                        r = sub.of_place([0, []], depth + 1)
                        if r is not None:
                            _RET_IV[key] = r
                except Exception:
                    _RET_IV[key] = None
            return _RET_IV[key]
        if name in ("div_ceil", "div_euclid", "checked_div") and len(args) == 2 and ck.startswith("core::num::"):
            a, b = self.of_operand(args[0], depth), self.of_operand(args[1], depth)
            if a and b and a[0] >= 0 and b[0] >= 1 and name != "checked_div":
                up = (lambda x, y: -(-x // y)) if name == "div_ceil" else (lambda x, y: x // y)
                return (up(a[0], b[1]), up(a[1], b[0]))
        if name in ("rem_euclid",) and len(args) == 2 and ck.startswith("core::num::"):
            b = self.of_operand(args[1], depth)
            if b and b[0] >= 1:
                return (0, b[1] - 1)
        if name == "abs_diff" and len(args) == 2 and ck.startswith("core::num::"):
            a, b = self.of_operand(args[0], depth), self.of_operand(args[1], depth)
            if a and b:
                return (0, max(a[1], b[1]) - min(a[0], b[0]))
        return None


def _meet(a, b):
    if a is None:
        return b
    if b is None:
        return a
    lo, hi = max(a[0], b[0]), min(a[1], b[1])
    if lo > hi:
        return b
    return (lo, hi)


def overflow_discharged(prog, body, site, iv=None):
    """Can the arithmetic assert at `site` never fail, by interval reasoning?"""
    iv = iv or Intervals(prog, body)
    t = site.term
    m = t[3]
    if m["kind"] == "Overflow":
        a, b = iv.of_operand(m["a"]), iv.of_operand(m["b"])
        # result type = type of operand a
        tix = _operand_ty(body, m["a"])
        tr = ty_range(body, tix) if tix is not None else None
        if a is None or b is None or tr is None:
            return False, "operand range unknown"
        op = m["op"]
        if op == "Sub":
            # relational special case: a - min(.., a) cannot underflow
            pb = F.op_place(dep.resolve_copy(body, m["b"]))
            pa = F.op_place(dep.resolve_copy(body, m["a"]))
            if pb is not None and pa is not None and not pb[1]:
                c = dep.single_def_call(body, pb[0])
                if c is not None and (F.callee_key(c[1]) or "").endswith("cmp::Ord::min"):
                    for arg in F.call_args(c[1]):
                        if F.op_place(dep.resolve_copy(body, arg)) == pa:
                            return True, "subtrahend is min(.., minuend)"
        if op == "Add":
            r = (a[0] + b[0], a[1] + b[1])
        elif op == "Sub":
            r = (a[0] - b[1], a[1] - b[0])
        elif op == "Mul":
            cands = [a[0] * b[0], a[0] * b[1], a[1] * b[0], a[1] * b[1]]
            r = (min(cands), max(cands))
        elif op in ("Shl", "Shr"):
            bits = {"u8": 8, "u16": 16, "u32": 32, "u64": 64, "usize": 64, "u128": 128, "i8": 8, "i16": 16, "i32": 32, "i64": 64, "isize": 64, "i128": 128}[body.types[tix]["n"]]
            ok = 0 <= b[0] and b[1] < bits
            return ok, "shift amount in [%d,%d] vs %d bits" % (b[0], b[1], bits)
        else:
            return False, "operator %s" % op
        ok = tr[0] <= r[0] and r[1] <= tr[1]
        return ok, "%s of [%d,%d] and [%d,%d] = [%d,%d] vs %s" % (op, a[0], a[1], b[0], b[1], r[0], r[1], body.types[tix]["n"])
    if m["kind"] in ("DivisionByZero", "RemainderByZero"):
        # the assert message carries the dividend; the condition is `divisor == 0` (expected false)
        cond = t[1]
        pl = F.op_place(cond)
        r = dep.single_def_rvalue(body, pl[0]) if pl is not None and not pl[1] else None
        if r is not None and r[1][0] == "bin" and r[1][1] == "Eq":
            for d, z in ((r[1][2], r[1][3]), (r[1][3], r[1][2])):
                if F.const_int(z) == 0:
                    a = iv.of_operand(d)
                    if a and (a[0] > 0 or a[1] < 0):
                        return True, "divisor in [%d,%d]" % a
        return False, "divisor may be 0"
    if m["kind"] == "BoundsCheck":
        ln, ix = iv.of_operand(m["len"]), iv.of_operand(m["index"])
        if ln and ix and ix[1] < ln[0]:
            return True, "index <= %d < len >= %d" % (ix[1], ln[0])
        return False, "index may reach len"
    return False, m["kind"]


def _operand_ty(body, op):
    if op[0] == "c":
        return op[1]
    pl = F.op_place(op)
    if pl is None:
        return None
    for e in reversed(pl[1]):
        if isinstance(e, list) and e[0] == "f":
            return e[4]
    return body.locals[pl[0]][0] if not pl[1] else None


def param_intervals(prog, cg, bodies, entries, rounds=8):
    """Closed-world integer parameter intervals for the bodies reachable from `entries`:
    interval(param) = join over the call sites inside `bodies` of the interval of the argument.
    Entry points and bodies with callers outside `bodies` keep the full type range."""
    piv = {}
    bodies = set(bodies)
    entries = set(entries)
    callers_outside = set()
    for k in bodies:
        for (c, kind, bb, loc) in cg.rev.get(k, ()):
            if c not in bodies and kind in ("call", "ref", "generic"):
                callers_outside.add(k)
    for _ in range(rounds):
        new = {}
        for k in bodies:
            b = prog.bodies[k]
            iv = Intervals(prog, b, piv)
            for bb, blk in enumerate(b.blocks):
                t = blk["t"]
                if blk["c"] or t[0] != "call":
                    continue
                ck = F.callee_key(t)
                if ck not in bodies or ck in entries or ck in callers_outside:
                    continue
                cb = prog.bodies[ck]
                for i, a in enumerate(F.call_args(t)):
                    l = i + 1
                    if l > cb.argc or ty_range(cb, cb.locals[l][0]) is None:
                        continue
                    r = iv.of_operand(a)
                    if r is None:
                        r = ty_range(cb, cb.locals[l][0])
                    old = new.get((ck, l))
                    new[(ck, l)] = r if old is None else (min(old[0], r[0]), max(old[1], r[1]))
        if new == piv:
            break
        piv = new
    else:
        # not converged: drop everything that still moves (widen to type range)
        piv = {}
    return piv
