"""In-memory program model over the JSON fact files (see driver/src/main.rs for the schema)."""
import json, os


class Body:
    __slots__ = ("key", "pretty", "kind", "parent", "root", "span", "argc", "locals", "blocks",
                 "crate", "types", "raw", "name", "vis", "impl", "impl_trait", "trait_method",
                 "derived", "self_ty", "_cfg", "debug_places")

    def __init__(self, raw, crate, types):
        self.raw = raw
        self.key = raw["key"]
        self.pretty = raw["pretty"]
        self.kind = raw["kind"]
        self.parent = raw.get("parent")
        self.root = raw.get("root")
        self.span = raw.get("span")
        self.argc = raw["argc"]
        self.locals = raw["locals"]
        self.blocks = raw["blocks"]
        self.crate = crate
        self.types = types
        self.name = raw.get("name")
        self.vis = raw.get("vis")
        self.impl = raw.get("impl")
        self.impl_trait = raw.get("impl_trait")
        self.trait_method = raw.get("trait_method")
        self.derived = raw.get("derived", False)
        self.self_ty = raw.get("self_ty")
        self.debug_places = raw.get("debug_places", [])
        self._cfg = None

    @property
    def file(self):
        return (self.span or "?:0").rsplit(":", 1)[0]

    def local_name(self, l):
        return self.locals[l][1]

    def local_ty(self, l):
        return self.types[self.locals[l][0]]

    def tystr(self, ix):
        return tystr(self.types, ix)

    def local_tystr(self, l):
        return tystr(self.types, self.locals[l][0])

    def term(self, bb):
        return self.blocks[bb]["t"]

    def stmts(self, bb):
        return self.blocks[bb]["s"]

    def is_cleanup(self, bb):
        return self.blocks[bb]["c"]

    def __repr__(self):
        return "<Body %s>" % self.key


def tystr(types, ix, depth=0):
    t = types[ix]
    if depth > 6:
        return "…"
    k = t["k"]
    if k in ("bool", "char", "str", "never"):
        return {"never": "!"}.get(k, k)
    if k in ("int", "float"):
        return t["n"]
    if k == "adt":
        args = [tystr(types, a, depth + 1) if isinstance(a, int) else "_" for a in t["a"]]
        return t["d"] + ("<" + ", ".join(args) + ">" if args else "")
    if k in ("array", "slice"):
        return "[" + tystr(types, t["e"], depth + 1) + "]"
    if k in ("ref", "ptr"):
        return ("&mut " if t["m"] else "&") + tystr(types, t["e"], depth + 1)
    if k == "fndef":
        return "fn{" + t["d"] + "}"
    if k == "tuple":
        return "(" + ", ".join(tystr(types, e, depth + 1) for e in t["e"]) + ")"
    if k == "dyn":
        return "dyn " + "+".join(t["t"])
    if k in ("closure", "coroutine", "coroutine_closure"):
        return k + "{" + t["d"] + "}"
    if k == "param":
        return t["n"]
    return t.get("s", k)


BASELINE_IMPLS = os.path.join(os.path.dirname(os.path.abspath(__file__)), "tables", "impl_baseline.json")
_IMPL_RE = None


def _impl_sigs(d):
    """module path -> [(impl number, (self type, trait, derived))] in numbering order."""
    out = {}
    for i in d["impls"]:
        k = i["key"]
        if "::{impl#" not in k:
            continue
        mod, n = k.rsplit("::{impl#", 1)
        try:
            n = int(n.rstrip("}"))
        except ValueError:
            continue
        sig = (tystr(d["types"], i["self_ty"]) if i.get("self_ty") is not None else "?", i.get("trait"), bool(i.get("derived")))
        out.setdefault(mod, []).append((n, sig))
    for v in out.values():
        v.sort()
    return out


def _impl_renumbering(d):
    """{(module, current number): baseline number} for impls whose number differs from the committed baseline
    (ea/tables/impl_baseline.json). Rule anchors name impl blocks by rustc's per-module ordinal `{impl#N}`; an added or
    removed impl block elsewhere in the module shifts those ordinals without changing any behaviour, so the facts are
    renumbered to the baseline by (Self type, trait, derived) signature. New impl blocks get numbers >= 1000."""
    try:
        with open(BASELINE_IMPLS) as f:
            base = json.load(f).get(d["crate"] + ":" + d["crate_type"], {})
    except (OSError, ValueError):
        return {}
    cur = _impl_sigs(d)
    ren = {}
    for mod, lst in cur.items():
        b = [(n, tuple(sig)) for n, sig in base.get(mod, [])]
        if [(n, s) for n, s in lst] == b:
            continue
        pool = {}
        for n, sig in b:
            pool.setdefault(sig, []).append(n)
        for n, sig in lst:
            q = pool.get(sig)
            tgt = q.pop(0) if q else 1000 + n
            if tgt != n:
                ren[(mod, n)] = tgt
    return ren


def _renumber_text(text, ren):
    import re
    global _IMPL_RE
    if _IMPL_RE is None:
        _IMPL_RE = re.compile(r'((?:elvis_core|elvis)(?:::(?:[A-Za-z0-9_]+|\{[a-z_]+#\d+\}))*?)::\{impl#(\d+)\}')

    def sub(m):
        # the module of an impl is the longest prefix without another {impl#..}; nested impls are rewritten left to right
        tgt = ren.get((m.group(1), int(m.group(2))))
        return m.group(0) if tgt is None else "%s::{impl#%d}" % (m.group(1), tgt)
    prev = None
    while prev != text:
        prev = text
        text = _IMPL_RE.sub(sub, text)
        break
    return text


BASELINE_PARAMS = os.path.join(os.path.dirname(os.path.abspath(__file__)), "tables", "param_baseline.json")
_PARAM_BASE = None


def _param_baseline():
    global _PARAM_BASE
    if _PARAM_BASE is None:
        try:
            with open(BASELINE_PARAMS) as f:
                _PARAM_BASE = json.load(f)
        except (OSError, ValueError):
            _PARAM_BASE = {}
    return _PARAM_BASE


def _rename_params(d):
    """Rules name parameters (`message`, `snd_una`, ...); a renamed parameter is not a behavioural change, so parameter
    names are reset to the committed baseline wherever the function still has the same arity."""
    base = _param_baseline().get(d["crate"] + ":" + d["crate_type"] + ":" + str(d.get("config")), {})
    n = 0
    for b in d["bodies"]:
        names = base.get(b["key"])
        if not names or len(names) != b["argc"]:
            continue
        for i, nm in enumerate(names):
            loc = b["locals"][i + 1]
            if loc[1] != nm and nm is not None and loc[1] is not None:
                loc[1] = nm
                n += 1
    return n


def write_param_baseline(dirs_files):
    """dirs_files: [(facts_dir, files)] for every build configuration."""
    out = {}
    for facts_dir, files in dirs_files:
      for f in files:
        with open(os.path.join(facts_dir, f)) as fh:
            d = json.load(fh)
        out[d["crate"] + ":" + d["crate_type"] + ":" + str(d.get("config"))] = {b["key"]: [b["locals"][i + 1][1] for i in range(b["argc"])] for b in d["bodies"] if b["argc"]}
    with open(BASELINE_PARAMS, "w") as fh:
        json.dump(out, fh, indent=0, sort_keys=True)
    return out


BASELINE_CLOSURES = os.path.join(os.path.dirname(os.path.abspath(__file__)), "tables", "closure_baseline.json")
_CLOS_RE = None


def _closure_sigs(d):
    """parent key (a body that is not itself a closure) -> [(closure number, kind)]"""
    out = {}
    for b in d["bodies"]:
        k = b["key"]
        if "::{closure#" not in k:
            continue
        par, n = k.rsplit("::{closure#", 1)
        if "{closure#" in par or not n.endswith("}"):
            continue
        try:
            out.setdefault(par, []).append((int(n[:-1]), b["kind"]))
        except ValueError:
            pass
    for v in out.values():
        v.sort()
    return out


def _closure_renumbering(d):
    """Closures are numbered by rustc in source order within their function; a closure added earlier in the function
    shifts the numbers of the later ones. Top-level closures are renumbered to the committed baseline by (kind,
    ordinal among that kind): `async move {..}` blocks and plain closures are counted separately."""
    try:
        with open(BASELINE_CLOSURES) as f:
            base = json.load(f).get(d["crate"] + ":" + d["crate_type"] + ":" + str(d.get("config")), {})
    except (OSError, ValueError):
        return {}
    ren = {}
    for par, lst in _closure_sigs(d).items():
        b = [(n, k) for n, k in base.get(par, [])]
        if lst == b or not b:
            continue
        pool = {}
        for n, k in b:
            pool.setdefault(k, []).append(n)
        for n, k in lst:
            q = pool.get(k)
            tgt = q.pop(0) if q else 1000 + n
            if tgt != n:
                ren[(par, n)] = tgt
    return ren


def _renumber_closures_text(text, ren):
    import re
    parents = sorted({p for p, _n in ren}, key=len, reverse=True)
    for par in parents:
        pat = re.compile(re.escape(par) + r"::\{closure#(\d+)\}")
        text = pat.sub(lambda m, par=par: "%s::{closure#%d}" % (par, ren.get((par, int(m.group(1))), int(m.group(1)))), text)
    return text


def write_closure_baseline(dirs_files):
    out = {}
    for facts_dir, files in dirs_files:
        for f in files:
            with open(os.path.join(facts_dir, f)) as fh:
                d = json.load(fh)
            out[d["crate"] + ":" + d["crate_type"] + ":" + str(d.get("config"))] = {p: [[n, k] for n, k in v] for p, v in sorted(_closure_sigs(d).items())}
    with open(BASELINE_CLOSURES, "w") as fh:
        json.dump(out, fh, indent=0, sort_keys=True)
    return out


def write_impl_baseline(facts_dir, files):
    out = {}
    for f in files:
        with open(os.path.join(facts_dir, f)) as fh:
            d = json.load(fh)
        out[d["crate"] + ":" + d["crate_type"]] = {m: [[n, list(s)] for n, s in v] for m, v in sorted(_impl_sigs(d).items())}
    with open(BASELINE_IMPLS, "w") as fh:
        json.dump(out, fh, indent=0, sort_keys=True)
    return out


def _load_doc(path):
    """json.load with a marshal side-cache (same directory, same content, 10x faster to read)."""
    import marshal
    mp = path + ".marshal"
    try:
        if os.path.getmtime(mp) >= max([os.path.getmtime(path)] + [os.path.getmtime(x) for x in (BASELINE_IMPLS, BASELINE_PARAMS, BASELINE_CLOSURES) if os.path.exists(x)]):
            with open(mp, "rb") as fh:
                return marshal.load(fh)
    except (OSError, ValueError, EOFError, TypeError):
        pass
    with open(path) as fh:
        text = fh.read()
    d = json.loads(text)
    ren = _impl_renumbering(d)
    if ren:
        d = json.loads(_renumber_text(text, ren))
        d["impl_renumbered"] = sorted("%s::{impl#%d}->%d" % (m, n, t) for (m, n), t in ren.items())
    cren = _closure_renumbering(d)
    if cren:
        # two passes through a temporary number space so that swaps do not collide
        tmp = {k: 500000 + v for k, v in cren.items()}
        t2 = _renumber_closures_text(json.dumps(d), tmp)
        back = {(p_, 500000 + v): v for (p_, _n), v in cren.items()}
        t2 = _renumber_closures_text(t2, back)
        d = json.loads(t2)
        d["closures_renumbered"] = sorted("%s::{closure#%d}->%d" % (p_, n, t) for (p_, n), t in cren.items())
    d["params_renamed"] = _rename_params(d)
    try:
        tmp = mp + ".%d" % os.getpid()
        with open(tmp, "wb") as fh:
            marshal.dump(d, fh)
        os.replace(tmp, mp)
    except (OSError, ValueError):
        pass
    return d


class Program:
    """All bodies of the analysed crates joined by canonical key (crate name + DefPath)."""

    def __init__(self):
        self.bodies = {}
        self.adts = {}
        self.impls = []
        self.consts = {}
        self.crates = {}
        self.unsafe = []
        self.unsafe_in_macros = []
        self.meta = {}
        self.stolen = []

    @staticmethod
    def load(facts_dir, files):
        p = Program()
        for f in files:
            d = _load_doc(os.path.join(facts_dir, f))
            if d.get("schema") != 1:
                raise RuntimeError("unknown fact schema in %s" % f)
            cname = d["crate"] + ":" + d["crate_type"]
            p.crates[cname] = {"bodies": len(d["bodies"]), "nonce": d["nonce"], "config": d["config"]}
            types = d["types"]
            for b in d["bodies"]:
                body = Body(b, cname, types)
                if body.key in p.bodies:
                    # lib and bin of the same package never define the same path twice; if they do, keep lib
                    continue
                p.bodies[body.key] = body
            for a in d["adts"]:
                a["_types"] = types
                p.adts.setdefault(a["key"], a)
            for i in d["impls"]:
                i["_types"] = types
                i["_crate"] = cname
                p.impls.append(i)
            for c in d["consts"]:
                p.consts.setdefault(c["key"], c)
            p.unsafe += [(cname, u) for u in d["unsafe"]]
            p.unsafe_in_macros += [(cname, u) for u in d["unsafe_in_macros"]]
            p.stolen += d["stolen"]
        return p

    # ------------------------------------------------------------------ lookups
    def body(self, key):
        b = self.bodies.get(key)
        if b is None:
            raise AnchorMissing("body not found: " + key)
        return b

    def find_bodies(self, suffix):
        return [b for k, b in self.bodies.items() if k.endswith(suffix)]

    def one(self, suffix):
        """Unique body whose key ends with `suffix` (anchor lookup; fails closed)."""
        m = [b for k, b in self.bodies.items() if k == suffix or k.endswith("::" + suffix)]
        if len(m) != 1:
            raise AnchorMissing("anchor %r matches %d bodies %s" % (suffix, len(m), [b.key for b in m][:5]))
        return m[0]

    def by_pretty(self, pretty):
        m = [b for b in self.bodies.values() if b.pretty == pretty or b.pretty.endswith("::" + pretty)]
        if len(m) != 1:
            raise AnchorMissing("anchor %r matches %d bodies %s" % (pretty, len(m), [b.pretty for b in m][:6]))
        return m[0]

    def method(self, self_adt, name, trait=None):
        """Unique method body by (Self ADT key suffix, method name[, trait key suffix]) — robust against
        impl renumbering."""
        m = []
        for b in self.bodies.values():
            if b.kind != "method" or b.name != name or b.self_ty is None:
                continue
            st = b.types[b.self_ty]
            if st.get("k") != "adt":
                continue
            d = st["d"]
            if not (d == self_adt or d.endswith("::" + self_adt)):
                continue
            if trait is not None and not (b.impl_trait and (b.impl_trait == trait or b.impl_trait.endswith("::" + trait))):
                continue
            if trait is None and b.impl_trait and b.derived:
                continue
            m.append(b)
        if len(m) != 1:
            raise AnchorMissing("method %s::%s%s matches %d bodies %s" % (self_adt, name, " (%s)" % trait if trait else "", len(m), [b.key for b in m][:4]))
        return m[0]

    def coroutine_of(self, body):
        """The coroutine body of an `async fn` / async_trait method wrapper."""
        kids = [k for k in self.children(body) if k.kind == "coroutine"]
        if len(kids) != 1:
            raise AnchorMissing("%s has %d coroutine children" % (body.key, len(kids)))
        return kids[0]

    def children(self, body):
        return [b for b in self.bodies.values() if b.parent == body.key]

    def trait_impl_bodies(self, trait_method_key):
        return [b for b in self.bodies.values() if b.trait_method == trait_method_key]

    def const_val(self, suffix):
        m = [c for k, c in self.consts.items() if k == suffix or k.endswith("::" + suffix)]
        if len(m) != 1 or m[0]["val"] is None:
            raise AnchorMissing("constant %r matches %d evaluated constants" % (suffix, len(m)))
        v = m[0]["val"]
        return v.get("int", v.get("bool"))

    def adt(self, suffix):
        m = [a for k, a in self.adts.items() if k == suffix or k.endswith("::" + suffix)]
        if len(m) != 1:
            raise AnchorMissing("ADT %r matches %d" % (suffix, len(m)))
        return m[0]


class AnchorMissing(Exception):
    pass


# ---------------------------------------------------------------------- MIR helpers
def is_place_op(op):
    return op[0] in ("cp", "mv")


def op_place(op):
    return op[1] if op[0] in ("cp", "mv") else None


def op_const(op):
    return op[2] if op[0] == "c" else None


def const_int(op):
    c = op_const(op)
    if isinstance(c, dict) and "int" in c:
        v = c["int"]
        return int(v) if isinstance(v, str) else v
    if isinstance(c, dict) and "bool" in c:
        return 1 if c["bool"] else 0
    return None


def place_local(pl):
    return pl[0]


def place_proj(pl):
    return pl[1]


def place_fields(pl):
    """[(owner, field name)] along the projection."""
    return [(e[2], e[3]) for e in pl[1] if isinstance(e, list) and e[0] == "f"]


def place_str(body, pl):
    l, proj = pl
    n = body.local_name(l) or "_%d" % l
    s = n
    for e in proj:
        if e == "*":
            s = "(*%s)" % s
        elif isinstance(e, list) and e[0] == "f":
            s += "." + e[3]
        elif isinstance(e, list) and e[0] == "dc":
            s += " as " + e[1]
        elif isinstance(e, list) and e[0] == "i":
            s += "[_%d]" % e[1]
        elif isinstance(e, list) and e[0] == "ci":
            s += "[%d]" % e[1]
        else:
            s += "{%s}" % (e if isinstance(e, str) else e[0])
    return s


def callee(term):
    """For a call terminator return the callee descriptor dict (or None for indirect calls)."""
    if term[0] != "call":
        return None
    c = op_const(term[1])
    if isinstance(c, dict) and "fn" in c:
        return c
    return None


def callee_key(term):
    c = callee(term)
    if c is None:
        return None
    if c.get("rk") in ("item", "virtual", "closure_once_shim", "fnptr_shim", "reify_shim", "vtable_shim", "clone_shim", "drop_glue", "intrinsic", "other") and c.get("res"):
        return c["res"]
    return c["fn"]


def callee_names(term):
    """All names a call may be matched by: declared fn key, resolved key, pretty path."""
    c = callee(term)
    if c is None:
        return ()
    return tuple(x for x in (c["fn"], c.get("res"), c.get("pretty")) if x)


def call_args(term):
    return term[2]


def call_dest(term):
    return term[3]


def call_target(term):
    return term[4]


def call_loc(term):
    return term[6]


def call_mac(term):
    return term[7] if len(term) > 7 else None
