"""Debug helper: python3 -m ea.show <key-suffix> [config]  — prints a body's MIR readably."""
import sys, json
from . import factgen, facts as F
from .cfg import cfg


def opstr(b, o):
    if o[0] in ("cp", "mv"):
        return ("move " if o[0] == "mv" else "") + F.place_str(b, o[1])
    if o[0] == "c":
        c = o[2]
        if isinstance(c, dict):
            if "fn" in c:
                return "fn:" + (c.get("res") or c["fn"]) + ("[virtual]" if c.get("rk") == "virtual" else "") + ("[%s]" % c.get("rk") if c.get("rk") not in ("item", "virtual") else "")
            for k in ("int", "bool", "str", "named"):
                if k in c:
                    return "%s:%r" % (k, c[k])
        return "const:" + json.dumps(c)[:60]
    return str(o)


def rvstr(b, rv):
    k = rv[0]
    if k == "use":
        return opstr(b, rv[1])
    if k == "ref":
        return "&%s%s" % ("mut " if rv[1] == "mut" else "", F.place_str(b, rv[2]))
    if k == "bin":
        return "%s(%s, %s)" % (rv[1], opstr(b, rv[2]), opstr(b, rv[3]))
    if k == "un":
        return "%s(%s)" % (rv[1], opstr(b, rv[2]))
    if k == "cast":
        return "%s as %s [%s]" % (opstr(b, rv[2]), b.tystr(rv[3]), rv[1])
    if k == "discr":
        return "discr(%s)" % F.place_str(b, rv[1])
    if k == "agg":
        kk = rv[1]
        nm = kk.get("d", kk["k"]) + ("::" + kk["v"] if kk.get("enum") else "")
        return "%s{%s}" % (nm, ", ".join(opstr(b, o) for o in rv[2]))
    return json.dumps(rv)[:100]


def show(b, out=sys.stdout):
    print("== %s [%s] %s argc=%d blocks=%d" % (b.key, b.kind, b.span, b.argc, len(b.blocks)), file=out)
    for i, l in enumerate(b.locals):
        if l[1] or i <= b.argc:
            print("   _%d %s: %s" % (i, l[1] or "", b.tystr(l[0])), file=out)
    g = cfg(b)
    for i, blk in enumerate(b.blocks):
        if blk["c"]:
            continue
        print(" bb%d:" % i, file=out)
        for st in blk["s"]:
            if st[0] == "a":
                print("    %s = %s    // %s%s" % (F.place_str(b, st[1]), rvstr(b, st[2]), st[3], " mac=%s" % st[4] if st[4] else ""), file=out)
            elif st[0] == "setdiscr":
                print("    setdiscr %s = %s" % (F.place_str(b, st[1]), st[2]), file=out)
        t = blk["t"]
        if t[0] == "call":
            print("    %s = call %s(%s) -> %s    // %s%s" % (F.place_str(b, t[3]), opstr(b, t[1]), ", ".join(opstr(b, a) for a in t[2]), t[4], t[6], " mac=%s" % t[7] if t[7] else ""), file=out)
        elif t[0] == "switch":
            print("    switch %s %s else %s   // %s" % (opstr(b, t[1]), t[2], t[3], t[4]), file=out)
        elif t[0] == "assert":
            print("    assert %s==%s %s -> %s  // %s" % (opstr(b, t[1]), t[2], t[3]["kind"] + (":" + t[3].get("op", "")), t[4], t[6]), file=out)
        elif t[0] == "drop":
            print("    drop %s -> %s" % (F.place_str(b, t[1]), t[2]), file=out)
        elif t[0] == "yield":
            print("    yield -> %s" % t[2], file=out)
        else:
            print("    %s" % (t,), file=out)


if __name__ == "__main__":
    cfgname = sys.argv[2] if len(sys.argv) > 2 else "default"
    d, h, meta = factgen.generate(cfgname)
    p = F.Program.load(d, meta["files"])
    for b in p.bodies.values():
        if b.key.endswith(sys.argv[1]) or b.pretty.endswith(sys.argv[1]):
            show(b)
