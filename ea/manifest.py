"""Regenerate /verif/MANIFEST.json from the rule modules that exist (python3 -m ea.manifest)."""
import importlib, json, os

from . import factgen

VERIF = factgen.VERIF
NA_REASONS_FILE = os.path.join(VERIF, "ea", "tables", "not_applicable.json")


def main():
    props = [json.loads(l) for l in open(os.path.join(VERIF, "properties.jsonl"))]
    with open(NA_REASONS_FILE) as f:
        na_reasons = json.load(f)
    checks, na = [], []
    for p in props:
        pid = p["id"]
        path = os.path.join(VERIF, "ea", "rules", pid.lower() + ".py")
        if not os.path.exists(path) or pid in na_reasons.get("_force", []):
            na.append({"property_id": pid, "reason": na_reasons.get(pid, "static rules for this property are not built (DESIGN.md section 7)")})
            continue
        m = importlib.import_module("ea.rules." + pid.lower())
        checks.append({
            "property_id": pid,
            "quick_cmd": "./check %s --tier quick" % pid,
            "thorough_cmd": "./check %s --tier thorough" % pid,
            "evidence_file": "/verif/evidence/%s.json" % pid,
            "replay_cmd_template": "./check %s --replay {path}" % pid,
            "engine": "ea",
            "level_claimed": {
                "category": getattr(m, "LEVEL", "other"),
                "text": getattr(m, "EXPLANATION", ""),
                "design_ref": "DESIGN.md section 4, %s" % pid,
            },
            "level_note": "Trusted base: rustc nightly MIR construction (mir_built, dev profile); call graph closed over the two workspace crates with virtual calls expanded to all workspace impls; dependencies (tokio, dashmap, std) implement their documented semantics. " + " ".join(getattr(m, "ASSUMPTIONS", [])),
            "technique": getattr(m, "TECHNIQUE", "static analysis: custom rules over rustc MIR facts (dominance / who-may-call / data-dependence)"),
        })
    man = {
        "version": 1,
        "setup_cmd": "./setup.sh",
        "hooks": {
            "guard": "elvis_verif",
            "enable": "none required: facts are read from the compiler (rustc_private driver under cargo +nightly check); no source hooks exist",
            "baseline_off_cmd": "cd /repo/sim && cargo test --workspace --no-fail-fast --offline",
            "source_commits": [],
            "add_only": True,
        },
        "engines": [
            {"name": "factgen", "path": "driver/", "serves_properties": [c["property_id"] for c in checks],
             "kind_free_text": "rustc_private driver dumping mir_built bodies, resolved callees, ADTs, constants, unsafe inventory and an UnsafeCell reachability walk as JSON facts"},
            {"name": "ea", "path": "ea/", "serves_properties": [c["property_id"] for c in checks],
             "kind_free_text": "Python rule engine: CFG dominance, call graph, data-dependence, finite-domain abstract interpretation, panic-site analysis over the facts"},
        ],
        "checks": checks,
        "notes": "Static analysis only: every check regenerates the MIR facts of /repo's current tree (content-addressed cache under /verif/.cache) and evaluates repository-specific rules; nothing of /repo is executed. Known findings: known_findings.json.",
        "not_applicable": na,
    }
    with open(os.path.join(VERIF, "MANIFEST.json"), "w") as f:
        json.dump(man, f, indent=1)
    print("checks: %s" % [c["property_id"] for c in checks])
    print("not_applicable: %s" % [n["property_id"] for n in na])


if __name__ == "__main__":
    main()
