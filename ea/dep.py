"""Intra-procedural data dependence / origin tracing over MIR locals (flow-insensitive, may-analysis).

Atoms returned by `origins`:
  ("param", index, name)          value of a formal parameter (index 1.. ; 1 is `self` for methods)
  ("field", owner, name)          a field projection was read on the way (owner = ADT key or ADT::Variant)
  ("call", callee_key, bb)        result of (or mutation by) a call; the call's arguments are traced too
  ("const", value)                integer/bool/str literal
  ("named", const_key)            named constant
  ("upvar", name)                 captured variable of a closure/coroutine body
  ("agg", adt_key, variant)       aggregate construction
  ("op", binop)                   arithmetic/comparison operator applied on the way
  ("cast", kind)
  ("local", l)                    a local without any definition (e.g. resume argument)
"""
from . import facts as F


class Defs:
    def __init__(self, body):
        self.body = body
        self.defs = {}      # local -> [def records]
        self.refs_mut = {}  # local (holding a &mut) -> place it borrows
        for bb, blk in enumerate(body.blocks):
            for i, st in enumerate(blk["s"]):
                if st[0] == "a":
                    pl, rv = st[1], st[2]
                    self.defs.setdefault(pl[0], []).append(("assign", bb, i, pl, rv))
                    if rv[0] == "ref" and rv[1] == "mut" and not pl[1]:
                        self.refs_mut.setdefault(pl[0], []).append(rv[2])
                elif st[0] == "setdiscr":
                    self.defs.setdefault(st[1][0], []).append(("setdiscr", bb, i, st[1], st[2]))
            t = blk["t"]
            if t[0] == "call":
                d = F.call_dest(t)
                self.defs.setdefault(d[0], []).append(("call", bb, None, d, t))
            elif t[0] == "yield":
                pass
        # second pass: calls that receive a `&mut` to a local redefine that local
        for bb, blk in enumerate(body.blocks):
            t = blk["t"]
            if t[0] != "call":
                continue
            for a in F.call_args(t):
                pl = F.op_place(a)
                if pl is None or pl[1]:
                    continue
                for target in self.refs_mut.get(pl[0], ()):
                    self.defs.setdefault(target[0], []).append(("mutarg", bb, None, target, t))

    def of(self, l):
        return self.defs.get(l, [])


def defs(body):
    d = getattr(body, "_defs", None)
    return d


_DEF_CACHE = {}


def get_defs(body):
    d = _DEF_CACHE.get(id(body))
    if d is None:
        d = Defs(body)
        _DEF_CACHE[id(body)] = d
    return d


def rvalue_operands(rv):
    k = rv[0]
    if k in ("use", "repeat"):
        return [rv[1]]
    if k == "cast":
        return [rv[2]]
    if k == "bin":
        return [rv[2], rv[3]]
    if k == "un":
        return [rv[2]]
    if k == "agg":
        return list(rv[2])
    return []


def rvalue_places(rv):
    k = rv[0]
    if k == "ref":
        return [rv[2]]
    if k == "rawptr":
        return [rv[1]]
    if k in ("discr",):
        return [rv[1]]
    return []


TRANSPARENT = ("::deref", "::deref_mut", "::as_ref", "::as_mut", "::borrow", "::borrow_mut", "::clone",
               "::to_owned", "::copied", "::cloned", "::unwrap", "::expect", "::into_inner", "::as_deref",
               "::unwrap_or_default", "::new_unchecked", "::into_future", "::get_mut", "::as_slice", "::to_vec")

_SUMMARY_CACHE = {}


def _place_path(pl):
    return tuple(e[3] for e in pl[1] if isinstance(e, list) and e[0] == "f")


def origins(body, x, through_calls=True, max_nodes=6000, stop_at_call=None, prog=None, path=(), _depth=0, at=None):
    """x: operand or place; `path`: extra field path below x. Returns frozenset of atoms (module doc).

    Field-sensitive for access paths through aggregates, copies, references, transparent calls
    (deref/clone/unwrap/...) and - when `prog` is given - through workspace callees (the callee's
    return value is traced with the remaining path; its parameters map back to the arguments)."""
    D = get_defs(body)
    atoms = set()
    seen = set()
    work = []
    from .cfg import cfg as _cfg
    G = _cfg(body) if at is not None else None
    pos = [at]   # position (bb, stmt index) of the use being traced; None = flow-insensitive

    def push_place(pl, extra=()):
        for (owner, name) in F.place_fields(pl):
            if owner == body.key:
                atoms.add(("upvar", name))
            atoms.add(("field", owner, name))
        for e in pl[1]:
            if isinstance(e, list) and e[0] == "i":
                work.append((e[1], (), pos[0]))
        work.append((pl[0], _place_path(pl) + tuple(extra), pos[0]))

    def push_op(op, extra=()):
        if op[0] in ("cp", "mv"):
            push_place(op[1], extra)
        elif op[0] == "c":
            c = op[2]
            if isinstance(c, dict):
                if "int" in c:
                    v = c["int"]
                    atoms.add(("const", int(v) if isinstance(v, str) else v))
                elif "bool" in c:
                    atoms.add(("const", c["bool"]))
                elif "str" in c:
                    atoms.add(("const", c["str"]))
                elif "named" in c:
                    atoms.add(("named", c["named"]))
                elif "fn" in c:
                    atoms.add(("fnitem", c.get("res") or c["fn"]))

    if isinstance(x, list) and x and x[0] in ("cp", "mv", "c", "rt"):
        push_op(x, path)
    else:
        push_place(x, path)
    if 1:
        pass
    n = 0
    while work:
        item = work.pop()
        if item in seen:
            continue
        seen.add(item)
        l, pth, upos = item
        n += 1
        if n > max_nodes:
            atoms.add(("truncated",))
            break
        ds = D.of(l)
        if 1 <= l <= body.argc:
            atoms.add(("param", l, body.local_name(l)) + ((pth,) if pth else ()))
        if not ds and not (1 <= l <= body.argc):
            atoms.add(("local", l))
        for d in ds:
            kind = d[0]
            if upos is not None:
                # reaching-definition filter (kill-aware for whole-local definitions): the definition
                # must be able to flow to the use without passing another whole definition of l
                dbb = d[1]
                didx = d[2] if d[2] is not None else len(body.blocks[dbb]["s"])
                same_block_before = (dbb == upos[0] and didx < upos[1])
                if same_block_before:
                    # killed by a later whole def in the same block before the use?
                    if any(o is not d and o[1] == dbb and not _place_path(o[3]) and o[0] in ("assign", "call")
                           and didx < (o[2] if o[2] is not None else len(body.blocks[dbb]["s"])) < upos[1] for o in ds):
                        continue
                else:
                    if upos[0] not in G.reach_plus(dbb):
                        continue
                    killers = {o[1] for o in ds if o is not d and not _place_path(o[3]) and o[0] in ("assign", "call") and o[1] != dbb and o[1] != upos[0]}
                    # a whole def in the use block before the use kills everything from outside
                    if any(o is not d and o[1] == upos[0] and not _place_path(o[3]) and o[0] in ("assign", "call")
                           and (o[2] if o[2] is not None else len(body.blocks[upos[0]]["s"])) < upos[1] for o in ds) and dbb != upos[0]:
                        continue
                    if killers and not G.reaches(dbb, upos[0], removed=killers):
                        continue
                pos[0] = (dbb, didx)
            if kind == "assign":
                dpath = _place_path(d[3])
                if dpath[:len(pth)] == pth[:len(dpath)]:
                    rem = pth[len(dpath):]
                else:
                    continue  # writes a disjoint field
                rv = d[4]
                k = rv[0]
                if k == "use":
                    push_op(rv[1], rem)
                elif k == "ref" or k == "rawptr":
                    push_place(rv[2] if k == "ref" else rv[1], rem)
                elif k == "agg":
                    kk = rv[1]
                    names = None
                    if kk["k"] == "adt":
                        atoms.add(("agg", kk["d"], kk["v"]))
                        names = kk["fields"]
                    elif kk["k"] in ("closure", "coroutine"):
                        atoms.add(("agg", kk["d"], kk["k"]))
                    elif kk["k"] == "tuple":
                        names = [str(i) for i in range(len(rv[2]))]
                    if rem and names and rem[0] in names and len(names) == len(rv[2]):
                        push_op(rv[2][names.index(rem[0])], rem[1:])
                    else:
                        for o in rv[2]:
                            push_op(o)
                elif k == "bin":
                    atoms.add(("op", rv[1]))
                    push_op(rv[2])
                    push_op(rv[3])
                elif k == "un":
                    atoms.add(("op", rv[1]))
                    push_op(rv[2])
                elif k == "cast":
                    atoms.add(("cast", rv[1]))
                    push_op(rv[2], rem if rv[1].startswith("PointerCoercion") else ())
                elif k == "discr":
                    atoms.add(("op", "discr"))
                    push_place(rv[1])
                elif k == "repeat":
                    push_op(rv[1])
            elif kind == "setdiscr":
                pass
            elif kind in ("call", "mutarg"):
                t = d[4]
                ck = F.callee_key(t)
                dpath = _place_path(d[3])
                if dpath[:len(pth)] == pth[:len(dpath)]:
                    rem = pth[len(dpath):]
                else:
                    continue
                atoms.add(("call", ck, d[1]))
                if stop_at_call and ck and any(ck.endswith(s) for s in stop_at_call):
                    continue
                if not through_calls:
                    continue
                args = F.call_args(t)
                c0 = t[1]
                if c0[0] in ("cp", "mv"):
                    push_op(c0)
                if kind == "call" and ck and args and any(ck.endswith(s) for s in TRANSPARENT):
                    push_op(args[0], rem)
                    for a in args[1:]:
                        push_op(a)
                    continue
                if kind == "call" and prog is not None and ck in prog.bodies and _depth < 3 and prog.bodies[ck].kind in ("fn", "method"):
                    cb = prog.bodies[ck]
                    if cb.trait_method and cb.trait_method.startswith("core::convert::") and args:
                        # conversions: the result is a function of the argument even when the data flow
                        # inside is a `match` (control dependence only)
                        push_op(args[0])
                    key = (ck, rem)
                    if key not in _SUMMARY_CACHE:
                        _SUMMARY_CACHE[key] = None  # recursion guard
                        _SUMMARY_CACHE[key] = return_origins(cb, prog=prog, path=rem, _depth=_depth + 1)
                    summ = _SUMMARY_CACHE[key]
                    if summ is not None and ("truncated",) not in summ:
                        used = False
                        for a in summ:
                            if a[0] == "param":
                                used = True
                                if a[1] - 1 < len(args):
                                    push_op(args[a[1] - 1], a[3] if len(a) > 3 else ())
                            elif a[0] in ("field", "const", "named", "op", "cast", "agg"):
                                atoms.add(a)
                            elif a[0] == "call":
                                atoms.add(("call", a[1], -1))
                        continue
                for a in args:
                    push_op(a)
    return frozenset(atoms)


def return_origins(body, prog=None, path=(), _depth=0):
    """Origins of the value returned by `body` (flow-sensitive: traced from each return block)."""
    from .cfg import cfg as _cfg
    out = set()
    for r in _cfg(body).returns:
        out |= origins(body, [0, []], prog=prog, path=path, _depth=_depth, at=(r, len(body.blocks[r]["s"])))
    return frozenset(out)


def arg_origins(body, bb, i, **kw):
    """Origins of argument i of the call terminating bb, flow-sensitive at that call."""
    t = body.term(bb)
    return origins(body, F.call_args(t)[i], at=(bb, len(body.blocks[bb]["s"])), **kw)


def has_field(atoms, owner_suffix, name):
    return any(a[0] == "field" and a[2] == name and (a[1] == owner_suffix or a[1].endswith("::" + owner_suffix) or a[1].endswith(owner_suffix)) for a in atoms)


def has_call(atoms, suffix):
    return any(a[0] == "call" and a[1] and (a[1] == suffix or a[1].endswith("::" + suffix) or a[1].endswith(suffix)) for a in atoms)


def has_param(atoms, name):
    return any(a[0] == "param" and a[2] == name for a in atoms)


def consts_of(atoms):
    return {a[1] for a in atoms if a[0] == "const"}


def fields_of(atoms):
    return {(a[1].rsplit("::", 1)[-1] if True else a[1], a[2]) for a in atoms if a[0] == "field"}


def single_def_rvalue(body, l):
    """If local l has exactly one definition and it is an Assign to the whole local, return (bb, rvalue)."""
    ds = get_defs(body).of(l)
    if len(ds) == 1 and ds[0][0] == "assign" and not ds[0][3][1]:
        return ds[0][1], ds[0][4]
    return None


def single_def_call(body, l):
    ds = get_defs(body).of(l)
    if len(ds) == 1 and ds[0][0] == "call" and not ds[0][3][1]:
        return ds[0][1], ds[0][4]
    return None


def resolve_copy(body, op, limit=20):
    """Follow single-definition `use` copies: returns the operand at the root of the chain."""
    while limit > 0 and op[0] in ("cp", "mv") and not op[1][1]:
        r = single_def_rvalue(body, op[1][0])
        if r is None or r[1][0] != "use":
            break
        op = r[1][1]
        limit -= 1
    return op


def switch_condition(body, bb):
    """Describe what the SwitchInt terminating `bb` tests.

    Returns dict(kind=..., ...):
      kind 'call'  : boolean result of a call            -> term, call_bb, negated
      kind 'bin'   : comparison                          -> op, a, b, def_bb
      kind 'discr' : discriminant of a place             -> place, def_bb
      kind 'place' : a boolean place (e.g. a field)      -> place
    """
    t = body.term(bb)
    if t[0] != "switch":
        return None
    op = t[1]
    neg = False
    for _ in range(12):
        if op[0] not in ("cp", "mv"):
            return {"kind": "const", "op": op}
        pl = op[1]
        if pl[1]:
            return {"kind": "place", "place": pl, "negated": neg}
        r = single_def_rvalue(body, pl[0])
        if r is not None:
            dbb, rv = r
            if rv[0] == "use":
                op = rv[1]
                continue
            if rv[0] == "un" and rv[1] == "Not":
                neg = not neg
                op = rv[2]
                continue
            if rv[0] == "bin":
                return {"kind": "bin", "op": rv[1], "a": rv[2], "b": rv[3], "def_bb": dbb, "negated": neg}
            if rv[0] == "discr":
                return {"kind": "discr", "place": rv[1], "def_bb": dbb, "negated": neg}
            return {"kind": "rvalue", "rv": rv, "def_bb": dbb, "negated": neg}
        c = single_def_call(body, pl[0])
        if c is not None:
            return {"kind": "call", "term": c[1], "call_bb": c[0], "negated": neg}
        return {"kind": "local", "local": pl[0], "negated": neg}
    return None


def switch_target(body, bb, value):
    """Successor taken by the switch at bb when the discriminant equals `value`."""
    t = body.term(bb)
    for v, tg in t[2]:
        if v == value:
            return tg
    return t[3]


def bool_branches(body, bb):
    """(true_succ, false_succ) of a boolean switch, accounting for `!` in the condition chain."""
    cond = switch_condition(body, bb)
    f = switch_target(body, bb, 0)
    t = body.term(bb)[3] if any(v == 0 for v, _ in body.term(bb)[2]) else switch_target(body, bb, 1)
    if cond and cond.get("negated"):
        return f, t
    return t, f


def expr_tree(body, op, depth=6):
    """Symbolic expression of an operand, following single-definition temporaries:
    ('const', n) | ('named', key) | ('var', name) | ('field', base_expr, name) | ('bin', op, a, b) | ('cast', a)
    | ('call', callee_key, [args]) | ('local', l) | ('?',)"""
    if op[0] == "c":
        v = F.const_int(op)
        if v is not None:
            return ("const", v)
        c = op[2]
        if isinstance(c, dict) and "named" in c:
            return ("named", c["named"])
        return ("?",)
    pl = F.op_place(op)
    if pl is None:
        return ("?",)
    return place_tree(body, pl, depth)


def place_tree(body, pl, depth=6):
    l, proj = pl
    fields = [e[3] for e in proj if isinstance(e, list) and e[0] == "f"]
    name = body.local_name(l)
    base = None
    if name and (body.locals[l][2] or l <= body.argc):
        base = ("var", name, l)
    elif depth > 0:
        r = single_def_rvalue(body, l)
        if r is not None:
            rv = r[1]
            if rv[0] == "use":
                base = expr_tree(body, rv[1], depth - 1)
            elif rv[0] == "cast":
                base = ("cast", expr_tree(body, rv[2], depth - 1))
            elif rv[0] == "bin":
                base = ("bin", rv[1].replace("WithOverflow", ""), expr_tree(body, rv[2], depth - 1), expr_tree(body, rv[3], depth - 1))
            elif rv[0] == "ref":
                base = place_tree(body, rv[2], depth - 1)
            elif rv[0] == "un":
                base = ("un", rv[1], expr_tree(body, rv[2], depth - 1))
        else:
            c = single_def_call(body, l)
            if c is not None:
                t = c[1]
                ck = F.callee_key(t) or "?"
                if any(ck.endswith(s) for s in TRANSPARENT) and F.call_args(t):
                    base = expr_tree(body, F.call_args(t)[0], depth - 1)
                else:
                    base = ("call", ck, [expr_tree(body, a, depth - 1) for a in F.call_args(t)])
    if base is None:
        base = ("var", name, l) if name else ("local", l)
    # overflow pair projection `.0` of a checked op is the op itself
    if base[0] == "bin" and fields == ["0"]:
        return base
    for f in fields:
        base = ("field", base, f)
    return base


def tree_str(t):
    k = t[0]
    if k == "const":
        return str(t[1])
    if k == "named":
        return t[1].rsplit("::", 1)[-1]
    if k == "var":
        return t[1]
    if k == "field":
        return tree_str(t[1]) + "." + t[2]
    if k == "bin":
        sym = {"Add": "+", "Sub": "-", "Mul": "*", "Div": "/", "Rem": "%", "BitAnd": "&", "BitOr": "|", "Shl": "<<", "Shr": ">>",
               "Lt": "<", "Le": "<=", "Gt": ">", "Ge": ">=", "Eq": "==", "Ne": "!="}.get(t[1], t[1])
        a, b = tree_str(t[2]), tree_str(t[3])
        if t[1] in ("Add", "Mul", "BitAnd", "BitOr", "Eq", "Ne") and b < a:
            a, b = b, a   # commutative: canonical operand order
        return "(%s %s %s)" % (a, sym, b)
    if k == "cast":
        return tree_str(t[1])
    if k == "un":
        return "%s(%s)" % (t[1], tree_str(t[2]))
    if k == "call":
        return "%s(%s)" % (t[1].rsplit("::", 1)[-1], ", ".join(tree_str(a) for a in t[2]))
    if k == "local":
        return "_%d" % t[1]
    return "?"
