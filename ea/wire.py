"""R5 — wire-layout traces of encoders and decoders (DESIGN.md §3/R5, §4 C08/C18)."""
from . import facts as F
from .cfg import cfg
from . import dep

INT_BYTES = {"u8": 1, "i8": 1, "u16": 2, "i16": 2, "u32": 4, "i32": 4, "u64": 8, "i64": 8, "u128": 16, "usize": 8}
READ_WIDTH = {"next_u8": 1, "next_u16_be": 2, "next_u32_be": 4, "next_u48_be": 6, "next_u64_be": 8, "next_ipv4addr": 4}


def rpo(body):
    g = cfg(body)
    order, seen = [], set()
    st = [(0, iter(g.succ[0]))]
    seen.add(0)
    while st:
        x, it = st[-1]
        adv = False
        for s in it:
            if s not in seen:
                seen.add(s)
                st.append((s, iter(g.succ[s])))
                adv = True
                break
        if not adv:
            order.append(x)
            st.pop()
    return order[::-1]


def _root(body, op):
    from .rules.ndl import _root_local
    return _root_local(body, op)


def _names(body, op, at):
    """Field / parameter / upvar names an operand's value originates from (direct data flow, no calls through workspace fns)."""
    o = dep.origins(body, op, at=at)
    names = set()
    for a in o:
        if a[0] == "field" and not a[1].startswith("core::") and not a[1].startswith("tuple") and not a[1].startswith("alloc::"):
            names.add(a[2])
        elif a[0] == "param" and a[2] and a[2] not in ("self",):
            names.add(a[2])
    return names, o


def _width_of_value(body, op, at):
    """Width in bytes of the byte sequence denoted by `op` (an argument of extend_from_slice / extend / push)."""
    t = dep.expr_tree(body, op, 14)
    return _tree_width(body, t), t


def _tree_width(body, t):
    if t[0] == "call":
        name = t[1].rsplit("::", 1)[-1]
        if name in ("to_be_bytes", "to_le_bytes", "to_ne_bytes"):
            # width of the integer: from the callee key `core::num::{impl#N}::to_be_bytes` we cannot tell; use the argument expr type
            return ("int", t[2][0])
        if name == "to_bytes":
            return 4      # Ipv4Address::to_bytes -> [u8; 4]
        if name == "index":
            return ("index", t[2])
    return None


def encoder_trace(prog, body):
    """Ordered appends to the output byte vector: [{bb, loc, width, names, expr}]"""
    # the output vector: a Vec<u8> local that is the receiver of push/extend* calls and flows to the return value
    cands = {}
    calls = []
    for bb in rpo(body):
        if body.is_cleanup(bb):
            continue
        t = body.term(bb)
        if t[0] != "call":
            continue
        c = F.callee(t)
        if not c:
            continue
        pretty = c.get("pretty", "")
        m = pretty.rsplit("::", 1)[-1]
        if ("vec::Vec" in pretty and m in ("push", "extend_from_slice", "append")) or (c["fn"].endswith("Extend::extend") and "Vec" in body.tystr(c["a"][0]) if c.get("a") and isinstance(c["a"][0], int) else False):
            r = _root(body, F.call_args(t)[0])
            cands[r] = cands.get(r, 0) + 1
            calls.append((bb, t, m if m != "extend" else "extend", r))
    if not cands:
        return None, []
    out = max(cands, key=cands.get)
    trace = []
    g = cfg(body)
    # initial contents `vec![a, b, ..]` of the output vector
    first_bb = min(bb for bb, t, m, r in calls if r == out)
    for bb in rpo(body):
        blk = body.blocks[bb]
        if blk["c"] or not g.dominates(bb, first_bb):
            continue
        for i, st in enumerate(blk["s"]):
            if st[0] == "a" and st[2][0] == "agg" and st[2][1]["k"] == "array" and st[4] and any("vec!" in m for m in st[4]):
                for op in st[2][2]:
                    names, o = _names(body, op, (bb, i))
                    tree = dep.expr_tree(body, op, 8)
                    trace.append({"bb": bb, "loc": st[3], "width": 1, "names": sorted(names), "expr": dep.tree_str(tree), "in_loop": False, "calls": []})
    for bb, t, m, r in calls:
        if r != out:
            continue
        at = (bb, len(body.stmts(bb)))
        arg = F.call_args(t)[1]
        names, o = _names(body, arg, at)
        width = None
        tree = dep.expr_tree(body, arg, 16)
        if m == "push":
            width = 1
        else:
            width = _slice_width(body, tree)
        trace.append({"bb": bb, "loc": F.call_loc(t), "width": width, "names": sorted(names), "expr": dep.tree_str(tree), "in_loop": g.in_loop(bb),
                      "calls": sorted({a[1].rsplit("::", 1)[-1] for a in o if a[0] == "call" and a[1]})})
    return out, trace


def _int_width_of_tree(body, t):
    """Byte width of an integer-valued expression tree, from local/field types where resolvable."""
    if t[0] == "var":
        ty = body.local_ty(t[2])
        return INT_BYTES.get(ty.get("n")) if ty.get("k") == "int" else None
    if t[0] == "cast":
        return None
    if t[0] == "field":
        return None
    return None


def _slice_width(body, tree):
    while tree[0] == "cast":
        tree = tree[1]
    # &X.to_be_bytes()            -> width of X
    # &X.to_be_bytes()[a..b]      -> b - a
    # Ipv4Address::to_bytes(x)    -> 4
    if tree[0] == "call":
        name = tree[1].rsplit("::", 1)[-1]
        if name in ("to_be_bytes", "to_le_bytes"):
            ck = tree[1]
            # core::num::{impl#N}::to_be_bytes: N identifies the int type; map through the std layout is brittle -> use result
            return ("bytes_of", ck)
        if name == "to_bytes":
            return 4
        if name == "index" and len(tree[2]) == 2:
            rng = tree[2][1]
            return ("range", rng)
        if name in ("into_bytes", "as_bytes", "clone", "to_vec"):
            return "var"
    if tree[0] == "var":
        ty = body.local_ty(tree[2])
        if ty.get("k") == "array":
            return ty.get("len")
        return "var"
    return None


def resolve_widths(prog, body, trace):
    """Turn symbolic widths into numbers using the call terminators' result types."""
    for e in trace:
        w = e["width"]
        if isinstance(w, tuple) and w[0] == "bytes_of":
            # find the to_be_bytes call feeding this append and read its destination type [u8; N]
            e["width"] = _bytes_call_width(body, e["bb"])
        elif isinstance(w, tuple) and w[0] == "range":
            e["width"] = _range_width(body, e["bb"])
    return trace


def _bytes_call_width(body, use_bb):
    g = cfg(body)
    best = None
    for bb in range(len(body.blocks)):
        t = body.term(bb)
        if t[0] == "call" and (F.callee_key(t) or "").rsplit("::", 1)[-1] in ("to_be_bytes", "to_le_bytes") and g.dominates(bb, use_bb):
            d = F.call_dest(t)
            ty = body.local_ty(d[0])
            if ty.get("k") == "array":
                if best is None or g.dominates(best[0], bb):
                    best = (bb, ty.get("len"))
    return best[1] if best else None


def _range_width(body, use_bb):
    g = cfg(body)
    best = None
    for bb, blk in enumerate(body.blocks):
        for st in blk["s"]:
            if st[0] == "a" and st[2][0] == "agg" and st[2][1].get("d") == "core::ops::range::Range" and g.dominates(bb, use_bb):
                a, b = F.const_int(st[2][2][0]), F.const_int(st[2][2][1])
                if a is not None and b is not None and (best is None or g.dominates(best[0], bb)):
                    best = (bb, b - a)
    return best[1] if best else None


def decoder_trace(prog, body):
    """Ordered reads from the byte iterator and the result fields that depend on each:
    [{bb, loc, width, fields, in_loop}]"""
    g = cfg(body)
    reads = []
    for bb in rpo(body):
        if body.is_cleanup(bb):
            continue
        t = body.term(bb)
        if t[0] != "call":
            continue
        c = F.callee(t)
        if not c:
            continue
        name = (c.get("res") or c["fn"]).rsplit("::", 1)[-1]
        if "BytesExt" in c["fn"] or "utility::BytesExt" in (c.get("res") or ""):
            if name in READ_WIDTH:
                reads.append({"bb": bb, "loc": F.call_loc(t), "width": READ_WIDTH[name], "in_loop": g.in_loop(bb), "fields": set()})
            elif name == "next_n":
                d = F.call_dest(t)
                ty = body.local_ty(d[0])
                n = None
                if ty.get("k") == "adt" and ty["a"] and isinstance(ty["a"][0], int):
                    inner = body.types[ty["a"][0]]
                    if inner.get("k") == "array":
                        n = inner.get("len")
                reads.append({"bb": bb, "loc": F.call_loc(t), "width": n, "in_loop": g.in_loop(bb), "fields": set()})
    # result aggregate(s): Ok(Self{...}) -> field operands
    ret_adt = None
    for bb, blk in enumerate(body.blocks):
        if blk["c"]:
            continue
        for i, st in enumerate(blk["s"]):
            if st[0] == "a" and st[2][0] == "agg" and st[2][1]["k"] == "adt" and not st[2][1].get("enum") and st[2][1]["d"].startswith(("elvis_core::", "elvis::")):
                names = st[2][1]["fields"]
                # only the aggregate that flows into the return value
                for fname, op in zip(names, st[2][2]):
                    o = dep.origins(body, op, at=(bb, i), prog=prog, stop_at_call=["::next_u8", "::next_u16_be", "::next_u32_be", "::next_u48_be", "::next_u64_be", "::next_ipv4addr", "::next_n"])
                    for r in reads:
                        if any(a[0] == "call" and a[2] == r["bb"] for a in o):
                            r["fields"].add("%s.%s" % (st[2][1]["d"].rsplit("::", 1)[-1], fname))
    # control dependence: a field whose value is chosen by a `match` on a value that was read
    # (e.g. `let oper = match oper_num { 1 => Request, 2 => Reply, _ => return Err }`)
    D = dep.get_defs(body)
    for bb, blk in enumerate(body.blocks):
        if blk["c"]:
            continue
        for i, st in enumerate(blk["s"]):
            if not (st[0] == "a" and st[2][0] == "agg" and st[2][1]["k"] == "adt" and not st[2][1].get("enum") and st[2][1]["d"].startswith(("elvis_core::", "elvis::"))):
                continue
            for fname, op in zip(st[2][1]["fields"], st[2][2]):
                label = "%s.%s" % (st[2][1]["d"].rsplit("::", 1)[-1], fname)
                if any(label in r["fields"] for r in reads):
                    continue
                rop = dep.resolve_copy(body, op)
                pl = F.op_place(rop)
                if pl is None or pl[1]:
                    continue
                defs = [d for d in D.of(pl[0]) if d[0] == "assign"]
                if len(defs) < 2:
                    continue
                dbbs = [d[1] for d in defs]
                # nearest switch dominating every definition
                cand = None
                for s in g.dom_chain(dbbs[0]):
                    if body.term(s)[0] == "switch" and all(g.dominates(s, x) for x in dbbs):
                        cand = s
                        break
                if cand is None:
                    continue
                o = dep.origins(body, body.term(cand)[1], at=(cand, len(body.stmts(cand))), prog=prog,
                                stop_at_call=["::next_u8", "::next_u16_be", "::next_u32_be", "::next_u48_be", "::next_u64_be", "::next_ipv4addr", "::next_n"])
                for r in reads:
                    if any(a[0] == "call" and a[2] == r["bb"] for a in o):
                        r["fields"].add(label)
    for r in reads:
        r["fields"] = sorted(r["fields"])
    return reads
