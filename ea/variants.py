"""Seeded single-instance breakages (DESIGN.md §6): each variant edits a scratch copy of /repo/sim,
the facts are regenerated from that copy, and the named rule must fire on the named instance.
Variants never touch /repo; the copy lives under a fresh mkdtemp and is removed right after."""
import io, json, os, shutil, subprocess, sys, tempfile

from . import engine, factgen

VDIR = os.path.join(factgen.VERIF, "variants")


def load(pid=None):
    out = []
    for f in sorted(os.listdir(VDIR)):
        if not f.endswith(".json"):
            continue
        with open(os.path.join(VDIR, f)) as fh:
            v = json.load(fh)
        v["name"] = f[:-5]
        if pid is None or v["property"] == pid:
            out.append(v)
    return out


SEEDED = os.path.join(factgen.VERIF, "seeded")


def load_seeded(pid):
    """Independently written breaking changes (seeded/<name>/patch.diff) that this property's check reports."""
    out = []
    if not os.path.isdir(SEEDED):
        return out
    for d in sorted(os.listdir(SEEDED)):
        mp = os.path.join(SEEDED, d, "meta.json")
        pp = os.path.join(SEEDED, d, "patch.diff")
        if not (os.path.isfile(mp) and os.path.isfile(pp)):
            continue
        with open(mp) as fh:
            m = json.load(fh)
        if pid in m.get("checks_reporting", []):
            out.append({"name": "seeded:" + d, "property": pid, "rule": None, "key": "", "patch": pp})
    return out


def make_copy(edits, repo=None, patch=None):
    repo = repo or factgen.REPO
    tmp = tempfile.mkdtemp(prefix="elvis-variant-")
    dst = os.path.join(tmp, "sim")
    subprocess.check_call(["rsync", "-a", "--exclude", "target", "--exclude", "*.data", "--exclude", "*.data.old",
                           "--exclude", "*.svg", "--exclude", "*.perf", os.path.join(repo, "sim") + "/", dst + "/"])
    if patch:
        # a unified diff with paths relative to the repository root (sim/...)
        r = subprocess.run(["patch", "-p1", "-s", "-d", tmp, "-i", patch], capture_output=True, text=True)
        if r.returncode != 0:
            shutil.rmtree(tmp, ignore_errors=True)
            raise StaleVariant("patch does not apply: %s" % (r.stdout + r.stderr)[:200])
    for e in edits:
        p = os.path.join(dst, e["file"])
        with open(p) as f:
            s = f.read()
        n = s.count(e["old"])
        if n != e.get("count", 1):
            shutil.rmtree(tmp, ignore_errors=True)
            raise StaleVariant("edit of %s: pattern occurs %d times, expected %d" % (e["file"], n, e.get("count", 1)))
        s = s.replace(e["old"], e["new"])
        with open(p, "w") as f:
            f.write(s)
    return tmp


class StaleVariant(Exception):
    pass


def run_variant(v, verbose=False):
    """Returns (status, message): status in caught|missed|stale|broken|silent-ok."""
    try:
        tmp = make_copy(v.get("edits", []), patch=v.get("patch"))
    except StaleVariant as e:
        return "stale", str(e)
    try:
        buf = io.StringIO()
        rc = engine.run_property(v["property"], tier="quick", repo=tmp, write_evidence=False, out=buf)
        out = buf.getvalue()
        if verbose:
            print(out)
        expect = v.get("expect", "violation")
        if rc == 2:
            return "broken", out.strip().splitlines()[-1] if out.strip() else "checker broken"
        if expect == "silent":
            # a repaired copy: no VIOLATION and the named known finding no longer printed
            gone = v.get("key", "")
            if rc == 0 and not any(l.startswith("KNOWN-FINDING") and gone in l for l in out.splitlines()):
                return "silent-ok", "no report on the repaired copy"
            return "missed", "repaired copy still reported:\n" + out
        if rc != 1:
            return "missed", "no violation reported"
        want = v.get("key", "")
        lines = [l for l in out.splitlines() if l.startswith(v["property"] + " ") and want in l]
        if not lines:
            return "missed", "violation reported but not on instance %r:\n%s" % (want, out)
        return "caught", lines[0][:300]
    finally:
        shutil.rmtree(tmp, ignore_errors=True)


def main(argv):
    pid = argv[1] if len(argv) > 1 and argv[1] != "all" else None
    only = argv[2] if len(argv) > 2 else None
    bad = 0
    for v in load(pid):
        if only and only not in v["name"]:
            continue
        st, msg = run_variant(v, verbose=bool(only))
        print("%-8s %-40s %s" % (st, v["name"], msg if st != "caught" else msg[:160]))
        if st not in ("caught", "silent-ok"):
            bad += 1
    return 1 if bad else 0


if __name__ == "__main__":
    sys.exit(main(sys.argv))
