"""Finite-domain abstract interpretation over a body's CFG (DESIGN.md §3/R3).

The abstract state at a program point is a frozenset of tuples over finite-valued observables
(collecting semantics, union join, no widening needed because the domain is finite).
Clients provide the transfer functions; the solver is a plain worklist.
"""
from .cfg import cfg


class Solver:
    def __init__(self, body, init, stmt_fn=None, term_fn=None, edge_fn=None):
        """init: frozenset state at entry.
        stmt_fn(state, bb, i, stmt) -> state          (state after the statement)
        term_fn(state, bb, term) -> state             (effect of the terminator itself, e.g. a call)
        edge_fn(state, bb, succ) -> state             (refinement along the edge bb -> succ)"""
        self.body = body
        self.g = cfg(body)
        self.init = init
        self.stmt_fn = stmt_fn
        self.term_fn = term_fn
        self.edge_fn = edge_fn
        self.inn = {}
        self.before_term = {}
        self.before_stmt = {}

    def run(self):
        g = self.g
        self.inn = {0: self.init}
        work = [0]
        while work:
            bb = work.pop()
            st = self.inn[bb]
            blk = self.body.blocks[bb]
            for i, s in enumerate(blk["s"]):
                self.before_stmt[(bb, i)] = st
                if self.stmt_fn:
                    st = self.stmt_fn(st, bb, i, s)
            self.before_term[bb] = st
            if self.term_fn:
                st = self.term_fn(st, bb, blk["t"])
            for su in g.succ[bb]:
                out = self.edge_fn(st, bb, su) if self.edge_fn else st
                if not out:
                    continue
                old = self.inn.get(su)
                new = out if old is None else (old | out)
                if new != old:
                    self.inn[su] = new
                    if su not in work:
                        work.append(su)
        return self

    def at_block(self, bb):
        return self.inn.get(bb, frozenset())

    def at_term(self, bb):
        return self.before_term.get(bb, frozenset())
