"""Workspace call graph from resolved callees (see DESIGN.md §2.2)."""
from . import facts as F


def iter_operands_of_rvalue(rv):
    k = rv[0]
    if k in ("use", "repeat"):
        yield rv[1]
    elif k == "cast":
        yield rv[2]
    elif k == "bin":
        yield rv[2]
        yield rv[3]
    elif k == "un":
        yield rv[2]
    elif k == "agg":
        for o in rv[2]:
            yield o


class CallGraph:
    def __init__(self, prog):
        self.prog = prog
        self.edges = {}      # caller key -> list of (callee key, kind, bb, loc)
        self.rev = {}        # callee key -> list of (caller key, kind, bb, loc)
        self.external = {}   # external callee name -> count
        self.sites = {}      # callee name (any of fn/res key) -> [(body, bb)]
        self.virtual_targets = {}  # trait method -> [impl body keys]
        self._impls_by_tm = {}
        for b in prog.bodies.values():
            if b.trait_method:
                self._impls_by_tm.setdefault(b.trait_method, []).append(b.key)
        n_edges = 0
        for b in prog.bodies.values():
            out = []
            for bb, blk in enumerate(b.blocks):
                for st in blk["s"]:
                    if st[0] != "a":
                        continue
                    rv = st[2]
                    if rv[0] == "agg" and rv[1]["k"] in ("closure", "coroutine", "coroutine_closure"):
                        out.append((rv[1]["d"], "creates", bb, st[3]))
                    for o in iter_operands_of_rvalue(rv):
                        c = F.op_const(o)
                        if isinstance(c, dict) and "fn" in c:
                            for t in self._targets(c):
                                out.append((t, "ref", bb, st[3]))
                t = blk["t"]
                if t[0] == "call":
                    c = F.callee(t)
                    if c is not None:
                        for nm in {c["fn"], c.get("res")} - {None}:
                            self.sites.setdefault(nm, []).append((b, bb))
                        tg = self._targets(c)
                        if not tg:
                            nm = c.get("res") or c["fn"]
                            self.external[nm] = self.external.get(nm, 0) + 1
                        # a trait call that could not be resolved statically (receiver is a type parameter):
                        # expanded to every workspace impl, but tagged so precise clients can leave it out
                        ekind = "generic" if c.get("rk") in ("unresolved", "error") and c.get("trait") else "call"
                        for x in tg:
                            # the trait's own provided method is always a possible target
                            out.append((x, "call" if x == c["fn"] else ekind, bb, F.call_loc(t)))
                    # function items passed as arguments
                    for a in F.call_args(t):
                        ca = F.op_const(a)
                        if isinstance(ca, dict) and "fn" in ca:
                            for x in self._targets(ca):
                                out.append((x, "ref", bb, F.call_loc(t)))
            self.edges[b.key] = out
            n_edges += len(out)
            for (x, kind, bb, loc) in out:
                self.rev.setdefault(x, []).append((b.key, kind, bb, loc))
        self.n_edges = n_edges

    def _targets(self, c):
        """Workspace bodies a callee descriptor may denote."""
        prog = self.prog
        rk = c.get("rk")
        res = c.get("res")
        if rk == "virtual":
            tg = self._impls_by_tm.get(res, []) or self._impls_by_tm.get(c["fn"], [])
            self.virtual_targets[res] = tg
            return list(tg)
        if rk in ("unresolved", "error") and c.get("trait"):
            tg = list(self._impls_by_tm.get(c["fn"], []))
            if c["fn"] in prog.bodies:
                tg.append(c["fn"])  # provided method
            return tg
        if res and res in prog.bodies:
            return [res]
        if c["fn"] in prog.bodies:
            return [c["fn"]]
        return []

    def targets_of_term(self, term):
        c = F.callee(term)
        return self._targets(c) if c is not None else []

    def reach(self, roots, stop=(), skip_kinds=()):
        """Keys of all bodies reachable from roots (inclusive). `stop`: keys not expanded;
        `skip_kinds`: edge kinds not followed (e.g. "generic")."""
        seen = set()
        st = list(roots)
        stop = set(stop)
        while st:
            x = st.pop()
            if x in seen:
                continue
            seen.add(x)
            if x in stop:
                continue
            for (y, k, _bb, _loc) in self.edges.get(x, ()):
                if y not in seen and k not in skip_kinds:
                    st.append(y)
        return seen

    def can_reach(self, targets):
        """Set of body keys from which some key in `targets` is reachable (inclusive)."""
        seen = set(targets)
        st = list(targets)
        while st:
            x = st.pop()
            for (y, _k, _bb, _loc) in self.rev.get(x, ()):
                if y not in seen:
                    seen.add(y)
                    st.append(y)
        return seen

    def path(self, src, targets):
        """Shortest call path src ->* t for t in targets, as list of keys."""
        targets = set(targets)
        prev = {src: None}
        q = [src]
        while q:
            x = q.pop(0)
            if x in targets:
                out = []
                while x is not None:
                    out.append(x)
                    x = prev[x]
                return out[::-1]
            for (y, _k, _bb, _loc) in self.edges.get(x, ()):
                if y not in prev:
                    prev[y] = x
                    q.append(y)
        return None

    def call_sites(self, name_suffix):
        """[(body, bb)] of calls whose declared or resolved callee key ends with name_suffix."""
        out = []
        for nm, lst in self.sites.items():
            if nm == name_suffix or nm.endswith("::" + name_suffix):
                out += lst
        # a call appears once per distinct name; dedupe
        seen, r = set(), []
        for (b, bb) in out:
            if (b.key, bb) not in seen:
                seen.add((b.key, bb))
                r.append((b, bb))
        return r
