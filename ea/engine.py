"""Rule engine: runs the rules of one property on the facts of /repo's current tree, applies the
known-findings file, writes evidence, and maps the outcome to the exit-code contract."""
import importlib, json, os, sys, time, traceback

from . import factgen, facts, callgraph

VERIF = factgen.VERIF
EVID = os.path.join(VERIF, "evidence")


class CheckerBroken(Exception):
    """An anchor, floor or positive control failed: the checker cannot give a verdict."""


class Instance:
    __slots__ = ("rule", "key", "loc", "status", "why", "detail")

    def __init__(self, rule, key, loc, status, why, detail=None):
        assert status in ("ok", "violation")
        self.rule, self.key, self.loc, self.status, self.why, self.detail = rule, key, loc, status, why, detail

    def to_json(self):
        d = {"rule": self.rule, "key": self.key, "loc": self.loc, "status": self.status, "why": self.why}
        if self.detail is not None:
            d["detail"] = self.detail
        return d


class Ctx:
    def __init__(self, tier="quick", repo=None):
        self.tier = tier
        self.repo = repo
        self._progs = {}
        self._cgs = {}
        self.meta = {}
        self.notes = []
        self.assumptions = []
        self.extra = {}
        self._floors = []
        self.instances = []

    def prog(self, config="default"):
        if config not in self._progs:
            d, h, meta = factgen.generate(config, repo=self.repo)
            p = facts.Program.load(d, meta["files"])
            for cname, c in p.crates.items():
                if c["nonce"] != meta["nonce"]:
                    raise CheckerBroken("fact file nonce mismatch for %s" % cname)
            if any(s[1] == "missing" for s in p.stolen):
                raise CheckerBroken("bodies missing from the fact base: %s" % p.stolen)
            self.meta[config] = dict(meta, bodies=len(p.bodies), crates=p.crates, degraded_bodies=p.stolen)
            self._progs[config] = p
        return self._progs[config]

    def cg(self, config="default"):
        if config not in self._cgs:
            self._cgs[config] = callgraph.CallGraph(self.prog(config))
            self.meta[config]["call_edges"] = self._cgs[config].n_edges
        return self._cgs[config]

    # -------------------------------------------------------------- recording
    def ok(self, rule, key, loc, why, detail=None):
        self.instances.append(Instance(rule, key, loc, "ok", why, detail))

    def bad(self, rule, key, loc, why, detail=None):
        self.instances.append(Instance(rule, key, loc, "violation", why, detail))

    def floor(self, rule, minimum):
        self._floors.append((rule, minimum))

    def require(self, cond, msg):
        if not cond:
            raise CheckerBroken(msg)

    def table(self, name):
        with open(os.path.join(VERIF, "ea", "tables", name)) as f:
            return json.load(f)


def load_known():
    p = os.path.join(VERIF, "known_findings.json")
    if not os.path.exists(p):
        return []
    with open(p) as f:
        return json.load(f)["findings"]


def _clear_caches():
    """Memo tables keyed by object identity or callee key must not survive from one analysed program to the next
    (the thorough tier analyses many scratch copies in one process)."""
    from . import dep
    dep._DEF_CACHE.clear()
    dep._SUMMARY_CACHE.clear()
    try:
        from . import panics
        panics._RET_IV.clear()
    except Exception:
        pass
    try:
        from .rules import panic_common
        panic_common._DB_CACHE.clear()
    except Exception:
        pass


def run_property(pid, tier="quick", repo=None, write_evidence=True, out=sys.stdout):
    t0 = time.time()
    mod = importlib.import_module("ea.rules." + pid.lower())
    _clear_caches()
    ctx = Ctx(tier=tier, repo=repo)
    try:
        mod.run(ctx)
        # floors: a rule that matched fewer instances than were confirmed by hand cannot pass
        counts = {}
        for i in ctx.instances:
            counts[i.rule] = counts.get(i.rule, 0) + 1
        for rule, minimum in ctx._floors:
            if counts.get(rule, 0) < minimum:
                raise CheckerBroken("rule %s matched %d instances, floor is %d" % (rule, counts.get(rule, 0), minimum))
    except (CheckerBroken, facts.AnchorMissing) as e:
        # fail closed: a construct the rules are anchored in is gone, so the clauses decided on it cannot be established
        # for this tree.  Reported as a violation that names the missing anchor (exit 1), not silently skipped.
        print("CHECKER-BROKEN property=%s: %s" % (pid, e), file=out)
        vdir = os.path.join(EVID, pid + ".violations")
        path = os.path.join(vdir, "0.json")
        if write_evidence:
            os.makedirs(vdir, exist_ok=True)
            for f in os.listdir(vdir):
                os.unlink(os.path.join(vdir, f))
            with open(path, "w") as f:
                json.dump({"property": pid, "rule": "ANCHOR", "key": "ANCHOR:%s" % str(e)[:120], "status": "violation",
                           "why": "the code the rules of %s are anchored in changed shape: %s; the property's clauses cannot be established for this tree" % (pid, e)}, f, indent=1)
        print("%s ANCHOR - ANCHOR:%s\n      the clauses decided on this construct cannot be established for this tree" % (pid, str(e)[:160]), file=out)
        print("VIOLATION property=%s replay=%s" % (pid, path), file=out)
        return 1
    except factgen.FactgenError as e:
        print("CHECKER-BROKEN property=%s: fact generation failed: %s" % (pid, e), file=out)
        return 2

    known = [k for k in load_known() if k.get("property") == pid and k.get("status") == "known"]
    known_keys = {k["key"]: k for k in known}
    viol, knownhit = [], []
    for i in ctx.instances:
        if i.status == "violation":
            if i.key in known_keys:
                knownhit.append(i)
            else:
                viol.append(i)

    # header
    for cfg, m in ctx.meta.items():
        print("%s facts=%s(%s%s) bodies=%d call-edges=%s gen=%.1fs" % (
            pid, m["hash"], cfg, ",cached" if m.get("cached") else "", m["bodies"], m.get("call_edges", "-"), m["gen_s"]), file=out)
    rules = {}
    for i in ctx.instances:
        r = rules.setdefault(i.rule, {"instances": 0, "ok": 0, "known": 0, "violations": 0})
        r["instances"] += 1
        if i.status == "ok":
            r["ok"] += 1
        elif i.key in known_keys:
            r["known"] += 1
        else:
            r["violations"] += 1
    for r, c in sorted(rules.items()):
        print("%s %-12s instances=%d ok=%d known=%d violations=%d" % (pid, r, c["instances"], c["ok"], c["known"], c["violations"]), file=out)
    for i in knownhit:
        print("KNOWN-FINDING: property=%s %s — %s (%s)" % (pid, i.key, known_keys[i.key]["what"], i.loc), file=out)
    rc = 0
    vdir = os.path.join(EVID, pid + ".violations")
    if write_evidence:
        if os.path.isdir(vdir):
            for f in os.listdir(vdir):
                os.unlink(os.path.join(vdir, f))
    for n, i in enumerate(viol):
        print("%s %s %s %s\n      %s" % (pid, i.rule, i.loc, i.key, i.why), file=out)
        path = os.path.join(vdir, "%d.json" % n)
        if write_evidence:
            os.makedirs(vdir, exist_ok=True)
            with open(path, "w") as f:
                json.dump(dict(i.to_json(), property=pid), f, indent=1)
        print("VIOLATION property=%s replay=%s" % (pid, path), file=out)
        rc = 1

    selftest = None
    if tier == "thorough" and rc == 0 and repo is None:
        # checker self-test: every seeded single-instance breakage must be reported on its instance
        from . import variants
        selftest = []
        for v in variants.load(pid) + variants.load_seeded(pid):
            st, msg = variants.run_variant(v)
            selftest.append({"variant": v["name"], "rule": v.get("rule"), "status": st, "report": msg[:300]})
            print("%s selftest %-8s %s" % (pid, st, v["name"]), file=out)
        if any(s["status"] in ("missed", "broken") for s in selftest):
            print("CHECKER-BROKEN property=%s: a seeded variant was not detected" % pid, file=out)
            rc = 2
    if write_evidence:
        os.makedirs(EVID, exist_ok=True)
        level = getattr(mod, "LEVEL", "other")
        n_obl = len(ctx.instances)
        n_dis = sum(1 for i in ctx.instances if i.status == "ok")
        if level == "proof" and (n_dis != n_obl):
            level = "other"
        samples = [i.to_json() for i in ctx.instances[:6]] + [i.to_json() for i in ctx.instances if i.status != "ok"][:6]
        cov = {
            "explanation": getattr(mod, "EXPLANATION", ""),
            "obligations": n_obl,
            "discharged": n_dis,
            "checker_cmd": "./check %s --tier %s" % (pid, tier),
            "trusted_base": getattr(mod, "TRUSTED", []) + [
                "rustc nightly MIR construction (mir_built, dev profile) is faithful to the source",
                "dependencies (tokio, dashmap, std) implement their documented semantics",
            ],
            "facts": ctx.meta,
            "rules": rules,
            "known_findings_open": [i.key for i in knownhit],
            "samples": samples,
            "exhaustive": True,
            "notes": ctx.notes,
        }
        if selftest is not None:
            cov["seeded_variants"] = selftest
        cov.update(ctx.extra)
        ev = {
            "property_id": pid,
            "tier": tier,
            "seed": int(os.environ.get("VERIF_SEED", "0") or 0),
            "level": level,
            "coverage": cov,
            "assumptions": getattr(mod, "ASSUMPTIONS", []) + ctx.assumptions,
            "wall_s": round(time.time() - t0, 2),
            "violations": len(viol),
        }
        with open(os.path.join(EVID, pid + ".json"), "w") as f:
            json.dump(ev, f, indent=1, default=str)
    if rc == 0:
        print("%s OK (%d instances, %d known findings) in %.1fs" % (pid, len(ctx.instances), len(knownhit), time.time() - t0), file=out)
    return rc
