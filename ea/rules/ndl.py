"""Shared analysis of the NDL parsers (used by C19 and C14): tab-count discipline before slicing."""
from .. import facts as F
from ..cfg import cfg
from .. import dep, fdai
from . import common as K

PARSERS = [
    "ndl::parsing::network_parser::networks_parser",
    "ndl::parsing::network_parser::network_parser",
    "ndl::parsing::machine_parser::machines_parser",
    "ndl::parsing::machine_parser::machine_parser",
    "ndl::parsing::machine_parser::machine_networks_parser",
    "ndl::parsing::machine_parser::machine_protocols_parser",
    "ndl::parsing::machine_parser::machine_applications_parser",
]

ALL = frozenset([("LT",), ("EQ",), ("GT",)])


def slice_sites(body):
    """[(bb, term)] of `&s[n..]` string slices (Index<RangeFrom<usize>> for String/str)."""
    out = []
    for bb, t in K.calls(body):
        c = F.callee(t)
        if not c:
            continue
        if c["fn"].endswith("ops::index::Index::index") or (c.get("res") or "").endswith("::index"):
            a0 = body.tystr(c["a"][0]) if c.get("a") and isinstance(c["a"][0], int) else ""
            if "String" in a0 or a0 == "str":
                out.append((bb, t))
    return out


def count_sites(prog, body, sroot):
    """Blocks whose terminator is `Iterator::count()` of `sroot.chars().take_while(|c| c == '\t')`."""
    out = {}
    for bb, t in K.calls(body):
        if not (F.callee(t) or {}).get("fn", "").endswith("Iterator::count"):
            continue
        # receiver chain: count(take_while(chars(deref(&sroot)), closure))
        op = F.call_args(t)[0]
        seen_tw = seen_chars = False
        closure = None
        ok = False
        for _ in range(10):
            pl = F.op_place(op)
            if pl is None:
                break
            if pl[0] == sroot:
                ok = True
                break
            c = dep.single_def_call(body, pl[0])
            if c is not None:
                ck = F.callee_key(c[1]) or ""
                decl = (F.callee(c[1]) or {}).get("fn", "")
                if decl.endswith("Iterator::take_while"):
                    seen_tw = True
                    co = dep.origins(body, F.call_args(c[1])[1], at=K.at_term(body, c[0]), through_calls=False)
                    cl = [a[1] for a in co if a[0] == "agg" and a[2] == "closure"]
                    closure = cl[0] if cl else None
                elif ck.endswith("::chars"):
                    seen_chars = True
                op = F.call_args(c[1])[0]
                continue
            r = dep.single_def_rvalue(body, pl[0])
            if r is None:
                break
            rv = r[1]
            if rv[0] == "ref":
                op = ["cp", [rv[2][0], []]]
                if rv[2][0] == sroot:
                    ok = True
                    break
            elif rv[0] == "use":
                op = rv[1]
            else:
                break
        tab = False
        if closure and closure in prog.bodies:
            cb = prog.bodies[closure]
            for blk in cb.blocks:
                for s in blk["s"]:
                    if s[0] == "a":
                        for o in dep.rvalue_operands(s[2]):
                            if F.const_int(o) == 9:
                                tab = True
        if ok and seen_tw and seen_chars and tab:
            out[bb] = t
    return out


def tab_discipline(prog, body):
    """For every string slice `&s[n..]` in `body` decide whether, at the slice, the number of leading tabs of the
    *current* value of s is known to equal n. Finite-domain abstract interpretation with two observables:
    ORD in {LT,EQ,GT} (leading-tab count vs n) and CUR (the count() call site whose result describes the current
    string, or None after the string is reassigned). Returns [(bb, loc, ok, why)]."""
    sites = slice_sites(body)
    res = []
    for sbb, st in sites:
        so = F.call_args(st)[0]
        sroot = _root_local(body, so)
        idx_at = dep.arg_origins(body, sbb, 1, through_calls=False)
        idx_params = {a[2] for a in idx_at if a[0] == "param"}
        if sroot is None or len(idx_params) != 1 or dep.consts_of(idx_at) or any(a[0] == "op" for a in idx_at):
            res.append((sbb, F.call_loc(st), False, "slice start is not a plain parameter (origins %s)" % sorted(idx_at, key=str)[:4]))
            continue
        bound = next(iter(idx_params))
        csites = count_sites(prog, body, sroot)
        ALLN = frozenset((o, None) for o in ("LT", "EQ", "GT"))

        def counts_of(op, at):
            o = dep.origins(body, op, at=at, stop_at_call=["Iterator::count"])
            cs = {a[2] for a in o if a[0] == "call" and a[1] and a[1].endswith("Iterator::count")}
            if any(a[0] == "call" and not a[1].endswith("Iterator::count") for a in o):
                return set(), True
            arith = any(a[0] == "op" for a in o) or dep.consts_of(o)
            return cs, arith

        def is_bound(op, at):
            o = dep.origins(body, op, at=at, through_calls=False)
            return any(a[0] == "param" and a[2] == bound for a in o) and not any(a[0] == "op" for a in o) and not dep.consts_of(o)

        def stmt_fn(state, bb, i, s):
            if s[0] == "a" and s[1][0] == sroot:
                return ALLN
            return state

        def term_fn(state, bb, t):
            if t[0] == "call":
                if F.call_dest(t)[0] == sroot:
                    return ALLN
                for a in F.call_args(t):
                    pl = F.op_place(a)
                    if pl is not None and not pl[1]:
                        for tgt in dep.get_defs(body).refs_mut.get(pl[0], ()):
                            if tgt[0] == sroot:
                                return ALLN
                if bb in csites:
                    return frozenset((o, bb) for o in ("LT", "EQ", "GT"))
            return state

        def edge_fn(state, bb, su):
            t = body.term(bb)
            if t[0] != "switch":
                return state
            info = K.compare_info(body, bb)
            if not info or su not in (info["true"], info["false"]) or info["true"] == info["false"]:
                return state
            at = K.at_term(body, bb)
            (ca, ara), (cb_, arb) = counts_of(info["a"], at), counts_of(info["b"], at)
            a_bnd, b_bnd = is_bound(info["a"], at), is_bound(info["b"], at)
            if ca and not ara and b_bnd and len(ca) == 1:
                cnt_site, x_first = next(iter(ca)), True
            elif cb_ and not arb and a_bnd and len(cb_) == 1:
                cnt_site, x_first = next(iter(cb_)), False
            else:
                return state
            rel = K.relation_on(info, su)
            if rel is None:
                return state
            op, x, y = rel
            x_is_cnt = (x is info["a"]) == x_first
            allowed = {"Lt": {"LT"}, "Le": {"LT", "EQ"}, "Eq": {"EQ"}, "Ne": {"LT", "GT"}}[op]
            if not x_is_cnt:
                allowed = {"Lt": {"GT"}, "Le": {"GT", "EQ"}, "Eq": {"EQ"}, "Ne": {"LT", "GT"}}[op]
            # refine only the tuples for which the compared count is the current one
            return frozenset(s for s in state if s[1] != cnt_site or s[0] in allowed)

        sol = fdai.Solver(body, ALLN, stmt_fn, term_fn, edge_fn).run()
        st_at = sol.at_term(sbb)
        ok = bool(st_at) and all(s[0] == "EQ" and s[1] is not None for s in st_at)
        res.append((sbb, F.call_loc(st), ok, "at the slice (leading tabs vs `%s`, count site): %s" % (bound, sorted(st_at, key=str))))
    return res


def _root_local(body, op):
    """Local whose contents a (possibly re-borrowed) reference operand denotes."""
    for _ in range(8):
        pl = F.op_place(op)
        if pl is None:
            return None
        l = pl[0]
        r = dep.single_def_rvalue(body, l)
        if r is None:
            c = dep.single_def_call(body, l)
            if c is not None and any((F.callee_key(c[1]) or "").endswith(s) for s in dep.TRANSPARENT):
                op = F.call_args(c[1])[0]
                continue
            return l
        rv = r[1]
        if rv[0] == "ref":
            if not rv[2][1]:
                return rv[2][0]
            op = ["cp", [rv[2][0], []]]
        elif rv[0] == "use":
            op = rv[1]
        else:
            return l
    return None


def _mentions_local(body, op, at, l):
    o = dep.origins(body, op, at=at)
    return ("local", l) in o or any(a[0] == "param" and a[1] == l for a in o)
