"""C14 — malformed input is rejected with an error, never with a crash (DESIGN.md §4 C14)."""
from .. import facts as F
from ..cfg import cfg
from .. import dep
from . import common as K
from . import ndl
from . import panic_common as PC

LEVEL = "other"
EXPLANATION = (
    "Three static rules. (P-PANIC) every potential panic site (MIR Assert terminators for overflow / division / bounds, "
    "calls into the panic machinery, Option/Result unwrap/expect, indexing, precondition contracts of Message) in the "
    "bodies reachable from the six packet decoders, the NDL parser and the frame path PciSession::receive -> "
    "Ipv4/Arp/Udp/Tcp demux -> socket hand-off (plus the in-tree consumers of the DNS/DHCP decoders) is enumerated and "
    "must be discharged: automatically by interval analysis, by 'not input dependent' producers (machine assembly, "
    "protocol context, lock poisoning, channel lifecycle), or by a reviewed table entry whose structural guard is "
    "re-verified on every run; anything else is a violation. (P-DROP) in Ipv4/Udp/Tcp/Arp::demux the Err arm of the "
    "header decode only logs and returns and cannot reach any effect (upward demux, session creation, table insert, "
    "reply). (N-SLICE) every byte-indexed string slice of the NDL parsers is proven, by a small finite-domain abstract "
    "interpretation, to start at the number of leading tabs / newlines just counted on the same string. Sound modulo "
    "the listed external callees assumed non-panicking; Message internals are trusted behind their asserted contracts.")
ASSUMPTIONS = [
    "external (std/tokio/dashmap/nom) callees not on the curated may-panic list do not panic",
    "Message::{slice,cut,remove_front,concatenate,header} are correct behind their asserted preconditions (C07 numerics are not decided)",
    "application demux handlers under elvis::applications (other than dhcp_server) and elvis::simulations are outside the property's scope",
]

LOG_OK = ("tracing", "core::fmt", "alloc::fmt", "core::result::", "core::option::", "core::ops::try_trait", "core::convert", "core::ops::function",
          "alloc::string", "core::any", "alloc::boxed", "core::ptr", "core::mem", "alloc::sync::{impl#34}::deref", "core::ops::deref")
PRE_OK = ("::clone", "control::{impl#0}::get", "message::{impl#0}::iter", "message::{impl#0}::len", "message::{impl#0}::clone", "alloc::boxed::{impl#33}::call",
          "core::option::", "core::result::", "core::ops::try_trait", "core::convert", "alloc::sync", "core::ops::deref", "core::clone")


def ok_arm(body, call_bb):
    """(ok_block, err_block) of the match / `?` on the result of the call terminating call_bb."""
    g = cfg(body)
    t = body.term(call_bb)
    d = F.call_dest(t)
    cur = d
    for _ in range(6):
        # direct match
        for s in range(len(body.blocks)):
            if body.is_cleanup(s) or body.term(s)[0] != "switch":
                continue
            c = dep.switch_condition(body, s)
            if c and c["kind"] == "discr" and c["place"] == cur and g.dominates(call_bb, s):
                okb = K.skip_false_edges(body, dep.switch_target(body, s, 0))
                errb = K.skip_false_edges(body, dep.switch_target(body, s, 1))
                return okb, errb
        # passed to an adapter or Try::branch
        nxt = None
        for bb, tt in K.calls(body):
            if not g.dominates(call_bb, bb) or bb == call_bb:
                continue
            a = F.call_args(tt)
            if a and F.op_place(a[0]) == cur:
                nxt = F.call_dest(tt)
                break
        if nxt is None:
            return None
        cur = nxt
    return None


def run(ctx):
    n_ascii(ctx)
    prog = ctx.prog()
    # ---------------------------------------------------------------- P-DROP
    demuxes = [("Ipv4", "ipv4_parsing::{impl#0}::from_bytes"), ("Udp", "udp_parsing::{impl#0}::from_bytes_ipv4"),
               ("Tcp", "tcp_parsing::{impl#0}::from_bytes"), ("Arp", "arp_parsing::{impl#0}::from_bytes")]
    for owner, dec in demuxes:
        b = prog.method(owner, "demux", "Protocol")
        g = cfg(b)
        dc = K.calls_to(b, dec)
        key = "P-DROP:%s::demux" % owner
        if len(dc) != 1:
            ctx.bad("P-DROP", key, b.span, "expected exactly one header decode (%s), found %d" % (dec, len(dc)))
            continue
        arms = ok_arm(b, dc[0][0])
        if arms is None:
            ctx.bad("P-DROP", key, F.call_loc(dc[0][1]), "the result of the header decode is not matched / propagated with `?`: a frame that fails to decode is processed anyway")
            continue
        okb, errb = arms
        probs = []
        err_reach = g.reachable_from(errb)
        ok_dom = {x for x in range(len(b.blocks)) if x in g.reach and g.dominates(okb, x) and not b.is_cleanup(x)}
        if err_reach & ok_dom:
            probs.append("the Err arm of the decode rejoins the processing path (bb%d)" % sorted(err_reach & ok_dom)[0])
        for bb in sorted(err_reach):
            t = b.term(bb)
            if t[0] == "call" and not b.is_cleanup(bb):
                ck = F.callee_key(t) or ""
                if not any(p in ck for p in LOG_OK) and not ("demux::{closure" in ck):
                    probs.append("after a failed decode %s still calls %s (%s)" % (owner, K.short(ck), F.call_loc(t)))
        pre = [bb for bb, t in K.calls(b) if not g.dominates(dc[0][0], bb) and bb != dc[0][0] and bb not in err_reach]
        for bb in pre:
            ck = F.callee_key(b.term(bb)) or ""
            if not any(p in ck for p in PRE_OK + LOG_OK):
                probs.append("%s calls %s before the header is decoded" % (owner, K.short(ck)))
        (ctx.bad if probs else ctx.ok)("P-DROP", key, F.call_loc(dc[0][1]), "; ".join(probs[:4]) if probs else
            "decode error => log and return; every effect is dominated by the Ok arm of the decode")

    # ---------------------------------------------------------------- N-SLICE
    nsl = 0
    for k in ndl.PARSERS:
        b = prog.one(k)
        for bb, loc, ok, why in ndl.tab_discipline(prog, b):
            nsl += 1
            (ctx.ok if ok else ctx.bad)("N-SLICE", "N-SLICE:%s" % k.rsplit("::", 1)[-1], loc,
                "slice start == number of leading tabs of the current string (%s)" % why if ok else
                "string slice at a byte index that is not proven to equal the leading-tab count of the same string (%s): may panic on a char boundary / out of range" % why)
    gp = prog.one("ndl::parsing::parser_util::general_parser")
    for bb, t in ndl.slice_sites(gp):
        nsl += 1
        e = dep.tree_str(dep.expr_tree(gp, F.call_args(t)[1], 14))
        sroot = ndl._root_local(gp, F.call_args(t)[0])
        o = dep.arg_origins(gp, bb, 1)
        ok = dep.has_call(o, "Iterator::count") and dep.has_call(o, "Iterator::take_while") and not any(a[0] == "op" for a in o) and not dep.consts_of(o)
        # the counted string is the sliced string
        cnt = [cb for cb, ct in K.calls(gp) if (F.callee(ct) or {}).get("fn", "").endswith("Iterator::count") and any(a[0] == "call" and a[2] == cb for a in o)]
        if ok and cnt:
            co = dep.arg_origins(gp, cnt[0], 0)
            ok = any(a[0] == "call" and a[1] and a[1].endswith("parser_util::section") for a in co) and any(a[0] == "call" and a[1] and a[1].endswith("parser_util::section") for a in dep.arg_origins(gp, bb, 0))
            tw = [a[1] for a in co if a[0] == "agg" and a[2] == "closure"]
            nl = False
            for ck in tw:
                for blk in prog.bodies[ck].blocks:
                    for st in blk["s"]:
                        if st[0] == "a":
                            for op in dep.rvalue_operands(st[2]):
                                if F.const_int(op) == 10:
                                    nl = True
            ok = ok and nl
        (ctx.ok if ok else ctx.bad)("N-SLICE", "N-SLICE:general_parser", F.call_loc(t),
            "slice start = count of leading '\\n' characters of the same string (1 byte each)" if ok else
            "string slice in general_parser at an index that is not the count of leading newlines of the same string")
    ctx.floor("N-SLICE", 8)

    # ---------------------------------------------------------------- P-PANIC
    dec = [prog.method(n, m).key for n, m in (("Ipv4Header", "from_bytes"), ("UdpHeader", "from_bytes_ipv4"), ("TcpHeader", "from_bytes"),
                                               ("ArpPacket", "from_bytes"), ("DnsMessage", "from_bytes"), ("DhcpMessage", "from_bytes"))]
    ndle = [prog.one("ndl::parsing::parser::core_parser").key]
    frame = [prog.method("PciSession", "receive").key, prog.coroutine_of(prog.method("DnsServer", "respond_to_query")).key,
             prog.coroutine_of(prog.method("DnsClient", "get_host_by_name")).key]

    def scope(k):
        if k.startswith("elvis_core::protocols::tcp::tcb"):
            return False       # C17
        if k.startswith("elvis::applications::") and not k.startswith("elvis::applications::dhcp_server"):
            return False
        if k.startswith("elvis::simulations"):
            return False
        if k.startswith("elvis_core::network::"):
            return False       # the link itself (C05), reached only through the delivery task
        if k.startswith("elvis_core::protocols::socket_api::socket::") or k.startswith("elvis_core::protocols::socket_api::{impl#0}::"):
            return False       # the application-facing socket calls used by the DNS client/server (after the hand-off)
        return True
    table = PC.load_table("panic_c14.json")
    # string slices already proven by N-SLICE
    proven = {}
    for k in ndl.PARSERS:
        b = prog.one(k)
        for bb, loc, ok, why in ndl.tab_discipline(prog, b):
            if ok:
                proven[(b.key, bb)] = "slice start proven equal to the leading-tab count of the same string (N-SLICE)"
    for i in ctx.instances:
        if i.rule == "N-SLICE" and i.key == "N-SLICE:general_parser" and i.status == "ok":
            for bb, t in ndl.slice_sites(gp):
                proven[(gp.key, bb)] = "slice start proven equal to the count of leading newlines of the same string (N-SLICE)"

    def extra(b, s):
        if s.kind == "index":
            return proven.get((b.key, s.bb))
        return None
    stops = [K.SEND_PCI + "::{closure#0}", K.NETWORK_SEND]
    st = PC.scan(ctx, "P-PANIC", dec + ndle + frame, scope, table, extra_discharge=extra, stops=stops)
    ctx.require(st["sites"] >= 100, "P-PANIC: only %d sites enumerated (scope lost)" % st["sites"])



def n_ascii(ctx):
    """nom's tag_no_case on &str compares characters but splits at the keyword's *byte* length: a non-ASCII character
    that case-folds to an ASCII letter (U+212A -> 'k', U+017F -> 's') makes it slice inside a character and panic.
    Every tag_no_case parser built in the workspace must therefore only ever see input whose leading word is ASCII:
    its construction is dominated by the true branch of str::is_ascii."""
    prog = ctx.prog()
    n = 0
    for b in prog.bodies.values():
        if not b.key.startswith("elvis::ndl") and not b.key.startswith("elvis_core::"):
            continue
        sites = [(bb, t) for bb, t in K.calls(b) if (F.callee_key(t) or "").endswith("bytes::complete::tag_no_case") or (F.callee_key(t) or "").endswith("bytes::streaming::tag_no_case")]
        if not sites:
            continue
        g = cfg(b)
        guards = []
        for s_ in range(len(b.blocks)):
            if b.is_cleanup(s_) or b.term(s_)[0] != "switch":
                continue
            c = dep.switch_condition(b, s_)
            if c and c["kind"] == "call" and (F.callee_key(c["term"]) or "").endswith("str::{impl#0}::is_ascii"):
                tr, fa = dep.bool_branches(b, s_)
                guards.append((tr, fa, dep.arg_origins(b, c["call_bb"], 0)))
        for bb, t in sites:
            n += 1
            kw = F.op_const(F.call_args(t)[0]) if F.call_args(t) else None
            kws = kw.get("str") if isinstance(kw, dict) else None
            okk = any(g.dominates(tr, bb) and not g.dominates(fa, bb) and any(a[0] == "param" for a in o) for tr, fa, o in guards)
            if kws is not None and not kws.isascii():
                okk = False
            key = "N-ASCII:%s:%s" % (b.key.rsplit("::", 1)[-1], kws if kws is not None else "?")
            (ctx.ok if okk else ctx.bad)("N-ASCII", key, F.call_loc(t),
                "case-insensitive keyword parser only built after the leading word was checked to be ASCII" if okk else
                "tag_no_case(%r) can see non-ASCII input: a character that case-folds to a letter of the keyword (e.g. U+212A KELVIN SIGN for 'k') makes nom split the text inside that character and panic" % kws)
    ctx.require(n >= 5, "N-ASCII: only %d case-insensitive keyword parsers found" % n)
