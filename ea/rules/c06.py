"""C06 — ARP resolves an IP address to its owner's (or the gateway's) MAC (DESIGN.md §4 C06)."""
from .. import facts as F
from ..cfg import cfg
from .. import dep
from . import common as K

LEVEL = "other"
EXPLANATION = (
    "Dominance, data-dependence and awaited-type rules on Arp: a reply is sent only on the branch where the packet is a "
    "Request for an IP in local_ips, carrying the receiving tap's own MAC and the requested IP; the table learns "
    "(sender_ip, sender_mac) only from a successfully decoded packet; Arp::resolve awaits only tokio Timeout futures "
    "of the constant RESEND_DELAY inside a loop over the constant range 0..RESEND_TRIES whose exhaustion leads to "
    "fail_mac + Err; ArpTable::get_mac subscribes before its first table read; the default gateway replaces the "
    "remote exactly on the branch where the masked network ids differ; (A-MUST) on the formula of Arp::demux every decoded packet that is not a Request is learned from, whoever sent it, and every Request for an address in local_ips is answered. Decides these clauses for all inputs and "
    "schedules; success under partial loss and agreement of concurrent resolvers are runtime behaviour (not decided).")
ASSUMPTIONS = ["tokio::time::timeout(d, f) completes within d of being first polled", "watch::Receiver::changed observes every send after subscribe()"]


def run(ctx):
    prog = ctx.prog()
    dm = prog.method("Arp", "demux", "Protocol")
    g = cfg(dm)

    # ---------------------------------------------------------------- A-REPLY
    probs = []
    sp = K.calls_to(dm, K.SEND_PCI)
    dec = K.calls_to(dm, "arp_parsing::{impl#0}::from_bytes")
    ctx.require(len(dec) == 1, "Arp::demux: expected one ArpPacket::from_bytes")
    if len(sp) != 1:
        probs.append("expected exactly one send_pci (the reply) in Arp::demux, found %d" % len(sp))
    else:
        sbb = sp[0][0]
        guards = {"oper": None, "local": None}
        for s in range(len(dm.blocks)):
            if dm.is_cleanup(s) or dm.term(s)[0] != "switch" or not g.dominates(s, sbb):
                continue
            info = K.compare_info(dm, s)
            if info and info["op"] in ("Eq", "Ne"):
                oa = dep.origins(dm, info["a"], at=K.at_term(dm, s))
                ob = dep.origins(dm, info["b"], at=K.at_term(dm, s))
                if dep.has_field(oa | ob, "ArpPacket", "oper") and any(a[0] == "agg" and a[2] == "Request" for a in oa | ob):
                    rel = K.relation_on(info, info["true"])
                    eqb = info["true"] if rel and rel[0] == "Eq" else info["false"]
                    if g.dominates(eqb, sbb):
                        guards["oper"] = s
            c = dep.switch_condition(dm, s)
            if c and c["kind"] == "call" and (F.callee_key(c["term"]) or "").startswith("dashmap::") and (F.callee_key(c["term"]) or "").endswith("::contains_key"):
                cb = c["call_bb"]
                mo = dep.arg_origins(dm, cb, 0)
                ko = dep.arg_origins(dm, cb, 1)
                tr, fl = dep.bool_branches(dm, s)
                if dep.has_field(mo, "Arp", "local_ips") and dep.has_field(ko, "ArpPacket", "target_ip") and not dep.has_field(ko, "ArpPacket", "sender_ip") and g.dominates(tr, sbb):
                    guards["local"] = s
        if guards["oper"] is None:
            probs.append("the reply is not dominated by the branch `oper == Operation::Request`")
        if guards["local"] is None:
            probs.append("the reply is not dominated by the true branch of local_ips.contains_key(&request.target_ip): the machine may answer for an address it does not claim")
        nr = K.calls_to(dm, "arp_parsing::{impl#0}::new_reply")
        if len(nr) != 1:
            probs.append("expected one ArpPacket::new_reply")
        else:
            rb = nr[0][0]
            a0 = dep.arg_origins(dm, rb, 0)
            if not dep.has_call(a0, "pci_session::{impl#0}::mac") or dep.has_field(a0, "ArpPacket", "sender_mac") or dep.has_field(a0, "ArpPacket", "target_mac"):
                probs.append("the reply's sender MAC is not the receiving tap's own MAC (PciSession::mac())")
            if not dep.has_field(a0, "DemuxInfo", "slot"):
                probs.append("the reply's MAC is not taken from the tap the request arrived on")
            a1 = dep.arg_origins(dm, rb, 1, through_calls=False)
            if not dep.has_field(a1, "ArpPacket", "target_ip") or dep.has_field(a1, "ArpPacket", "sender_ip"):
                probs.append("the reply's sender IP is not the requested (target) IP")
            a2 = dep.arg_origins(dm, rb, 2, through_calls=False)
            a3 = dep.arg_origins(dm, rb, 3, through_calls=False)
            if not dep.has_field(a2, "ArpPacket", "sender_mac") or not dep.has_field(a3, "ArpPacket", "sender_ip"):
                probs.append("the reply is not addressed to the requester (sender_mac, sender_ip)")
            po = dep.arg_origins(dm, sbb, 1)
            if not any(a[0] == "call" and a[2] == rb for a in po):
                probs.append("the frame sent is not the reply built by new_reply")
            do = dep.arg_origins(dm, sbb, 2, through_calls=False)
            if not dep.has_field(do, "ArpPacket", "sender_mac"):
                probs.append("the reply is not unicast to the requester's MAC")
    (ctx.bad if probs else ctx.ok)("A-REPLY", "A-REPLY:Arp::demux", dm.span, "; ".join(probs) if probs else
        "reply only for Request ∧ target_ip ∈ local_ips, with own MAC and the requested IP, unicast to the requester")

    # learning
    probs = []
    sm = K.calls_to(dm, "arp::{impl#1}::set_mac", "ArpTable::set_mac")
    sm = [(bb, t) for bb, t in K.calls(dm) if (F.callee(t) or {}).get("pretty", "").endswith("ArpTable::set_mac")]
    dsw = None
    for s in range(len(dm.blocks)):
        if dm.is_cleanup(s) or dm.term(s)[0] != "switch":
            continue
        c = dep.switch_condition(dm, s)
        if c and c["kind"] == "discr" and c["place"] == F.call_dest(dec[0][1]):
            dsw = s
    if dsw is None:
        probs.append("the decode result is not matched")
    else:
        okarm = K.skip_false_edges(dm, dep.switch_target(dm, dsw, 0))
        for bb, t in sm + sp:
            if not g.dominates(okarm, bb):
                probs.append("%s (bb%d) is not dominated by the Ok arm of ArpPacket::from_bytes" % (K.short(F.callee_key(t)), bb))
    for bb, t in sm:
        a1 = dep.arg_origins(dm, bb, 1, through_calls=False)
        a2 = dep.arg_origins(dm, bb, 2, through_calls=False)
        if not dep.has_field(a1, "ArpPacket", "sender_ip") or not dep.has_field(a2, "ArpPacket", "sender_mac") or dep.has_field(a2, "ArpPacket", "target_mac"):
            probs.append("the table learns something other than (sender_ip -> sender_mac)")
    if len(sm) != 1:
        probs.append("expected one set_mac in Arp::demux, found %d" % len(sm))
    (ctx.bad if probs else ctx.ok)("A-LEARN", "A-LEARN:Arp::demux", dm.span, "; ".join(probs) if probs else
        "table learns (sender_ip -> sender_mac) of decoded packets only")
    a_must(ctx, prog, dm)
    # who writes the table
    tbl_writers = {}
    for b in prog.bodies.values():
        for bb, t in K.calls(b):
            ck = F.callee_key(t) or ""
            if ck.startswith("dashmap::") and "::mapref::" not in ck and ck.rsplit("::", 1)[-1] in ("insert", "remove", "clear", "entry", "get_mut", "alter", "retain"):
                if dep.has_field(dep.arg_origins(b, bb, 0), "ArpTable", "table"):
                    tbl_writers.setdefault(b.pretty.rsplit("::", 1)[-1], []).append((b, bb, ck.rsplit("::", 1)[-1]))
    allowed = {"set_mac": "insert", "fail_mac": "insert", "remove_mac": "remove"}
    for name, lst in tbl_writers.items():
        for b, bb, m in lst:
            ok = allowed.get(name) == m and "ArpTable" in b.pretty
            (ctx.ok if ok else ctx.bad)("A-LEARN", "A-LEARN:ArpTable.table.%s@%s" % (m, b.key), K.loc_of_block(b, bb),
                "table written by ArpTable::%s" % name if ok else "ArpTable.table is written (%s) in %s" % (m, b.pretty))
    for name in ("set_mac", "fail_mac"):
        callers = ctx.cg().call_sites(prog.method("ArpTable", name).key)
        for b, bb in callers:
            ok = (name == "set_mac" and b.key == dm.key) or (name == "fail_mac" and b.key == prog.coroutine_of(prog.method("Arp", "resolve")).key)
            (ctx.ok if ok else ctx.bad)("A-LEARN", "A-LEARN:%s<-%s" % (name, b.key), K.loc_of_block(b, bb),
                "%s called from its protocol site" % name if ok else "ArpTable::%s is called from %s: entries can be planted outside the protocol" % (name, b.pretty))

    # ---------------------------------------------------------------- A-BOUNDED
    rs = prog.coroutine_of(prog.method("Arp", "resolve"))
    rg = cfg(rs)
    probs = []
    aps = K.await_points(rs)
    if not aps:
        probs.append("Arp::resolve awaits nothing (anchor lost)")
    for a in aps:
        ty = K.awaited_future_type(rs, a) or ""
        if "tokio::time::timeout::Timeout" not in ty:
            # a select! whose arms include a timer (Interval::tick / sleep) is bounded as well
            timers = [1 for bb_, t_ in K.calls(rs) if (F.callee_key(t_) or "").startswith("tokio::time::") and (F.callee_key(t_) or "").rsplit("::", 1)[-1] in ("tick", "sleep", "sleep_until", "timeout")]
            if not ("PollFn" in ty and timers):
                probs.append("Arp::resolve awaits %s at %s without a timeout: resolving an unclaimed address can hang" % (ty[:80], a["loc"]))
    tos = K.calls_to(rs, "tokio::time::timeout::timeout")
    for bb, t in tos:
        do = dep.arg_origins(rs, bb, 0, through_calls=False)
        if not any(x[0] == "named" and x[1].endswith("RESEND_DELAY") for x in do) or any(x[0] in ("op", "upvar", "param") for x in do):
            probs.append("the timeout duration is not the constant RESEND_DELAY")
    sends = K.calls_to(rs, "arp::send_arp_request")
    if len(sends) != 1:
        probs.append("expected one send_arp_request site in resolve, found %d" % len(sends))
    else:
        sbb = sends[0][0]
        nxt = [(bb, t) for bb, t in K.calls(rs) if (F.callee_key(t) or "").startswith("core::iter::range::") and (F.callee_key(t) or "").endswith("::next")]
        if len(nxt) != 1:
            probs.append("the retry loop is not a `for` over a Range (found %d Range::next)" % len(nxt))
        else:
            nbb = nxt[0][0]
            # the range is built from constants 0..RESEND_TRIES
            ro = dep.arg_origins(rs, nbb, 0)
            rng = [st for bb, st in K.aggregates(rs, "core::ops::range::Range")]
            if len(rng) != 1 or F.const_int(rng[0][2][2][0]) != 0 or not (isinstance(F.op_const(rng[0][2][2][1]), dict) and str(F.op_const(rng[0][2][2][1]).get("named", "")).endswith("RESEND_TRIES")):
                probs.append("the retry range is not 0..RESEND_TRIES")
            # every cycle through the send passes through Range::next; the None arm leaves the loop
            if not rg.in_loop(sbb):
                probs.append("send_arp_request is not retried in a loop")
            if rg.reaches(sbb, sbb, removed=[nbb]):
                probs.append("a cycle through send_arp_request avoids Range::next (unbounded retry)")
            sw = rs.term(nbb)[4]
            none_arm = K.skip_false_edges(rs, dep.switch_target(rs, sw, 0))
            if rg.reaches(none_arm, sbb) or none_arm == sbb:
                probs.append("after the range is exhausted the request can be sent again")
            fm = [(bb, t) for bb, t in K.calls(rs) if (F.callee(t) or {}).get("pretty", "").endswith("ArpTable::fail_mac")]
            errs = [bb for bb, st in K.aggregates(rs, "core::result::Result", "Err")]
            if len(fm) != 1 or not rg.dominates(none_arm, fm[0][0]):
                probs.append("exhausting the retries does not record the failure (fail_mac)")
            else:
                # every request gets its chance: between sending a request and giving up there is a wait for the reply
                polls = [a_["poll_bb"] for a_ in aps]
                if not rg.all_paths_through(sbb, [fm[0][0]], polls):
                    probs.append("after the last request of the retry budget is sent, resolve gives up (fail_mac) without waiting for its reply: a resolution whose only surviving exchange is the last one fails")
            if not rg.all_paths_through(none_arm, rg.returns, errs):
                probs.append("exhausting the retries does not return Err")
            # other cycles (besides await polling and the retry loop) must not exist
        # no other unbounded loop: every cycle contains either the Range::next or a yield
        for bb in range(len(rs.blocks)):
            if rs.is_cleanup(bb) or bb not in rg.reach:
                continue
            if rg.in_loop(bb):
                yl = [y for y in range(len(rs.blocks)) if rs.term(y)[0] == "yield"]
                if rg.reaches(bb, bb, removed=[n[0] for n in nxt] + yl):
                    probs.append("bb%d is on a cycle that contains neither the bounded range step nor an await" % bb)
                    break
    (ctx.bad if probs else ctx.ok)("A-BOUNDED", "A-BOUNDED:Arp::resolve", rs.span, "; ".join(probs) if probs else
        "%d await(s), all tokio Timeout(RESEND_DELAY); retry loop is `for _ in 0..RESEND_TRIES`; exhaustion => fail_mac + Err" % len(aps))
    gmc = prog.coroutine_of(prog.method("ArpTable", "get_mac"))
    gg = cfg(gmc)
    sub = [(bb, t) for bb, t in K.calls(gmc) if (F.callee_key(t) or "").endswith("::subscribe")]
    gc = K.calls_to(gmc, "arp::{impl#1}::get_clone")
    gc = [(bb, t) for bb, t in K.calls(gmc) if (F.callee(t) or {}).get("pretty", "").endswith("ArpTable::get_clone")]
    okk = len(sub) == 1 and len(gc) >= 1 and all(gg.dominates(sub[0][0], bb) and sub[0][0] != bb for bb, _ in gc) and not gg.in_loop(sub[0][0])
    (ctx.ok if okk else ctx.bad)("A-BOUNDED", "A-BOUNDED:ArpTable::get_mac", gmc.span,
        "update.subscribe() precedes the first table read (no lost wake-up)" if okk else "ArpTable::get_mac reads the table before subscribing to updates (a reply arriving in between is missed)")

    # every table update wakes *all* resolvers waiting in get_mac (concurrent resolvers of one address agree)
    for mname in ("set_mac", "fail_mac"):
        mb = prog.method("ArpTable", mname)
        wake = [(bb, t) for bb, t in K.calls(mb) if (F.callee_key(t) or "").startswith("tokio::sync::") and (F.callee_key(t) or "").rsplit("::", 1)[-1] in
                ("send", "send_replace", "send_modify", "send_if_modified", "notify_waiters", "notify_one", "notify_last")]
        single = [(bb, t) for bb, t in wake if (F.callee_key(t) or "").rsplit("::", 1)[-1] in ("notify_one", "notify_last")]
        okk = bool(wake) and not single
        (ctx.ok if okk else ctx.bad)("A-BOUNDED", "A-BOUNDED:ArpTable::%s:wake" % mname, mb.span,
            "%s wakes every waiting resolver" % mname if okk else
            ("%s wakes only one of the tasks waiting in get_mac (%s): with concurrent resolvers of the same address the reply's wake-up can go to the wrong one, which then times out and caches a failure while its sibling got the MAC" % (mname, (F.callee_key(single[0][1]) or "").rsplit("::", 1)[-1])
             if single else "%s does not wake the resolvers waiting for the table to change" % mname))

    # ---------------------------------------------------------------- A-GATEWAY
    probs = []
    ws = K.assigns_to_field(rs, "AddressPair", ("remote",))
    ws = [(bb, st) for bb, st in ws if F.place_fields(st[1])[-1][1] == "remote"]
    if len(ws) != 1:
        probs.append("expected exactly one rewrite of endpoints.remote, found %d" % len(ws))
    else:
        wbb, wst = ws[0]
        vo = set()
        for o in dep.rvalue_operands(wst[2]):
            vo |= dep.origins(rs, o, at=K.at_stmt(rs, wbb, wst), through_calls=False)
        if not dep.has_field(vo, "SubnetInfo", "default_gateway"):
            probs.append("endpoints.remote is replaced by something other than subnet.default_gateway")
        guard = None
        for s in rg.dom_chain(wbb) + [wbb]:
            if rs.term(s)[0] != "switch":
                continue
            info = K.compare_info(rs, s)
            if info and info["op"] in ("Eq", "Ne"):
                oa = dep.origins(rs, info["a"], at=K.at_term(rs, s))
                ob = dep.origins(rs, info["b"], at=K.at_term(rs, s))
                if dep.has_call(oa, "subnetting::{impl#7}::id") and dep.has_call(ob, "subnetting::{impl#7}::id"):
                    guard = (s, info, oa, ob)
        cguard = None
        if guard is None:
            # the same test written as membership: !Ipv4Net::new(local, mask).contains(remote)
            for s_ in rg.dom_chain(wbb) + [wbb]:
                if rs.term(s_)[0] != "switch":
                    continue
                c = dep.switch_condition(rs, s_)
                if c and c["kind"] == "call" and (F.callee_key(c["term"]) or "").endswith("subnetting::{impl#7}::contains"):
                    a0 = dep.arg_origins(rs, c["call_bb"], 0)
                    a1 = dep.arg_origins(rs, c["call_bb"], 1)
                    tr, fl = dep.bool_branches(rs, s_)
                    if dep.has_field(a0, "AddressPair", "local") and dep.has_field(a0, "SubnetInfo", "mask") and dep.has_field(a1, "AddressPair", "remote") and (fl == wbb or rg.dominates(fl, wbb)):
                        cguard = s_
        if guard is None and cguard is not None:
            pass
        elif guard is None:
            probs.append("the gateway substitution is not guarded by a comparison of the masked network ids")
        else:
            s, info, oa, ob = guard
            rel = K.relation_on(info, info["true"])
            neb = info["true"] if rel and rel[0] == "Ne" else info["false"]
            if not rg.dominates(neb, wbb):
                probs.append("the gateway substitution is not on the `ids differ` branch")
            if not (dep.has_field(oa | ob, "AddressPair", "local") and dep.has_field(oa | ob, "AddressPair", "remote")):
                probs.append("the compared ids are not those of endpoints.local and endpoints.remote")
            if not (dep.has_field(oa, "SubnetInfo", "mask") and dep.has_field(ob, "SubnetInfo", "mask")):
                probs.append("the ids are not computed under the subnet's mask")
    # whatever resolve() answers with Ok comes out of the table (learned from the owner's reply): never a constant
    for bb, st in K.aggregates(rs, "core::result::Result", "Ok"):
        ops = st[2][2]
        if not ops:
            continue
        o = dep.origins(rs, ops[0], at=K.at_stmt(rs, bb, st))
        named = [a[1].rsplit("::", 1)[-1] for a in o if a[0] == "named"]
        if (named or dep.consts_of(o)) and not (dep.has_call(o, "get_mac") or dep.has_call(o, "get_clone")) and "Poll" not in rs.local_tystr(st[1][0]):
            probs.append("resolve() can answer Ok(%s) without any table entry: that is no machine's hardware address (frames to it are flooded to every tap), and an unclaimed address then resolves at once instead of failing after the retries" % (named[0] if named else "a constant"))
    lk = [(bb, t) for bb, t in K.calls(rs) if (F.callee_key(t) or "").startswith("dashmap::") and (F.callee_key(t) or "").endswith("::get") and dep.has_field(dep.arg_origins(rs, bb, 0), "Arp", "local_ips")]
    if len(lk) != 1 or not dep.has_field(dep.arg_origins(rs, lk[0][0], 1, through_calls=False), "AddressPair", "local"):
        probs.append("the subnet configuration is not looked up under endpoints.local")
    gcl = [(bb, t) for bb, t in K.calls(rs) if (F.callee(t) or {}).get("pretty", "").endswith("ArpTable::get_clone") or (F.callee(t) or {}).get("pretty", "").endswith("ArpTable::get_mac")]
    for bb, t in gcl:
        o = dep.arg_origins(rs, bb, 1, through_calls=False)
        if not dep.has_field(o, "AddressPair", "remote"):
            probs.append("the table is queried for something other than the (possibly substituted) remote address")
    # the substitution comes first: no table query / request may happen before the subnet decision
    if len(lk) == 1:
        for bb, t in gcl + list(sends):
            what = (F.callee(t) or {}).get("pretty", "").rsplit("::", 1)[-1]
            if not rg.dominates(lk[0][0], bb):
                probs.append("%s at %s can run before the subnet configuration is consulted: an off-subnet address is resolved directly instead of through the default gateway" % (what, F.call_loc(t)))
            elif len(ws) == 1 and rg.reaches(bb, ws[0][0]):
                probs.append("%s at %s can run before endpoints.remote is replaced by the default gateway" % (what, F.call_loc(t)))
    if sends:
        o = dep.arg_origins(rs, sends[0][0], 1, through_calls=False)
        if not any(a[0] == "local" or a[0] == "upvar" for a in o) and not dep.has_field(o, "AddressPair", "remote") and not _is_named(rs, F.call_args(sends[0][1])[1], "endpoints"):
            probs.append("the ARP request does not ask for the (possibly substituted) endpoints")
    sar = prog.bodies.get("elvis_core::protocols::arp::send_arp_request")
    if sar is not None:
        nq = K.calls_to(sar, "arp_parsing::{impl#0}::new_request")
        if len(nq) == 1:
            a0 = dep.arg_origins(sar, nq[0][0], 0)
            a1 = dep.arg_origins(sar, nq[0][0], 1, through_calls=False)
            a2 = dep.arg_origins(sar, nq[0][0], 2, through_calls=False)
            if not dep.has_call(a0, "pci_session::{impl#0}::mac") or not dep.has_field(a1, "AddressPair", "local") or not dep.has_field(a2, "AddressPair", "remote"):
                probs.append("send_arp_request does not ask (own mac, local ip) -> remote ip")
        else:
            probs.append("send_arp_request does not build one request")
    (ctx.bad if probs else ctx.ok)("A-GATEWAY", "A-GATEWAY:Arp::resolve", rs.span, "; ".join(probs) if probs else
        "remote replaced by subnet.default_gateway exactly when the masked ids of local and remote differ; table and request use that address")


def _is_named(body, op, name):
    pl = F.op_place(op)
    return pl is not None and body.local_name(pl[0]) == name


def a_must(ctx, prog, dm):
    """A-MUST (the converse of A-REPLY / A-LEARN, on the formula of Arp::demux): every decoded packet that is not a Request
    is learned from - whoever sent it - and every decoded Request for an address in local_ips is answered.  A machine
    that skips either for some senders (its own echo, say) cannot resolve addresses that it, or such a sender, owns."""
    from .. import symx as S
    try:
        ex = S.Extractor(prog, (), effects=True, max_nodes=600000)
        ex.log_calls = {K.SEND_PCI}
        t = ex.run(dm, S.params_of(dm))
    except S.Unsupported as e:
        ctx.bad("A-MUST", "A-MUST:Arp::demux", dm.span, "Arp::demux cannot be reduced to a formula (%s)" % e)
        return
    is_dec = lambda x: x[0] == "call" and x[1].endswith("arp_parsing::{impl#0}::from_bytes")
    decs = set(S.atoms(t, is_dec))
    if len(decs) != 1:
        ctx.bad("A-MUST", "A-MUST:Arp::demux", dm.span, "expected one ArpPacket::from_bytes in the formula, found %d" % len(decs))
        return
    R = decs.pop()
    PKT = ("field", ("downcast", R, "Ok"), "0")
    op_adt = prog.adt("arp_parsing::Operation")
    req_d = [int(v["discr"]) if v.get("discr") is not None else i for i, v in enumerate(op_adt["variants"]) if v["name"] == "Request"][0]

    def pkt_field(x, name):
        return x[0] == "field" and x[2] == name and x[1][0] == "field" and x[1][1][0] == "downcast" and x[1][1][1] == R

    def request_cond(term, outcome):
        """True / False / None: this condition says the packet is (not) a Request."""
        if term[0] == "discr" and pkt_field(term[1], "oper"):
            if outcome[0] == "eq":
                return outcome[1] == req_d
            if outcome[0] == "ne":
                return False if req_d in outcome[1] else None
        if term[0] == "call" and term[1].rsplit("::", 1)[-1] in ("eq", "ne") and len(term[2]) == 2 and outcome[0] == "is":
            a, b = term[2]
            if any(pkt_field(y, "oper") for y in (a, b)) and any(y[0] == "variant" and y[2] == "Request" for y in (a, b)):
                return outcome[1] == (term[1].rsplit("::", 1)[-1] == "eq")
        return None

    def local_cond(term, outcome):
        if term[0] == "call" and term[1].endswith("::contains_key") and len(term[2]) == 2 and outcome[0] == "is" \
                and S.atoms(term[2][0], lambda y: y[0] == "field" and y[2] == "local_ips") and pkt_field(term[2][1], "target_ip"):
            return outcome[1]
        return None
    probs = []
    n_dec = n_req = 0
    for conds, log, leaf in S.paths(t):
        if leaf[0] in ("never", "unreachable", "stop"):
            continue
        dec_ok = [o for c, o in conds if c == ("discr", R)]
        if not dec_ok or not (dec_ok[0][0] == "eq" and dec_ok[0][1] == 0):
            continue
        n_dec += 1
        learned = [c for c in log if c[0] == "call" and c[1].endswith("::set_mac") and len(c[2]) == 3 and pkt_field(c[2][1], "sender_ip") and pkt_field(c[2][2], "sender_mac")]
        rq0 = [request_cond(c, o) for c, o in conds if request_cond(c, o) is not None]
        if not learned and not (rq0 and all(rq0)):
            # (learning from Requests is an optimisation; a Reply - or a packet whose kind was not even looked at - is
            # the answer some resolve() is waiting for)
            why = [S.term_str(c)[:90] for c, o in conds if not S.atoms(c, lambda y: y[0] == "named" or (y[0] == "call" and "is_never" in y[1])) and c != ("discr", R)
                   and request_cond(c, o) is None and local_cond(c, o) is None and c[0] != "discr" or (c[0] == "discr" and c[1][0] == "call" and "mac" in c[1][1])]
            probs.append("a packet that decodes can leave demux without (sender_ip -> sender_mac) being learned%s" % (" (path decided by %s)" % why[-1] if why else ""))
        rq = [request_cond(c, o) for c, o in conds if request_cond(c, o) is not None]
        lc = [local_cond(c, o) for c, o in conds if local_cond(c, o) is not None]
        if rq and all(rq) and lc and all(lc):
            n_req += 1
            if not any(c[0] == "call" and c[1] == K.SEND_PCI for c in log):
                probs.append("a Request for an address in local_ips can go unanswered")
    if n_dec == 0 or n_req == 0:
        probs.append("no decoded / answered path found in the formula (%d, %d)" % (n_dec, n_req))
    probs = sorted(set(probs))
    (ctx.bad if probs else ctx.ok)("A-MUST", "A-MUST:Arp::demux", dm.span, "; ".join(probs[:2]) if probs else
        "%d decoded paths: every one that is not a Request learns the sender; %d request-for-a-local-address paths all reply" % (n_dec, n_req))
