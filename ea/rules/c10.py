"""C10 — IPv4 fragmentation produces a faithful partition of the datagram (DESIGN.md §4 C10)."""
from .. import facts as F
from ..cfg import cfg
from .. import dep
from . import common as K

LEVEL = "other"
EXPLANATION = (
    "Both functions of fragmentation.rs are reduced to one formula each by symbolic extraction from MIR (branches -> "
    "if-then-else, `&mut` calls -> uninterpreted functional updates, arithmetic -> canonical linear forms), and the "
    "formulas are compared with RFC 791's procedure: (F-DECIDE) fragment() is the decision table fits -> "
    "DontFragment(unmodified header, body); does not fit and DF -> Discard; otherwise Fragmented(Fragmentation::new(mtu)"
    ".fragment(header, body).fragments), with the non-strict test total_length <= mtu; (F-MF) the only write of the "
    "more-fragments flag is set_is_last_fragment(false) on the first piece's header copy - the remainder and a piece "
    "that already fits keep the flag they arrived with (MF <- OMF), so by induction over the recursion MF is set on all "
    "pieces but the one ending the original datagram, also under repeated fragmentation; (F-UNIT) with NFB = "
    "(mtu - IHL*4)/8 the first piece is (header{TL = IHL*4 + NFB*8}, first NFB*8 octets), the remainder is "
    "(header{TL - NFB*8, FO + NFB}, rest) and is fragmented again, and no other header field is rewritten. The "
    "comparison is modulo renaming of locals, statement order and algebraic spelling. (P-PANIC) every arithmetic overflow, "
    "division, unwrap and Message contract reachable from fragment() inside the module is discharged by intervals (IHL = 5, "
    "TL / FO in the decoder's ranges) or a reviewed entry of tables/panic_c10.json, so fragment() returns for every header and MTU >= 68. Not decided: that pieces fit "
    "the MTU, are contiguous and carry the right bytes for all lengths/MTUs (16-bit arithmetic with recursion).")
ASSUMPTIONS = ["Message::cut(n) splits off exactly the first n bytes (C07, not decided numerically)"]

FRAGS = "fragmentation::Fragments"


def run(ctx):
    f_panic(ctx)
    f_flags(ctx)
    """All three rules are decided on the formulas extracted from the two functions (ea/symx.py, effects mode): the
    results do not depend on the names of locals, on statement order or on how the arithmetic is spelled."""
    from .. import symx as S
    prog = ctx.prog()
    fr = prog.one("protocols::ipv4::fragmentation::fragment")
    ff = prog.method("Fragmentation", "fragment")
    newf = prog.method("Fragmentation", "new")
    ctx.require(fr.argc == 3 and ff.argc == 3, "fragmentation: signatures changed (%d, %d parameters)" % (fr.argc, ff.argc))
    try:
        top, _ = S.extract(prog, fr, effects=True)
        rec, _ = S.extract(prog, ff, effects=True)
        newt, _ = S.extract(prog, newf, effects=True)
    except S.Unsupported as e:
        ctx.require(False, "fragmentation.rs can no longer be reduced to a formula (%s): no verdict" % e)
    H, B, M = S.params_of(fr)
    TL = lambda h: S.lin(("field", h, "total_length"))

    def fits_atom(c, tl, mtu):
        """truth value of comparison c as a function of FITS = (total_length <= mtu): True / False / None (not a
        function of it, e.g. a strict comparison)."""
        if c[0] != "bin" or c[1] not in ("Le", "Lt", "Ge", "Gt"):
            return "other"
        a, b = S.lin(c[2]), S.lin(c[3])
        if (a, b) == (tl, mtu):
            return {"Le": True, "Gt": False}.get(c[1])
        if (a, b) == (mtu, tl):
            return {"Ge": True, "Lt": False}.get(c[1])
        return "other"

    # ---------------------------------------------------------------- F-DECIDE
    probs = []
    leaves = {}
    strict = []
    for fits in (True, False):
        for may in (True, False):
            def f(x, fits=fits, may=may):
                r = fits_atom(x, TL(H), S.lin(M))
                if r is None:
                    strict.append(S.term_str(x))
                    return ("bool", fits)
                if r != "other":
                    return ("bool", fits if r else not fits)
                if x[0] == "call" and x[1].rsplit("::", 1)[-1] == "may_fragment" and x[2] == (("field", H, "flags"),):
                    return ("bool", may)
                return None
            leaves[(fits, may)] = S.subst(top, f)
    if strict:
        probs.append("the datagram is tested with %s: a datagram of exactly MTU octets is no longer passed through unchanged" % strict[0])
    DONT = ("agg", "elvis_core::protocols::ipv4::fragmentation::Fragments::DontFragment", (("pair", H, B),))
    undecided = [c for c in S.atoms(leaves[(True, True)], lambda x: x[0] == "ite")]
    if undecided:
        probs.append("whether a datagram is passed through is decided by %s instead of by total_length <= mtu: a datagram that fits the MTU can be fragmented or discarded" % S.term_str(undecided[0][1])[:200])
    for may in (True, False):
        l = leaves[(True, may)]
        if l != DONT and not undecided:
            probs.append("a datagram that fits the MTU yields %s instead of DontFragment with the unmodified (header, body)" % S.term_str(l)[:160])
    l = leaves[(False, False)]
    if undecided:
        pass
    elif not (l[0] == "variant" and l[2] == "Discard"):
        probs.append("a datagram that does not fit and has DF set yields %s instead of Discard" % S.term_str(l)[:160])
    l = leaves[(False, True)]
    frag_ok = l[0] == "agg" and l[1].endswith("Fragments::Fragmented") and len(l[2]) == 1
    if undecided:
        fl = [x for x in S.atoms(l, lambda y: y[0] == "agg" and y[1].endswith("Fragments::Fragmented"))]
        if fl:
            l, frag_ok = fl[0], True
    if not frag_ok and not undecided:
        probs.append("a datagram that does not fit and may be fragmented yields %s instead of Fragmented" % S.term_str(l)[:160])
    (ctx.bad if probs else ctx.ok)("F-DECIDE", "F-DECIDE:fragment", fr.span, "; ".join(probs) if probs else
        "(fits) -> DontFragment(unmodified); (does not fit, DF) -> Discard; (does not fit, may fragment) -> Fragmented")
    probs = []
    if frag_ok:
        v = l[2][0]
        # Fragmentation::new(mtu, ..) may take further arguments (a capacity hint, say): it is checked below that the
        # instance it returns starts with no fragments and that very mtu
        shape_ok = v[0] == "field" and v[2] == "fragments" and v[1][0] == "upd" and v[1][1] == ff.key and v[1][2] == 0 and len(v[1][3]) == 3 \
            and v[1][3][1:] == (H, B) and v[1][3][0][0] == "call" and v[1][3][0][1] == newf.key and v[1][3][0][2][:1] == (M,)
        if not shape_ok:
            probs.append("Fragmented carries %s, expected the fragments produced by Fragmentation::new(mtu).fragment(header, body)" % S.term_str(v)[:200])
    else:
        probs.append("no Fragmented result to inspect")
    nm = S.params_of(newf)[0]
    adt = prog.adt("fragmentation::Fragmentation")
    fnames = [f["name"] for f in adt["variants"][0]["fields"]]
    if not (newt[0] == "agg" and len(newt[2]) == len(fnames) and dict(zip(fnames, newt[2])).get("mtu") == nm):
        probs.append("Fragmentation::new(mtu) does not store the given mtu (%s)" % S.term_str(newt)[:120])
    (ctx.bad if probs else ctx.ok)("F-DECIDE", "F-DECIDE:fragment->Fragmentation", fr.span, "; ".join(probs) if probs else "Fragmented(Fragmentation::new(mtu).fragment(header, body))")

    # ---------------------------------------------------------------- F-MF / F-UNIT on the recursive step
    SELF, RH, RB = S.params_of(ff)
    MTU = S.lin(("field", SELF, "mtu"))
    IHL4 = S.lin(("bin", "Mul", ("field", RH, "ihl"), ("const", 4)))
    FRAGS = ("field", SELF, "fragments")
    mf_probs, unit_probs = [], []
    strict = []
    branch = {}
    for fits in (True, False):
        def f(x, fits=fits):
            r = fits_atom(x, TL(RH), MTU)
            if r is None:
                strict.append(S.term_str(x))
                return ("bool", fits)
            if r != "other":
                return ("bool", fits if r else not fits)
            return None
        branch[fits] = S.subst(rec, f)
    if strict:
        unit_probs.append("the recursion stops on %s: a remainder of exactly MTU octets is split again" % strict[0])

    def final_self(t):
        if t[0] != "state":
            return None
        for p_, v in t[2]:
            if p_ == SELF:
                return v
        return None

    def pushed(selft):
        """self{fragments: push!(self.fragments, X)} -> X"""
        root, fs = S.with_fields(selft)
        if root != SELF or set(fs) != {"fragments"}:
            return None
        u = fs["fragments"]
        if u[0] == "upd" and u[1].rsplit("::", 1)[-1] == "push" and u[2] == 0 and len(u[3]) == 2 and u[3][0] == FRAGS:
            return u[3][1]
        return None

    # the piece that already fits is stored as it is (MF <- OMF)
    fs_ = final_self(branch[True])
    x = pushed(fs_) if fs_ is not None else None
    if x is None:
        unit_probs.append("a piece that fits is not pushed onto the fragment list (%s)" % S.term_str(branch[True])[:160])
    elif x != ("pair", RH, RB):
        root, hf = S.with_fields(x[1]) if x[0] == "pair" else (None, {})
        if "flags" in hf:
            mf_probs.append("the more-fragments flag of a piece that already fits is overwritten (%s): a middle fragment that is fragmented again marks its last piece as the end of the original datagram" % S.term_str(hf["flags"])[:120])
        else:
            unit_probs.append("a piece that fits is stored modified: %s" % S.term_str(x)[:200])
    # the split
    fs_ = final_self(branch[False])
    ok_shape = fs_ is not None and fs_[0] == "upd" and fs_[1] == ff.key and fs_[2] == 0 and len(fs_[3]) == 3
    if not ok_shape:
        unit_probs.append("a datagram that does not fit is not split into a first piece plus a recursively fragmented remainder (%s)" % S.term_str(branch[False])[:200])
    else:
        self1, h2, b2 = fs_[3]
        first = pushed(self1)
        if first is None or first[0] != "pair":
            unit_probs.append("the first piece is not pushed before the remainder is fragmented")
        else:
            h1, b1 = first[1], first[2]
            r1, f1 = S.with_fields(h1)
            r2, f2 = S.with_fields(h2)
            if r1 != RH or r2 != RH:
                unit_probs.append("the pieces do not carry copies of the original header")
            # NFB: whatever the code uses must be (mtu - ihl*4)/8
            nfb = ("divc", (tuple(sorted(MTU[0] + tuple((a_, -c_) for a_, c_ in IHL4[0]), key=repr)), (MTU[1] - IHL4[1]) % S.M32), 8)
            NFB = (((nfb, 1),), 0)
            NFB8 = (((nfb, 8),), 0)
            add = lambda a_, b_, sg=1: S.lin(("bin", "Add" if sg > 0 else "Sub", ("lin", a_), ("lin", b_)))
            # -- MF
            fl = f1.get("flags")
            want_fl = ("upd", None, 0, (("field", RH, "flags"), ("bool", False)))
            if not (fl and fl[0] == "upd" and fl[1].rsplit("::", 1)[-1] == "set_is_last_fragment" and fl[3] == want_fl[3]):
                mf_probs.append("the first piece does not get MF set on its header copy (flags = %s)" % (S.term_str(fl) if fl else "unchanged"))
            if "flags" in f2:
                mf_probs.append("the more-fragments flag of the remainder is overwritten (%s); RFC 791: MF <- OMF" % S.term_str(f2["flags"])[:120])
            # -- units
            def cut_of(t_, kind):
                return t_[0] == kind and t_[1].rsplit("::", 1)[-1] == "cut" and ((kind == "call" and t_[2][0] == RB and S.lin(t_[2][1]) == NFB8) or
                                                                               (kind == "upd" and t_[2] == 0 and t_[3][0] == RB and S.lin(t_[3][1]) == NFB8))
            if not cut_of(b1, "call"):
                unit_probs.append("the first piece's payload is %s, expected the first NFB*8 = 8*((mtu - ihl*4)/8) octets of the body" % S.term_str(b1)[:160])
            if not cut_of(b2, "upd"):
                unit_probs.append("the remainder's payload is %s, expected the body after cutting NFB*8 octets" % S.term_str(b2)[:160])
            exp1 = {"total_length": _lin_add(IHL4, NFB8)}
            exp2 = {"total_length": _lin_add(TL(RH), NFB8, -1), "fragment_offset": _lin_add(S.lin(("field", RH, "fragment_offset")), NFB)}
            for who, got, exp in (("first piece", f1, exp1), ("remainder", f2, exp2)):
                for fld, e in exp.items():
                    g_ = got.get(fld)
                    if g_ is None or S.lin(g_) != e:
                        unit_probs.append("%s: %s = %s, RFC 791 prescribes %s" % (who, fld, S.term_str(g_) if g_ else "unchanged", S.lin_str(e)))
                extra = set(got) - set(exp) - {"flags"}
                if extra:
                    unit_probs.append("%s: header fields %s are rewritten (all other fields must be preserved)" % (who, sorted(extra)))
    (ctx.bad if mf_probs else ctx.ok)("F-MF", "F-MF:Fragmentation::fragment", ff.span, "; ".join(mf_probs) if mf_probs else
        "first piece = header copy with MF set; the remainder and a piece that already fits keep the MF they arrived with")
    # no other writer of MF in the module
    others = []
    for b in prog.bodies.values():
        if b.key.startswith("elvis_core::protocols::ipv4::fragmentation") and b.key != ff.key and "::tests" not in b.key:
            others += [(b, bb) for bb, t in K.calls(b) if (F.callee(t) or {}).get("pretty", "").endswith("ControlFlags::set_is_last_fragment")]
    (ctx.bad if others else ctx.ok)("F-MF", "F-MF:other-writers", ff.span,
        "MF is also written in %s" % others[0][0].pretty if others else "no other writer of MF in fragmentation.rs")
    (ctx.bad if unit_probs else ctx.ok)("F-UNIT", "F-UNIT:Fragmentation::fragment", ff.span, "; ".join(unit_probs) if unit_probs else
        "NFB = (mtu - IHL*4)/8; first piece = (header{MF, TL = IHL*4 + NFB*8}, body[..NFB*8]); remainder = (header{TL - NFB*8, FO + NFB}, rest), fragmented again; a fitting piece is stored unchanged")


def _lin_add(a, b, sign=1):
    co = dict(a[0])
    for t_, c_ in b[0]:
        co[t_] = co.get(t_, 0) + sign * c_
    return (tuple(sorted(((t_, c_) for t_, c_ in co.items() if c_), key=repr)), (a[1] + sign * b[1]) % (1 << 32))


def f_panic(ctx):
    """P-PANIC on the sending side: every arithmetic overflow, division, index, unwrap and Message contract reachable
    from fragment() inside the fragmentation module is discharged by the interval analysis (IHL = 5, TL and FO in the
    decoder's ranges) or by a reviewed entry of tables/panic_c10.json; a new undischarged site means some (header,
    MTU) in the property's domain makes fragment() panic instead of returning a partition."""
    from . import panic_common as PC
    prog = ctx.prog()
    fr = prog.one("protocols::ipv4::fragmentation::fragment")
    st = PC.scan(ctx, "P-PANIC", [fr.key], lambda k: k.startswith("elvis_core::protocols::ipv4::fragmentation"), PC.load_table("panic_c10.json"))
    ctx.require(st["sites"] >= 10, "P-PANIC: only %d sites enumerated on the fragmentation path" % st["sites"])


def f_flags(ctx):
    """F-FLAGS: the DF / MF accessors of ControlFlags, reduced to formulas and evaluated on every value of the flag byte
    (bit 1 = DF, bit 0 = MF as the decoder stores them): may_fragment <=> DF clear, is_last_fragment <=> MF clear, whatever
    the other bit is; the setters change exactly their own bit; new() puts both bits in place."""
    from .. import symx as S
    prog = ctx.prog()
    probs = []
    n = 0

    def formula(name):
        b = prog.method("ControlFlags", name)
        t, _ = S.extract(prog, b, effects=True)
        return b, t

    def byte_env(b, v, extra=None):
        me = S.params_of(b)[0]
        env = {("field", me, "0"): v, ("field", ("deref", me), "0"): v}
        env.update(extra or {})
        return env
    for name, bit in (("may_fragment", 1), ("is_last_fragment", 0)):
        try:
            b, t = formula(name)
        except (S.Unsupported, F.AnchorMissing) as e:
            ctx.require(False, "F-FLAGS: cannot extract ControlFlags::%s (%s)" % (name, e))
        for v in range(8):
            try:
                r = S.concrete(t, byte_env(b, v), 8)
            except (KeyError, S.Panics) as e:
                probs.append("ControlFlags::%s cannot be evaluated for flags %s (%r)" % (name, bin(v), e))
                break
            n += 1
            if bool(r) != (((v >> bit) & 1) == 0):
                probs.append("ControlFlags::%s() is %s for the flag bits %s (DF=%d MF=%d): it must depend on %s alone%s" % (
                    name, bool(r), format(v, "03b"), (v >> 1) & 1, v & 1, "DF" if bit == 1 else "MF",
                    " - an oversize fragment that forbids fragmentation is split instead of discarded" if name == "may_fragment" else ""))
                break
    for name, bit in (("set_may_fragment", 1), ("set_is_last_fragment", 0)):
        try:
            b, t = formula(name)
        except (S.Unsupported, F.AnchorMissing) as e:
            ctx.require(False, "F-FLAGS: cannot extract ControlFlags::%s (%s)" % (name, e))
        me, val = S.params_of(b)[0], S.params_of(b)[1]
        for v in range(4):
            for flag in (False, True):
                fin = None
                for leaf in [t]:
                    if leaf[0] == "state":
                        fin = dict(leaf[2]).get(me)
                if fin is None:
                    probs.append("ControlFlags::%s does not write the flags" % name)
                    break
                newv = S.with_fields(fin)[1].get("0")
                try:
                    r = int(S.concrete(newv, byte_env(b, v, {val: flag}), 8))
                except (KeyError, S.Panics, TypeError) as e:
                    probs.append("ControlFlags::%s cannot be evaluated (%r)" % (name, e))
                    break
                n += 1
                want = (v & ~(1 << bit)) | ((0 if flag else 1) << bit)
                if r != want:
                    probs.append("ControlFlags::%s(%s) turns the flag bits %s into %s, expected %s" % (name, flag, format(v, "02b"), format(r, "02b"), format(want, "02b")))
                    break
    ctx.require(n >= 16 or probs, "F-FLAGS: only %d evaluations" % n)
    b = prog.method("ControlFlags", "may_fragment")
    (ctx.bad if probs else ctx.ok)("F-FLAGS", "F-FLAGS:ControlFlags", b.span, "; ".join(probs[:2]) if probs else
        "may_fragment <=> DF clear and is_last_fragment <=> MF clear on all flag values; the setters change their own bit only (%d evaluations)" % n)
