"""C10 — IPv4 fragmentation produces a faithful partition of the datagram (DESIGN.md §4 C10)."""
from .. import facts as F
from ..cfg import cfg
from .. import dep
from . import common as K

LEVEL = "other"
EXPLANATION = (
    "Decision-table, must-pass-through and expression-structure rules on fragmentation.rs: (F-DECIDE) fragment() "
    "returns DontFragment with its unmodified arguments exactly on the branch total_length <= mtu, Discard exactly when "
    "the datagram does not fit and DF is set, Fragmented otherwise; (F-MF) each split pushes a first piece whose copied "
    "header had set_is_last_fragment(false) applied, the remainder's flags are never written and MF has no other "
    "writer in the module, so by induction over the recursion MF is set on all pieces but the one ending the original "
    "datagram, also under repeated fragmentation; (F-UNIT) the cut length, the first piece's total_length, the "
    "remainder's total_length and the offset increment are the expressions NFB*8, IHL*4+NFB*8, TL-(NFB*8+..) and "
    "FO+NFB over the same NFB = (mtu - IHL*4)/8. Not decided: that pieces fit the MTU, are contiguous and carry the right "
    "bytes for all lengths/MTUs (16-bit arithmetic with recursion).")
ASSUMPTIONS = ["Message::cut(n) splits off exactly the first n bytes (C07, not decided numerically)"]

FRAGS = "fragmentation::Fragments"


def run(ctx):
    prog = ctx.prog()
    fr = prog.one("protocols::ipv4::fragmentation::fragment")
    g = cfg(fr)
    # ---------------------------------------------------------------- F-DECIDE
    probs = []
    dont = K.aggregates(fr, FRAGS, "DontFragment")
    disc = K.aggregates(fr, FRAGS, "Discard")
    frag = K.aggregates(fr, FRAGS, "Fragmented")
    if len(dont) != 1 or len(disc) != 1 or len(frag) != 1:
        probs.append("expected one construction each of DontFragment, Discard, Fragmented (found %d, %d, %d)" % (len(dont), len(disc), len(frag)))
    else:
        fit = None
        for s in range(len(fr.blocks)):
            if fr.is_cleanup(s) or fr.term(s)[0] != "switch":
                continue
            info = K.compare_info(fr, s)
            if info:
                ta, tb = dep.expr_tree(fr, info["a"]), dep.expr_tree(fr, info["b"])
                sa, sb = dep.tree_str(ta), dep.tree_str(tb)
                if {sa, sb} == {"header.total_length", "mtu"}:
                    for succ in (info["true"], info["false"]):
                        rel = K.relation_on(info, succ)
                        if rel and rel[0] == "Le" and dep.tree_str(dep.expr_tree(fr, rel[1])) == "header.total_length":
                            fit = (s, succ, info["false"] if succ == info["true"] else info["true"])
        if fit is None:
            probs.append("no branch establishes exactly header.total_length <= mtu")
        else:
            s, fits, nofit = fit
            if not g.dominates(fits, dont[0][0]) or g.reaches(nofit, dont[0][0]):
                probs.append("DontFragment is not returned exactly on the `fits` branch")
            if g.reaches(fits, disc[0][0]) or g.reaches(fits, frag[0][0]):
                probs.append("a datagram that fits can be discarded or fragmented")
            # unmodified arguments
            st = dont[0][1]
            o = dep.origins(fr, st[2][2][0], at=K.at_stmt(fr, dont[0][0], st), through_calls=False)
            if not (dep.has_param(o, "header") and dep.has_param(o, "body")) or any(a[0] in ("op", "call", "const") for a in o):
                probs.append("DontFragment does not carry the unmodified (header, body)")
            writes = [st2 for bb, blk in enumerate(fr.blocks) if not blk["c"] and g.dominates(bb, dont[0][0]) for st2 in blk["s"] if st2[0] == "a" and st2[1][0] in (1, 2) and st2[1][1]]
            if writes:
                probs.append("header/body are modified before DontFragment is returned")
            df = None
            for s2 in range(len(fr.blocks)):
                if fr.is_cleanup(s2) or fr.term(s2)[0] != "switch":
                    continue
                c = dep.switch_condition(fr, s2)
                if c and c["kind"] == "call" and (F.callee_key(c["term"]) or "").endswith("{impl#2}::may_fragment") or (c and c["kind"] == "call" and (F.callee(c["term"]) or {}).get("pretty", "").endswith("ControlFlags::may_fragment")):
                    if dep.tree_str(dep.expr_tree(fr, F.call_args(c["term"])[0])) == "header.flags":
                        tr, fa = dep.bool_branches(fr, s2)
                        df = (s2, tr, fa)
            if df is None:
                probs.append("no branch on header.flags.may_fragment()")
            else:
                s2, may, maynot = df
                if not g.dominates(nofit, s2):
                    probs.append("the DF test is not under the `does not fit` branch")
                if not g.dominates(maynot, disc[0][0]) or g.reaches(may, disc[0][0]):
                    probs.append("Discard is not returned exactly when the datagram does not fit and DF is set")
                if not g.dominates(may, frag[0][0]) or g.reaches(maynot, frag[0][0]):
                    probs.append("Fragmented is not returned exactly when the datagram does not fit and may be fragmented")
    (ctx.bad if probs else ctx.ok)("F-DECIDE", "F-DECIDE:fragment", fr.span, "; ".join(probs) if probs else
        "(fits) -> DontFragment(unmodified); (does not fit, DF) -> Discard; (does not fit, may fragment) -> Fragmented")
    # the Fragmented value is the recursion's output for the same header/body/mtu
    ff = prog.method("Fragmentation", "fragment")
    probs = []
    calls = K.calls_to(fr, ff.key)
    if len(calls) != 1:
        probs.append("fragment() does not run Fragmentation::fragment exactly once")
    else:
        a1 = dep.tree_str(dep.expr_tree(fr, F.call_args(calls[0][1])[1]))
        a2 = dep.tree_str(dep.expr_tree(fr, F.call_args(calls[0][1])[2]))
        if (a1, a2) != ("header", "body"):
            probs.append("Fragmentation::fragment is not given the original (header, body) but (%s, %s)" % (a1, a2))
        nw = K.calls_to(fr, "fragmentation::{impl#0}::new")
        if len(nw) != 1 or dep.tree_str(dep.expr_tree(fr, F.call_args(nw[0][1])[0])) != "mtu":
            probs.append("Fragmentation is not created for the given mtu")
    (ctx.bad if probs else ctx.ok)("F-DECIDE", "F-DECIDE:fragment->Fragmentation", fr.span, "; ".join(probs) if probs else "Fragmented(Fragmentation::new(mtu).fragment(header, body))")

    # ---------------------------------------------------------------- F-MF / F-UNIT
    fg = cfg(ff)
    probs = []
    mf = [(bb, t) for bb, t in K.calls(ff) if (F.callee(t) or {}).get("pretty", "").endswith("ControlFlags::set_is_last_fragment")]
    cuts = K.calls_to(ff, "message::{impl#0}::cut")
    pushes = [(bb, t) for bb, t in K.calls(ff) if "vec::Vec" in (F.callee(t) or {}).get("pretty", "") and (F.callee(t) or {}).get("pretty", "").endswith("::push")]
    rec = K.calls_to(ff, ff.key)
    hdr_param = 2   # (self, header, body)
    # every write of MF: only `set_is_last_fragment(false)` (MF <- 1) on a *copy* of the header; the header that is carried
    # forward (the remainder, and a piece that already fits) keeps the MF it arrived with (RFC 791: MF <- OMF)
    bad_mf = []
    for bb, t in mf:
        t0 = dep.expr_tree(ff, F.call_args(t)[0])
        on_param = t0[0] == "field" and t0[1][0] == "var" and t0[1][2] == hdr_param
        if on_param:
            bad_mf.append("the more-fragments flag of the datagram being carried forward is overwritten at %s (%s): a middle fragment that is fragmented again would mark its last piece as the end of the original datagram" % (
                F.call_loc(t), "cleared" if F.const_int(F.call_args(t)[1]) == 1 else "set" if F.const_int(F.call_args(t)[1]) == 0 else "written"))
        elif F.const_int(F.call_args(t)[1]) != 0:
            bad_mf.append("set_is_last_fragment at %s is not called with the constant `false`" % F.call_loc(t))
    good_mf = [x for x in mf if not any(F.call_loc(x[1]) in m for m in bad_mf)]
    if bad_mf:
        ctx.bad("F-MF", "F-MF:Fragmentation::fragment", ff.span, "; ".join(bad_mf))
    elif len(good_mf) != 1 or len(cuts) != 1 or len(rec) != 1 or len(pushes) != 2:
        probs.append("unexpected shape: %d set_is_last_fragment, %d cut, %d recursive calls, %d pushes" % (len(mf), len(cuts), len(rec), len(pushes)))
        ctx.bad("F-MF", "F-MF:Fragmentation::fragment", ff.span, "; ".join(probs))
    else:
        mbb, mt = mf[0]
        if F.const_int(F.call_args(mt)[1]) != 0:
            probs.append("set_is_last_fragment is not called with `false` on the first piece")
        t0 = dep.expr_tree(ff, F.call_args(mt)[0])
        copy_local = t0[1][2] if t0[0] == "field" and t0[1][0] == "var" else None
        if copy_local is None or copy_local == hdr_param or dep.tree_str(t0) != "header.flags":
            probs.append("MF is not set on a copy of the header (it is set on %s)" % dep.tree_str(t0))
        # the piece pushed after the cut carries that copy
        split_push = [(bb, t) for bb, t in pushes if fg.dominates(cuts[0][0], bb)]
        fit_push = [(bb, t) for bb, t in pushes if not fg.dominates(cuts[0][0], bb)]
        if len(split_push) != 1 or len(fit_push) != 1:
            probs.append("expected one push for the fitting case and one for the first piece of a split")
        else:
            pbb, pt = split_push[0]
            if not fg.dominates(mbb, pbb):
                probs.append("the first piece is pushed before MF is set on it")
            po = dep.arg_origins(ff, pbb, 1, through_calls=False)
            tup = dep.single_def_rvalue(ff, F.op_place(F.call_args(pt)[1])[0])
            if not tup or tup[1][0] != "agg" or dep.tree_str(dep.expr_tree(ff, tup[1][2][0])) != "header" or dep.expr_tree(ff, tup[1][2][0])[2] != copy_local:
                probs.append("the first piece pushed does not carry the header copy with MF set")
            if not tup or not any(a[0] == "call" and a[2] == cuts[0][0] for a in dep.origins(ff, tup[1][2][1], at=K.at_term(ff, pbb))):
                probs.append("the first piece pushed does not carry the bytes cut off the body")
        # remainder flags never written
        for bb, blk in enumerate(ff.blocks):
            if blk["c"]:
                continue
            for st in blk["s"]:
                if st[0] == "a" and st[1][0] == hdr_param and any(f[1] == "flags" for f in F.place_fields(st[1])):
                    probs.append("the remainder's flags are written at %s" % st[3])
                if st[0] == "a" and st[2][0] == "ref" and st[2][1] == "mut" and st[2][2][0] == hdr_param and any(f[1] == "flags" for f in F.place_fields(st[2][2])):
                    probs.append("the remainder's flags are mutably borrowed at %s" % st[3])
        # recursion gets the remainder
        ra = [dep.tree_str(dep.expr_tree(ff, a)) for a in F.call_args(rec[0][1])]
        if ra[1:] != ["header", "body"] or dep.expr_tree(ff, F.call_args(rec[0][1])[1])[2] != hdr_param:
            probs.append("the recursion is not applied to the remainder (header, body)")
        (ctx.bad if probs else ctx.ok)("F-MF", "F-MF:Fragmentation::fragment", ff.span, "; ".join(probs) if probs else
            "first piece = header copy with MF set + cut bytes; remainder keeps its flags and is fragmented again")
    # no other writer of MF in the module
    others = []
    for b in prog.bodies.values():
        if b.key.startswith("elvis_core::protocols::ipv4::fragmentation") and b.key != ff.key:
            others += [(b, bb) for bb, t in K.calls(b) if (F.callee(t) or {}).get("pretty", "").endswith("ControlFlags::set_is_last_fragment")]
    (ctx.bad if others else ctx.ok)("F-MF", "F-MF:other-writers", ff.span,
        "MF is also written in %s" % others[0][0].pretty if others else "no other writer of MF in fragmentation.rs")

    # F-UNIT
    probs = []
    NFB = "((self.mtu - (4 * header.ihl)) / 8)"   # canonical operand order (commutative ops sorted)
    fb = None
    for l, (tix, name, _u) in enumerate(ff.locals):
        if name == "fragment_blocks":
            fb = l
    if fb is None:
        probs.append("local fragment_blocks not found")
    else:
        r = dep.single_def_rvalue(ff, fb)
        e = dep.tree_str(dep.expr_tree(ff, ["cp", [fb, []]], depth=20)) if r is None else dep.tree_str(_rv_tree(ff, r[1]))
        if e != NFB:
            probs.append("NFB is %s, RFC 791 prescribes (MTU - IHL*4)/8" % e)
        if cuts:
            ce = dep.tree_str(dep.expr_tree(ff, F.call_args(cuts[0][1])[1], depth=20))
            if ce != "(8 * fragment_blocks)":
                probs.append("the first piece is cut at %s bytes, expected NFB*8" % ce)
            if dep.tree_str(dep.expr_tree(ff, F.call_args(cuts[0][1])[0])) != "body":
                probs.append("the cut is not taken from the datagram body")
        want = {"first.total_length": "((4 * header.ihl) + (8 * fragment_blocks))",
                "rest.total_length": "(header.total_length - (((oihl - header.ihl) * 4) + (8 * fragment_blocks)))",
                "rest.fragment_offset": "(fragment_blocks + header.fragment_offset)"}
        got = {}
        for bb, blk in enumerate(ff.blocks):
            if blk["c"]:
                continue
            for st in blk["s"]:
                if st[0] == "a" and F.place_fields(st[1]) and F.place_fields(st[1])[-1][0].endswith("Ipv4Header") and st[2][0] == "use":
                    fld = F.place_fields(st[1])[-1][1]
                    who = "rest" if st[1][0] == hdr_param else "first"
                    got["%s.%s" % (who, fld)] = dep.tree_str(dep.expr_tree(ff, st[2][1], depth=20))
        for k, v in want.items():
            if got.get(k) != v:
                probs.append("%s = %s, expected %s" % (k, got.get(k), v))
        extra = set(got) - set(want)
        if extra:
            probs.append("unexpected header fields rewritten: %s" % sorted(extra))
    (ctx.bad if probs else ctx.ok)("F-UNIT", "F-UNIT:Fragmentation::fragment", ff.span, "; ".join(probs) if probs else
        "NFB = (mtu - IHL*4)/8; cut NFB*8; first.TL = IHL*4 + NFB*8; rest.TL -= NFB*8 + (OIHL-IHL)*4; rest.FO += NFB")


def _rv_tree(body, rv):
    if rv[0] == "use":
        return dep.expr_tree(body, rv[1], 20)
    if rv[0] == "bin":
        return ("bin", rv[1].replace("WithOverflow", ""), dep.expr_tree(body, rv[2], 20), dep.expr_tree(body, rv[3], 20))
    if rv[0] == "cast":
        return ("cast", dep.expr_tree(body, rv[2], 20))
    return ("?",)
