"""C08 — header codecs round-trip and match the RFC wire formats: layout agreement (DESIGN.md §4 C08)."""
from .. import facts as F
from ..cfg import cfg
from .. import dep, wire
from . import common as K

LEVEL = "other"
EXPLANATION = (
    "Dependence-based layout agreement of sibling functions (W-LAYOUT): each encoder is reduced to the ordered list of "
    "appends to its output buffer (width in bytes, header fields the bytes originate from) and each decoder to the "
    "ordered list of reads from the byte iterator (width, result fields that originate from the read); per codec "
    "(IPv4, UDP, TCP, ARP, DNS, DHCP) both lists must denote the same byte map (same offsets, widths and fields, "
    "variable-length regions with the same delimiter / count field), and for IPv4/UDP/TCP/ARP the map must equal the "
    "frozen RFC 791 / 768 / 9293 / 826 table. (W-PURE) for the loop-free decoders (IPv4, UDP, TCP, ARP), reduced to formulas, every field of an accepted header is a fixed projection of the bytes read - never replaced or normalised depending on other fields; (W-ACCEPT) the IPv4 and UDP decoders, as formulas, accept every critical combination of length / offset values inside the range the encoders can emit (20 <= TL, FO*8 + TL - 20 <= 65515; UDP length >= 8); (W-NOTRUNC) narrowing integer casts on the encode path are listed and "
    "must be range-safe or tabled. Catches swapped, missing, duplicated or mis-sized fields, a field decoded into the "
    "wrong member, a dropped delimiter. Not decided: bit packing inside a position, value round-trip, equality with an "
    "independent implementation (value-level).")
ASSUMPTIONS = ["BytesExt::next_* read exactly the named number of bytes in network order", "to_be_bytes / extend_from_slice / push append exactly those bytes"]

# canonical layouts: (width | "str" (delimited string) | "counted" (length-prefixed region), field)
RFC = {
    "ipv4": [(1, "ihl"), (1, "type_of_service"), (2, "total_length"), (2, "identification"), (2, "flags+fragment_offset"),
             (1, "time_to_live"), (1, "protocol"), (2, "checksum"), (4, "source"), (4, "destination")],
    "udp": [(2, "source"), (2, "destination"), (2, "length"), (2, "checksum")],
    "tcp": [(2, "src_port"), (2, "dst_port"), (4, "seq"), (4, "ack"), (2, "ctl+data_offset"), (2, "wnd"), (2, "checksum"), (2, "urg")],
    "arp": [(2, "htype"), (2, "ptype"), (1, "hlen"), (1, "plen"), (2, "oper"), (6, "sender_mac"), (4, "sender_ip"), (6, "target_mac"), (4, "target_ip")],
}
ENC_ALIAS = {
    "ipv4": {"payload_length": "total_length", "": "ihl"},
    "udp": {"source_port": "source", "destination_port": "destination", "text_len": "length"},
}


def _merge_to_bytes(items):
    """[(width, frozenset(fields))] -> byte offset map {offset: fields} for fixed-width items (stops at the first variable item)."""
    out = []
    off = 0
    for w, f in items:
        if not isinstance(w, int):
            out.append(("var", w, f))
            continue
        out.append((off, w, f))
        off += w
    return out


def _coarsen(a, b):
    """Merge adjacent fixed items of two item lists until their boundaries coincide; returns two aligned lists."""
    ra, rb = [], []
    i = j = 0
    while i < len(a) and j < len(b):
        wa, fa = a[i]
        wb, fb = b[j]
        if not isinstance(wa, int) or not isinstance(wb, int):
            ra.append((wa, fa))
            rb.append((wb, fb))
            i += 1
            j += 1
            continue
        fa, fb = set(fa), set(fb)
        while wa != wb:
            if wa < wb and i + 1 < len(a) and isinstance(a[i + 1][0], int):
                i += 1
                wa += a[i][0]
                fa |= set(a[i][1])
            elif wb < wa and j + 1 < len(b) and isinstance(b[j + 1][0], int):
                j += 1
                wb += b[j][0]
                fb |= set(b[j][1])
            else:
                break
        ra.append((wa, frozenset(fa)))
        rb.append((wb, frozenset(fb)))
        i += 1
        j += 1
    ra += a[i:]
    rb += b[j:]
    return ra, rb


def enc_items(ctx, prog, body, codec, prefix=None):
    out, tr = wire.encoder_trace(prog, body)
    wire.resolve_widths(prog, body, tr)
    items = []
    alias = ENC_ALIAS.get(codec, {})
    for e in tr:
        names = [n for n in e["names"] if n not in ("message", "header", "question", "answer", "self")]
        w = e["width"]
        if "as_u16" in e["calls"] and len(names) >= 3:
            names = ["checksum"]           # the computed checksum depends on every covered field
        if not names and w == 1 and e["expr"].isdigit():
            items.append(("const", int(e["expr"])))
            continue
        if w is None and any(c in ("build",) for c in e["calls"]):
            items.append(("sub", e))       # composed sub-encoder
            continue
        if w == "var" or w is None:
            # Vec::from([b' ']) delimiter or a variable-length field
            if not names and "from" in e["calls"]:
                items.append(("const", _const_of_vec_from(body, e)))
                continue
            items.append(("var", frozenset(alias.get(n, n) for n in names)))
            continue
        if not names:
            names = [""]
        items.append((w, frozenset(alias.get(n, n) for n in names)))
    return items, tr


def _const_of_vec_from(body, e):
    # `Vec::from([b' '])`: the array literal feeding the append
    for blk in body.blocks:
        for st in blk["s"]:
            if st[0] == "a" and st[2][0] == "agg" and st[2][1]["k"] == "array" and len(st[2][2]) == 1 and st[3] == e["loc"]:
                v = F.const_int(st[2][2][0])
                if v is not None:
                    return v
    return None


def dec_items(prog, body):
    reads = wire.decoder_trace(prog, body)
    items = []
    i = 0
    while i < len(reads):
        r = reads[i]
        fields = frozenset(f.split(".", 1)[1] for f in r["fields"] if not f.split(".", 1)[0].endswith("Message") or True)
        # drop container fields (DnsMessage.header etc.)
        fields = frozenset(f.split(".", 1)[1] for f in r["fields"] if f.split(".", 1)[1] not in ("header", "question", "answer"))
        if len(fields) > 1 and "checksum" in fields:
            fields = fields - {"checksum"}       # a computed checksum stored back depends on every read
        if not r["in_loop"] and i + 1 < len(reads) and reads[i + 1]["in_loop"] and r["width"] == 1 and reads[i + 1]["width"] == 1:
            nf = frozenset(f.split(".", 1)[1] for f in reads[i + 1]["fields"] if f.split(".", 1)[1] not in ("header", "question", "answer"))
            if nf == fields:
                items.append(("str", fields, _loop_delimiter(body, reads[i + 1]["bb"])))
                i += 2
                continue
        if r["in_loop"]:
            items.append(("counted", fields))
            i += 1
            continue
        if not fields:
            fields = _checked_equal_to_field(prog, body, r["bb"])
        items.append((r["width"], fields))
        i += 1
    return items, reads


def _checked_equal_to_field(prog, body, read_bb):
    """A value that is read but not stored: if every Ok result is dominated by the branch on which the read value
    equals a value that IS stored into field X (e.g. expected checksum == computed checksum), attribute the read to X."""
    g = cfg(body)
    aggs = [(bb, st) for bb, blk in enumerate(body.blocks) if not blk["c"] for st in blk["s"]
            if st[0] == "a" and st[2][0] == "agg" and st[2][1]["k"] == "adt" and not st[2][1].get("enum") and st[2][1]["d"].startswith("elvis_core::")]
    for s in range(len(body.blocks)):
        if body.is_cleanup(s) or body.term(s)[0] != "switch":
            continue
        info = K.compare_info(body, s)
        if not info or info["op"] not in ("Eq", "Ne"):
            continue
        at = K.at_term(body, s)
        stop = ["::next_u8", "::next_u16_be", "::next_u32_be", "::next_n", "::accumulate_remainder", "::add_u8", "::add_u16", "::add_u32", "::as_u16"]
        oa = dep.origins(body, info["a"], at=at, stop_at_call=stop)
        ob = dep.origins(body, info["b"], at=at, stop_at_call=stop)
        side = None
        if any(a[0] == "call" and a[2] == read_bb for a in oa) and not any(a[0] == "call" and a[2] == read_bb for a in ob):
            side = info["b"]
        elif any(a[0] == "call" and a[2] == read_bb for a in ob) and not any(a[0] == "call" and a[2] == read_bb for a in oa):
            side = info["a"]
        if side is None:
            continue
        rel = K.relation_on(info, info["true"])
        eqb = info["true"] if rel and rel[0] == "Eq" else info["false"]
        sp = F.op_place(dep.resolve_copy(body, side))
        for bb, st in aggs:
            if not g.dominates(eqb, bb):
                continue
            for fname, op in zip(st[2][1]["fields"], st[2][2]):
                if sp is not None and F.op_place(dep.resolve_copy(body, op)) == sp:
                    return frozenset([fname])
    return frozenset()


def _loop_delimiter(body, read_bb):
    """Constant the loop around read_bb compares the current byte with (while current != DELIM)."""
    g = cfg(body)
    for s in range(len(body.blocks)):
        if body.is_cleanup(s) or body.term(s)[0] != "switch" or not g.in_loop(s):
            continue
        if not (g.reaches(s, read_bb) and g.reaches(read_bb, s)):
            continue
        info = K.compare_info(body, s)
        if info and info["op"] in ("Eq", "Ne"):
            for x in (info["a"], info["b"]):
                v = F.const_int(dep.resolve_copy(body, x))
                if v is not None:
                    return v
    return None


def normalise_enc(items):
    """Fold ("var", F) + ("const", d) into ("str", F, d) and a trailing var after a length field into ("counted", F)."""
    out = []
    i = 0
    while i < len(items):
        it = items[i]
        if it[0] == "var" and i + 1 < len(items) and items[i + 1][0] == "const":
            out.append(("str", it[1], items[i + 1][1]))
            i += 2
            continue
        if it[0] == "var":
            out.append(("counted", it[1]))
            i += 1
            continue
        out.append(it)
        i += 1
    return out


def compare(ctx, codec, enc, dec, loc):
    """enc/dec: normalised item lists."""
    fe = [x for x in enc]
    fd = [x for x in dec]
    # align fixed runs
    ae, ad = _coarsen([(x[0], x[1]) if isinstance(x[0], int) else (x, frozenset()) for x in fe],
                      [(x[0], x[1]) if isinstance(x[0], int) else (x, frozenset()) for x in fd])
    probs = []
    if len(ae) != len(ad):
        probs.append("encoder writes %d positions, decoder reads %d" % (len(ae), len(ad)))
    off = 0
    for k, (a, b) in enumerate(zip(ae, ad)):
        if isinstance(a[0], int) and isinstance(b[0], int):
            if a[0] != b[0]:
                probs.append("position %d (offset %d): encoder writes %d byte(s) of %s, decoder reads %d byte(s) into %s" % (k, off, a[0], sorted(a[1]), b[0], sorted(b[1])))
            elif set(a[1]) != set(b[1]):
                probs.append("position %d (offset %d, %d bytes): encoder writes %s, decoder stores it in %s" % (k, off, a[0], sorted(a[1]), sorted(b[1])))
            off += a[0]
        else:
            xa, xb = a[0], b[0]
            if not isinstance(xa, tuple) or not isinstance(xb, tuple) or xa[0] != xb[0]:
                probs.append("position %d: encoder %s vs decoder %s" % (k, _desc(xa), _desc(xb)))
            elif set(xa[1]) != set(xb[1]):
                probs.append("position %d: variable-length region of %s is decoded into %s" % (k, sorted(xa[1]), sorted(xb[1])))
            elif xa[0] == "str" and xa[2] != xb[2]:
                probs.append("position %d (%s): encoder terminates the string with byte %s, decoder stops at byte %s" % (k, sorted(xa[1]), xa[2], xb[2]))
    return probs, ae, ad


def _desc(x):
    if isinstance(x, tuple) and x and isinstance(x[0], str):
        return "%s%s" % (x[0], sorted(x[1]) if len(x) > 1 else "")
    return str(x)


# what the encoders can emit and the decoders therefore must accept (range conditions only; the critical points are
# the constants of the decoder's own conditions, the type limits and their neighbours)
ACCEPTS = (
    ("ipv4", {"fn": "elvis_core::protocols::ipv4::ipv4_parsing::{impl#0}::from_bytes", "adt": "ipv4_parsing::Ipv4Header",
              "fields": ["total_length", "fragment_offset"],
              "domain": "total_length >= 20 and fragment_offset*8 + total_length - 20 <= 65515 and (_r1 & 0x8000) == 0"}),
    ("udp", {"fn": "elvis_core::protocols::udp::udp_parsing::{impl#0}::from_bytes_ipv4", "adt": "udp_parsing::UdpHeader",
             "fields": ["length"], "domain": "length >= 8"}),
)


def ipv4_serialize_problems(ctx, prog, only=None):
    """Ipv4Header::serialize reduced to one Ipv4HeaderBuilder value (struct literal, or new(..) followed by setters, all
    inlined): every builder field must be the header field of the same name (payload_length = total_length - 20)."""
    from .. import symx as S
    ser = prog.method("Ipv4Header", "serialize")
    probs = []
    badt = prog.adt("ipv4_parsing::Ipv4HeaderBuilder")
    fnames = [f["name"] for f in badt["variants"][0]["fields"]]
    inl = [k for k, x in prog.bodies.items() if x.kind == "method" and x.self_ty is not None and x.types[x.self_ty].get("d", "") == badt["key"] and x.name != "build" and not x.derived]
    try:
        t, _ex = S.extract(prog, ser, inline=inl)
    except S.Unsupported as e:
        ctx.require(False, "cannot extract Ipv4Header::serialize (%s)" % e)
    # the value handed to build(): a struct literal or new(..) followed by setters, all reduced to one aggregate
    if not (t[0] == "call" and t[1].endswith("{impl#1}::build") and len(t[2]) == 1 and t[2][0][0] == "agg" and len(t[2][0][2]) == len(fnames)):
        probs.append("serialize is not build() of one fully determined Ipv4HeaderBuilder value: %s" % S.term_str(t)[:200])
    else:
        me = ("param", "self")
        base = prog.const_val("ipv4_parsing::BASE_OCTETS")
        for f, x in zip(fnames, t[2][0][2]):
            if only is not None and f not in only:
                continue
            if f == "payload_length":
                want = S.lin(("bin", "Sub", ("field", me, "total_length"), ("const", base)))
                if S.lin(x) != want:
                    probs.append("payload_length = %s, expected self.total_length - %d" % (S.term_str(x), base))
            elif x != ("field", me, f):
                probs.append("the re-encoded header takes %s from %s instead of the decoded header's %s" % (f, S.term_str(x), f))
    return probs


def run(ctx):
    prog = ctx.prog()
    codecs = {
        "ipv4": (prog.method("Ipv4HeaderBuilder", "build"), prog.method("Ipv4Header", "from_bytes")),
        "udp": (prog.one("protocols::udp::udp_parsing::build_udp_header"), prog.method("UdpHeader", "from_bytes_ipv4")),
        "tcp": (prog.method("TcpHeader", "serialize"), prog.method("TcpHeader", "from_bytes")),
        "arp": (prog.method("ArpPacket", "build"), prog.method("ArpPacket", "from_bytes")),
        "dhcp": (prog.method("DhcpMessage", "to_message"), prog.method("DhcpMessage", "from_bytes")),
    }
    samples = {}
    for codec, (eb, db) in codecs.items():
        ei, etr = enc_items(ctx, prog, eb, codec)
        di, dtr = dec_items(prog, db)
        ctx.require(len(ei) >= 4 and len(di) >= 4, "W-LAYOUT:%s: traces too short (enc %d, dec %d)" % (codec, len(ei), len(di)))
        ne = normalise_enc(ei)
        probs, ae, ad = compare(ctx, codec, ne, di, eb.span)
        samples[codec] = {"encoder": [_desc(x) if not isinstance(x[0], int) else "%d:%s" % (x[0], "+".join(sorted(x[1]))) for x in ae],
                          "decoder": [_desc(x) if not isinstance(x[0], int) else "%d:%s" % (x[0], "+".join(sorted(x[1]))) for x in ad]}
        (ctx.bad if probs else ctx.ok)("W-LAYOUT", "W-LAYOUT:%s" % codec, eb.span, "; ".join(probs[:4]) if probs else
            "encoder and decoder agree on %d positions (%d fixed bytes)" % (len(ae), sum(x[0] for x in ae if isinstance(x[0], int))))
        if codec in RFC:
            want = [(w, frozenset(f.split("+"))) for w, f in RFC[codec]]
            got_e, want_e = _coarsen([(x[0], x[1]) for x in ae if isinstance(x[0], int)], want)
            got_d, want_d = _coarsen([(x[0], x[1]) for x in ad if isinstance(x[0], int)], want)
            p2 = []
            for side, got, wnt in (("encoder", got_e, want_e), ("decoder", got_d, want_d)):
                if [(a[0], set(a[1])) for a in got] != [(a[0], set(a[1])) for a in wnt]:
                    for k, (a, b) in enumerate(zip(got, wnt)):
                        if a[0] != b[0] or set(a[1]) != set(b[1]):
                            p2.append("%s position %d is %d:%s, the RFC layout has %d:%s" % (side, k, a[0], "+".join(sorted(a[1])), b[0], "+".join(sorted(b[1]))))
                            break
                    else:
                        p2.append("%s has %d positions, the RFC layout %d" % (side, len(got), len(wnt)))
            (ctx.bad if p2 else ctx.ok)("W-LAYOUT", "W-LAYOUT:%s:rfc" % codec, db.span, "; ".join(p2) if p2 else "matches the frozen RFC layout (%d bytes)" % sum(w for w, _ in RFC[codec]))
    # DNS: composed of three sub-encoders
    subs = [("DnsHeader", "build"), ("DnsQuestion", "build"), ("DnsResourceRecord", "build")]
    tm = prog.method("DnsMessage", "to_message")
    order = [F.callee_key(t) for bb, t in K.calls(tm) if (F.callee_key(t) or "").endswith("::build") and "dns_parsing" in (F.callee_key(t) or "")]
    ei = []
    for who, meth in subs:
        sb = prog.method(who, meth)
        it, _ = enc_items(ctx, prog, sb, "dns")
        ei += it
    want_order = [prog.method(w, m).key for w, m in subs]
    di, _ = dec_items(prog, prog.method("DnsMessage", "from_bytes"))
    probs, ae, ad = compare(ctx, "dns", normalise_enc(ei), di, tm.span)
    if order != want_order:
        probs.insert(0, "DnsMessage::to_message does not append header, question, answer in that order")
    samples["dns"] = {"encoder": [_desc(x) if not isinstance(x[0], int) else "%d:%s" % (x[0], "+".join(sorted(x[1]))) for x in ae],
                      "decoder": [_desc(x) if not isinstance(x[0], int) else "%d:%s" % (x[0], "+".join(sorted(x[1]))) for x in ad]}
    (ctx.bad if probs else ctx.ok)("W-LAYOUT", "W-LAYOUT:dns", tm.span, "; ".join(probs[:4]) if probs else "encoder and decoder agree on %d positions" % len(ae))
    # IPv4: serialize maps header fields to builder fields one-to-one
    ser = prog.method("Ipv4Header", "serialize")
    probs = ipv4_serialize_problems(ctx, prog)
    (ctx.bad if probs else ctx.ok)("W-LAYOUT", "W-LAYOUT:ipv4:serialize", ser.span, "; ".join(probs) if probs else "Ipv4Header::serialize hands every header field to the builder field of the same name")
    ctx.extra["layouts"] = samples

    # ---------------------------------------------------------------- W-PURE
    # decoding is a projection of the bytes: no field of an accepted header is replaced or normalised depending on
    # other fields (such a decoder is not injective on the bytes it accepts, so re-encoding cannot reproduce them)
    from .. import symx as S
    for adt_s, owner, fn in (("ipv4_parsing::Ipv4Header", "Ipv4Header", "from_bytes"), ("udp_parsing::UdpHeader", "UdpHeader", "from_bytes_ipv4"),
                             ("tcp_parsing::TcpHeader", "TcpHeader", "from_bytes"), ("arp_parsing::ArpPacket", "ArpPacket", "from_bytes")):
        db = prog.method(owner, fn)
        key = "W-PURE:%s::%s" % (owner, fn)
        try:
            ex = S.Extractor(prog, (), effects=True, max_nodes=80000)
            t = ex.run(db, S.params_of(db))
        except S.Unsupported as e:
            ctx.require(False, "W-PURE: %s::%s can no longer be reduced to a formula (%s)" % (owner, fn, e))
        adt = prog.adt(adt_s)
        names = [f["name"] for f in adt["variants"][0]["fields"]]
        paths = S.ok_paths(t, lambda x: x[0] == "agg" and x[1].endswith("Result::Ok") and len(x[2]) == 1 and x[2][0][0] == "agg" and len(x[2][0][2]) == len(names))
        ctx.require(len(paths) >= 1, "W-PURE: no Ok(%s{..}) result found in %s" % (owner, fn))
        probs = []
        for conds, leaf in paths:
            for n, v in zip(names, leaf[2][0][2]):
                cond = S.atoms(v, lambda x: x[0] in ("ite", "switch"))
                if cond:
                    c = cond[0]
                    probs.append("field `%s` of the decoded header is %s: it is replaced depending on %s, so the decoded value is not what the bytes at its position say and re-encoding does not reproduce them" % (
                        n, S.term_str(c)[:60] + ("..." if len(S.term_str(c)) > 60 else ""), S.term_str(c[1])[-70:]))
        # the same across accepting paths: a field may vary from path to path only with conditions on bytes that no
        # other field is decoded from (a `match` on the field's own bytes, e.g. the ARP operation code)
        is_read = lambda x: x[0] == "field" and x[2] == "0" and x[1][0] == "downcast"
        for i, n in enumerate(names):
            terms = {}
            for conds, leaf in paths:
                terms.setdefault(leaf[2][0][2][i], []).append(conds)
            if len(terms) <= 1:
                continue
            other_reads = set()
            for conds, leaf in paths:
                for j, v in enumerate(leaf[2][0][2]):
                    if j != i:
                        other_reads |= set(S.atoms(v, is_read))
            all_conds = [set((c, repr(o)) for c, o in conds) for cl in terms.values() for conds in cl]
            common = set.intersection(*all_conds)
            for cs_ in all_conds:
                for c, o in cs_ - common:
                    used = [a for a in S.atoms(c, is_read) if a in other_reads]
                    if used:
                        probs.append("field `%s` of the decoded header takes different values (%s) depending on %s, i.e. on bytes that belong to another field: the decoder normalises instead of projecting, and re-encoding does not reproduce the bytes it accepted" % (
                            n, " / ".join(sorted(S.term_str(x)[-40:] for x in terms)), S.term_str(c)[-80:]))
        probs = sorted(set(probs))
        (ctx.bad if probs else ctx.ok)("W-PURE", key, db.span, "; ".join(probs[:3]) if probs else
            "every field of the accepted header is a fixed projection (cast / shift / mask / conversion) of the bytes read at its position (%d accepting path(s), %d fields)" % (len(paths), len(names)))

    # ---------------------------------------------------------------- W-ACCEPT
    from . import panic_common as PC
    for name, g in ACCEPTS:
        ok, why = PC.decoder_accepts(prog, g)
        (ctx.ok if ok else ctx.bad)("W-ACCEPT", "W-ACCEPT:%s" % name, prog.body(g["fn"]).span, why)

    # ---------------------------------------------------------------- W-NOTRUNC
    from .. import panics
    enc_bodies = [eb for eb, db in codecs.values()] + [prog.method(w, m) for w, m in subs] + [ser, prog.method("Ipv4Session", "send", "Session") if _has(prog, "Ipv4Session", "send") else None,
                                                                                              prog.method("TcpHeaderBuilder", "build")]
    n = 0
    for b in enc_bodies:
        if b is None:
            continue
        bodies = [b] + [prog.bodies[k] for k in prog.bodies if prog.bodies[k].root == b.key and k != b.key]
        for bd in bodies:
            iv = panics.Intervals(prog, bd)
            for bb, blk in enumerate(bd.blocks):
                if blk["c"]:
                    continue
                for st in blk["s"]:
                    if st[0] == "a" and st[2][0] == "cast" and st[2][1] == "IntToInt":
                        src = iv.of_operand(st[2][2])
                        if src is None:
                            pl0 = F.op_place(st[2][2])
                            r0 = dep.single_def_rvalue(bd, pl0[0]) if pl0 is not None and not pl0[1] else None
                            if r0 is not None and r0[1][0] == "discr":
                                src = iv._rvalue(r0[1], 0, pl0[0])
                        dst = panics.ty_range(bd, st[2][3])
                        sty = panics._operand_ty(bd, st[2][2])
                        srange = panics.ty_range(bd, sty) if sty is not None else None
                        if dst is None or srange is None or (dst[0] <= srange[0] and srange[1] <= dst[1]):
                            continue   # widening
                        n += 1
                        key = "W-NOTRUNC:%s:%s->%s" % (bd.key, bd.types[sty]["n"], bd.types[st[2][3]]["n"])
                        if src and dst[0] <= src[0] and src[1] <= dst[1]:
                            ctx.ok("W-NOTRUNC", key, st[3], "narrowing cast is range-safe: operand in [%d,%d]" % src)
                        elif key in NOTRUNC_TABLE:
                            ctx.ok("W-NOTRUNC", key, st[3], "reviewed: " + NOTRUNC_TABLE[key])
                        else:
                            ctx.bad("W-NOTRUNC", key, st[3], "narrowing cast on an encode path may truncate (operand range %s)" % (src,))
    ctx.extra["notrunc_casts"] = n


NOTRUNC_TABLE = {
    "W-NOTRUNC:elvis_core::protocols::ipv4::ipv4_session::{impl#1}::send:usize->u16":
        "length as u16 in Ipv4Session::send: a frame longer than 65535 bytes is refused by PciSession::send_pci (L-MTU, Mtu = u16) before it reaches the wire, so a truncated length field is never emitted",
    "W-NOTRUNC:elvis_core::protocols::ipv4::ipv4_session::{impl#1}::send::{closure#0}:usize->u16":
        "length as u16 in Ipv4Session::send: a frame longer than 65535 bytes is refused by PciSession::send_pci (L-MTU, Mtu = u16) before it reaches the wire",
}


def _has(prog, a, m):
    try:
        prog.method(a, m, "Session")
        return True
    except Exception:
        return False
