"""C03 — TCP connections open, synchronise and close as RFC 9293 prescribes (DESIGN.md §4 C03)."""
from .. import facts as F
from ..cfg import cfg
from .. import dep
from . import common as K
from . import tcpmodel as T

LEVEL = "other"
EXPLANATION = (
    "Finite-domain abstract interpretation of every writer of Tcb.state over the observables (state on entry, current "
    "state, SYN/ACK/RST/FIN of the segment being processed): the complete static transition relation is extracted and "
    "every (from, to, flag-condition) must be a row of the frozen RFC 9293 table (Figure 5 + §3.10.7), every row must "
    "be derived; who-may-write shows no other writer of the state exists; TCB-deleting results are produced only from "
    "the allowed (state, flag) combinations and should_delete_tcb maps exactly those results to deletion; every move "
    "to TIME-WAIT is followed on all paths by arming the 2*MSL timer. This proves the clause 'each endpoint only ever "
    "moves along transitions of the RFC 9293 state diagram' for all schedules, segments and call orders. (T-FIN) Tcb::close, as a formula, queues <SEQ=SND.NXT><ACK=RCV.NXT><FIN,ACK> and advances SND.NXT by one on every closing transition; (T-RECV) Tcb::receive hands over the buffered text in ESTABLISHED, FIN-WAIT-1, FIN-WAIT-2 and CLOSE-WAIT; (T-INORDER, "
    "shared with C01) a queued segment - a FIN included - reaches process_segment only on the branch where its SEQ is "
    "not beyond RCV.NXT, the structural half of 'the peer sees the end of the stream only after all data submitted "
    "before the close'. Not decided: RCV.NXT agreement, byte-level data-before-FIN delivery and eventual release "
    "(value/history/liveness clauses).")
ASSUMPTIONS = [
    "value-level side conditions of a transition (e.g. SND.UNA > ISS for SYN-SENT -> ESTABLISHED, is_fin_acked) are not part of the flag-level table",
]
TECHNIQUE = "static analysis: finite-domain abstract interpretation (typestate) of Tcb.state writers over rustc MIR + who-may-write"

# (function, from, to) -> required literals (all tuples at the write must satisfy them)
ORACLE = {
    ("process_segment", "SynSent", "Established"): {"syn": True},
    ("process_segment", "SynSent", "SynReceived"): {"syn": True},
    ("process_segment", "SynReceived", "Established"): {"ack": True},
    ("process_segment", "SynReceived", "CloseWait"): {"fin": True},
    ("process_segment", "Established", "CloseWait"): {"fin": True},
    ("process_segment", "FinWait1", "FinWait2"): {"ack": True},
    ("process_segment", "FinWait1", "TimeWait"): {"fin": True},
    ("process_segment", "FinWait1", "Closing"): {"fin": True},
    ("process_segment", "FinWait2", "TimeWait"): {"fin": True},
    ("process_segment", "Closing", "TimeWait"): {"ack": True},
    ("close", "SynReceived", "FinWait1"): {},
    ("close", "Established", "FinWait1"): {},
    ("close", "CloseWait", "LastAck"): {},
}
DELETING = {
    "FinalizeClose": lambda s, fl: (s == "LastAck" and fl["ack"]) or (s in ("Closing", "LastAck", "TimeWait") and fl["rst"]),
    "ConnectionReset": lambda s, fl: fl["rst"] and s in ("SynSent", "Established", "FinWait1", "FinWait2", "CloseWait"),
    "BlindReset": lambda s, fl: fl["rst"] and s == "SynSent",
    "ReturnToListen": lambda s, fl: fl["rst"] and s == "SynReceived",
    "ConnectionRefused": lambda s, fl: fl["rst"] and s == "SynReceived",
}
PSR = "elvis_core::protocols::tcp::tcb::ProcessSegmentResult"


def run(ctx):
    prog = ctx.prog()
    from . import c01
    c01.check_inorder(ctx)
    from . import seqprims
    seqprims.check_close(ctx, "T-FIN")
    seqprims.check_receive(ctx, "T-RECV")
    seqprims.check_send(ctx, "T-SEND")
    seqprims.check_accept(ctx, "T-ACCEPT")
    # a FIN (one sequence number, no text) must stay on the retransmission queue until it is acknowledged
    rp_ = prog.method("Tcb", "remove_acked_from_retransmission")
    pr_ = c01.removal_rule(prog, rp_)
    (ctx.bad if pr_ else ctx.ok)("T-ACK-PRUNE", "T-ACK-PRUNE:remove_acked", rp_.span, "; ".join(pr_) if pr_ else
        "a queue entry (data or FIN) is removed exactly when SND.UNA >= SEQ + LEN (circular)")
    ps = prog.method("Tcb", "process_segment")
    cl = prog.method("Tcb", "close")
    new = prog.method("Tcb", "new")

    # ---------------------------------------------------------------- T-WRITERS
    allowed = {ps.key, cl.key}
    nw = 0
    for b in prog.bodies.values():
        for bb, st in K.assigns_to_field(b, "tcb::Tcb", ("state",)) + K.mut_borrows_of_field(b, "tcb::Tcb", ("state",)):
            if F.place_fields(st[1] if st[2][0] != "ref" else st[2][2])[-1] != ("elvis_core::protocols::tcp::tcb::Tcb", "state"):
                continue
            nw += 1
            ok = b.key in allowed and st[2][0] != "ref"
            (ctx.ok if ok else ctx.bad)("T-WRITERS", "T-WRITERS:%s" % b.key, st[3],
                "Tcb.state written in %s" % b.pretty.rsplit("::", 1)[-1] if ok else "Tcb.state is written or mutably borrowed in %s (outside close/process_segment): the transition table no longer covers every writer" % b.pretty)
        for bb, st in K.aggregates(b, "tcb::Tcb"):
            ok = b.key == new.key
            so = dep.origins(b, K.agg_field_operand(st, "state"), at=K.at_stmt(b, bb, st), through_calls=False)
            ok = ok and dep.has_param(so, "state")
            (ctx.ok if ok else ctx.bad)("T-WRITERS", "T-WRITERS:Tcb{}@%s" % b.key, st[3],
                "Tcb constructed in Tcb::new from its `state` argument" if ok else "Tcb constructed outside Tcb::new (or with a computed state) in %s" % b.pretty)
    ctx.require(nw >= 9, "T-WRITERS: only %d writes of Tcb.state found" % nw)
    ctors = {"elvis_core::protocols::tcp::tcb::{impl#0}::open": ("SynSent", {}),
             "elvis_core::protocols::tcp::tcb::segment_arrives_listen": ("SynReceived", {"syn": True, "ack": False, "rst": False})}
    sites = ctx.cg().call_sites(new.key)
    for b, bb in sites:
        want = ctors.get(b.key)
        t = b.term(bb)
        so = dep.arg_origins(b, bb, 3, through_calls=False)
        consts = {a[2] for a in so if a[0] == "agg" and a[1] == T.STATE_ADT}
        if want is None:
            ctx.bad("T-TRANS", "T-TRANS:ctor@%s" % b.key, F.call_loc(t), "Tcb::new is called from %s: a TCB can come into existence outside OPEN / SYN-on-LISTEN" % b.pretty)
            continue
        probs = []
        if consts != {want[0]}:
            probs.append("initial state is %s, RFC 9293 prescribes %s" % (sorted(consts), want[0]))
        if want[1]:
            fl = _flag_facts_at(prog, b, bb)
            for k, v in want[1].items():
                if fl.get(k) != v:
                    probs.append("creation is not confined to segments with %s%s" % ("" if v else "¬", k))
        (ctx.bad if probs else ctx.ok)("T-TRANS", "T-TRANS:ctor@%s" % b.key, F.call_loc(t), "; ".join(probs) if probs else
            "(no TCB) -> %s%s" % (want[0], " on " + " ∧ ".join(("" if v else "¬") + k for k, v in want[1].items()) if want[1] else " on OPEN"))
    ctx.require(len(sites) == 2, "expected 2 callers of Tcb::new, found %d" % len(sites))

    # ---------------------------------------------------------------- T-TRANS
    derived = set()
    models = {"process_segment": T.TcbModel(prog, ps), "close": T.TcbModel(prog, cl, with_flags=False)}
    for fn, m in models.items():
        for bb, i, loc, to, tuples in m.transitions():
            if to is None:
                ctx.bad("T-TRANS", "T-TRANS:%s:unknown-write@bb" % fn, loc, "Tcb.state is assigned a value that is not a State constant")
                continue
            froms = sorted({t[1] for t in tuples})
            if not froms:
                ctx.ok("T-TRANS", "T-TRANS:%s:dead->%s" % (fn, to), loc, "unreachable state write")
                continue
            for fr in froms:
                sub = [t for t in tuples if t[1] == fr]
                key = "T-TRANS:%s:%s->%s" % (fn, fr, to)
                req = ORACLE.get((fn, fr, to))
                if fr == to:
                    ctx.ok("T-TRANS", key, loc, "self-loop")
                    continue
                if req is None:
                    ctx.bad("T-TRANS", key, loc, "transition %s -> %s (on %s) in Tcb::%s is not a transition of the RFC 9293 state diagram" % (fr, to, T.flags_str(sub), fn))
                    continue
                bad = [k for k, v in req.items() if fn == "process_segment" and any(t[2 + T.FLAGS.index(k)] != v for t in sub)]
                if bad:
                    ctx.bad("T-TRANS", key, loc, "transition %s -> %s is taken on segments without %s (derived condition: %s)" % (fr, to, "/".join(bad), T.flags_str(sub)))
                else:
                    derived.add((fn, fr, to))
                    ctx.ok("T-TRANS", key, loc, "%s -> %s on %s" % (fr, to, T.flags_str(sub) if fn == "process_segment" else "CLOSE"))
    missing = set(ORACLE) - derived
    for (fn, fr, to) in sorted(missing):
        ctx.bad("T-TRANS", "T-TRANS:%s:%s->%s:missing" % (fn, fr, to), (ps if fn == "process_segment" else cl).span,
                "RFC transition %s -> %s is no longer implemented by Tcb::%s (or no longer derivable)" % (fr, to, fn))
    ctx.floor("T-TRANS", 15)

    # ---------------------------------------------------------------- T-RELEASE
    m = models["process_segment"]
    aep = prog.method("Tcb", "ack_established_processing")
    aep_vars = {st[2][1]["v"] for bb, st in K.aggregates(aep, "tcb::ProcessSegmentResult")}
    bad_aep = aep_vars & set(DELETING)
    (ctx.bad if bad_aep else ctx.ok)("T-RELEASE", "T-RELEASE:ack_established_processing", aep.span,
        "ack_established_processing can return the TCB-deleting result(s) %s" % sorted(bad_aep) if bad_aep else "ack_established_processing returns only %s" % sorted(aep_vars))
    for bb, st in K.aggregates(ps, "tcb::ProcessSegmentResult"):
        v = st[2][1]["v"]
        if v not in DELETING:
            continue
        i = [k for k, s in enumerate(ps.stmts(bb)) if s is st][0]
        tuples = m.at_stmt(bb, i)
        viol = [t for t in tuples if not DELETING[v](t[1], dict(zip(T.FLAGS, t[2:6])))]
        key = "T-RELEASE:%s@%s" % (v, "+".join(sorted({t[1] for t in tuples})))
        if viol:
            ctx.bad("T-RELEASE", key, st[3], "%s (deletes the TCB) can be produced in state %s on %s" % (v, sorted({t[1] for t in viol}), T.flags_str(viol)))
        else:
            ctx.ok("T-RELEASE", key, st[3], "%s only from %s on %s" % (v, sorted({t[1] for t in tuples}), T.flags_str(tuples)))
    sd = prog.method("ProcessSegmentResult", "should_delete_tcb")
    dtab = _bool_table_over_enum(prog, sd, PSR)
    want = set(DELETING)
    (ctx.ok if dtab == want else ctx.bad)("T-RELEASE", "T-RELEASE:should_delete_tcb", sd.span,
        "should_delete_tcb is true exactly for %s" % sorted(want) if dtab == want else "should_delete_tcb is true for %s, expected %s" % (sorted(dtab or []), sorted(want)))
    sa = prog.method("Tcb", "segment_arrives")
    g = cfg(sa)
    closes = [bb for bb, st in K.aggregates(sa, "tcb::SegmentArrivesResult", "Close")]
    sdc = K.calls_to(sa, sd.key)
    okk = len(closes) == 1 and len(sdc) == 1
    if okk:
        sw = F.call_target(sdc[0][1])
        tr, fa = dep.bool_branches(sa, sw)
        # (the false branch loops back to the next queued segment, so only dominance by the true branch is required)
        okk = tr != fa and g.dominates(tr, closes[0]) and dep.has_call(dep.arg_origins(sa, sdc[0][0], 0), ps.key)
    (ctx.ok if okk else ctx.bad)("T-RELEASE", "T-RELEASE:segment_arrives", sa.span,
        "segment_arrives reports Close only when should_delete_tcb(process_segment(..))" if okk else "segment_arrives can report Close without a deleting result of process_segment")
    at = prog.method("Tcb", "advance_time")
    g = cfg(at)
    cc = [bb for bb, st in K.aggregates(at, "tcb::AdvanceTimeResult", "CloseConnection")]
    okk = len(cc) == 1
    if okk:
        guard = None
        for s in g.dom_chain(cc[0]):
            if at.term(s)[0] == "switch":
                c = dep.switch_condition(at, s)
                if c and c["kind"] == "discr" and ("elvis_core::protocols::tcp::tcb::Timeouts", "time_wait") in F.place_fields(c["place"]):
                    some = K.skip_false_edges(at, dep.switch_target(at, s, 1))
                    if g.dominates(some, cc[0]):
                        guard = s
        okk = guard is not None
    (ctx.ok if okk else ctx.bad)("T-RELEASE", "T-RELEASE:advance_time", at.span,
        "CloseConnection only on the branch where the TIME-WAIT timer is armed" if okk else "advance_time can close a connection whose TIME-WAIT timer is not armed")

    # ---------------------------------------------------------------- T-TIMEWAIT
    g = cfg(ps)
    tw_writes = []
    for bb, st in K.assigns_to_field(ps, "tcb::Timeouts", ("time_wait",)):
        i = [k for k, s in enumerate(ps.stmts(bb)) if s is st][0]
        o = dep.origins(ps, dep.rvalue_operands(st[2])[0], at=(bb, i), through_calls=False) if dep.rvalue_operands(st[2]) else set()
        is_some = (st[2][0] == "agg" and st[2][1].get("v") == "Some") or any(a[0] == "agg" and a[2] == "Some" for a in o)
        tw_writes.append((bb, i, st, is_some))
    for bb, i, loc, to, tuples in m.transitions():
        if to != "TimeWait" or not tuples:
            continue
        arm = [w[0] for w in tw_writes if w[3]]
        ok = g.all_paths_through(bb, g.returns, arm) if bb not in arm else True
        # the arming write must come after (or in) the block of the state write
        ok = ok or any(w[0] == bb and w[1] > i for w in tw_writes if w[3])
        fr = "+".join(sorted({t[1] for t in tuples}))
        (ctx.ok if ok else ctx.bad)("T-TIMEWAIT", "T-TIMEWAIT:%s->TimeWait" % fr, loc,
            "every path from the move to TIME-WAIT arms timeouts.time_wait = Some(2*MSL)" if ok else "a path moves to TIME-WAIT without arming the 2*MSL timer: the TCB lingers forever")
    for bb, i, st, is_some in tw_writes:
        tuples = m.at_stmt(bb, i)
        ss = {t[1] for t in tuples}
        ok = is_some and ss <= {"TimeWait"}
        (ctx.ok if ok else ctx.bad)("T-TIMEWAIT", "T-TIMEWAIT:arm@%s" % "+".join(sorted(ss)), st[3],
            "2*MSL timer armed in state TimeWait" if ok else "timeouts.time_wait is %s in state(s) %s" % ("armed" if is_some else "cleared/overwritten", sorted(ss)))
    ctx.floor("T-TIMEWAIT", 6)


def _flag_facts_at(prog, body, bb):
    """Flag literals established by dominating branches on Control::{syn,ack,rst,fin}(seg.ctl) at block bb."""
    g = cfg(body)
    out = {}
    for s in g.dom_chain(bb):
        if body.term(s)[0] != "switch":
            continue
        c = dep.switch_condition(body, s)
        if c and c["kind"] == "call":
            ck = F.callee_key(c["term"]) or ""
            nm = ck.rsplit("::", 1)[-1]
            if nm in T.FLAGS and "tcp_parsing" in ck:
                tr, fa = dep.bool_branches(body, s)
                if g.dominates(tr, bb) and not g.dominates(fa, bb):
                    out[nm] = True
                elif g.dominates(fa, bb) and not g.dominates(tr, bb):
                    out[nm] = False
    return out


def _bool_table_over_enum(prog, body, adt_key):
    """For a fn(self: Enum) -> bool implemented by a match: set of variants mapped to true."""
    adt = prog.adts[adt_key]
    g = cfg(body)
    for s in range(len(body.blocks)):
        if body.term(s)[0] != "switch":
            continue
        c = dep.switch_condition(body, s)
        if c and c["kind"] == "discr":
            out = set()
            for v in adt["variants"]:
                tg = dep.switch_target(body, s, int(v["discr"]))
                val = _const_bool_on_path(body, tg)
                if val is None:
                    return None
                if val:
                    out.add(v["name"])
            return out
    return None


def _const_bool_on_path(body, bb, depth=0):
    """Value assigned to _0 on the (straight-line) path from bb to return."""
    g = cfg(body)
    seen = set()
    while bb not in seen and depth < 50:
        seen.add(bb)
        for st in body.stmts(bb):
            if st[0] == "a" and st[1] == [0, []] and st[2][0] == "use":
                v = F.const_int(st[2][1])
                if v is not None:
                    return bool(v)
        succ = g.succ[bb]
        if len(succ) != 1:
            return None
        bb = succ[0]
        depth += 1
    return None
