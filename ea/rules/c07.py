"""C07 — Message behaves as an immutable byte string: independence of messages sharing storage (DESIGN.md §4 C07)."""
from .. import facts as F
from . import common as K

LEVEL = "proof"
EXPLANATION = (
    "Type-level argument for the second sentence of the property (messages derived from a common ancestor are "
    "independent values): (i) neither crate contains user-written unsafe code, (ii) the deep type walk finds no "
    "UnsafeCell reachable from Message/Chunk except the reference counts of Arc, so in safe Rust no holder of one "
    "Message can change bytes observable through another (Arc<Vec<u8>> hands out &mut only when unique), (iii) Clone "
    "for Message and Chunk is derived (clones share the Arc, own their window), (iv) the window fields start/end/bytes "
    "and Message.chunks are written only inside the message module. (v) Message::eq answers true only where the byte-wise comparison of the two messages did. Obligations = these facts; all must hold. "
    "(vi, M-WINDOW) a chunk's window is never computed from the length of the shared buffer behind it (only Chunk::new, which wraps a fresh buffer, may): otherwise bytes removed by an earlier slice or cut come back. "
    "Equivalence of the window arithmetic with the Vec<u8> model (first sentence) is numerical and not decided.")
ASSUMPTIONS = [
    "unsafe blocks that come from the expansion of tokio::select! are tokio's and do not touch Message",
    "the standard library's Arc/Vec/VecDeque are sound",
]
TECHNIQUE = "static analysis: type-level immutability walk (UnsafeCell reachability) + unsafe inventory + who-may-write over rustc MIR facts"

WRITE_APIS = ("lock", "write", "borrow_mut", "set", "store", "replace", "swap", "fetch_add", "fetch_sub", "get_mut", "try_lock", "try_write", "lock_owned", "blocking_lock")


def run(ctx):
    prog = ctx.prog()
    m_eq(ctx)
    m_range(ctx)
    # (i) unsafe inventory
    if prog.unsafe:
        for cname, u in prog.unsafe:
            ctx.bad("M-IMMUT", "M-IMMUT:unsafe:%s:%s" % (cname.split(":")[0], u[0]), u[1],
                    "user-written unsafe %s in %s: Rust's aliasing guarantees can no longer be used as a lemma for shared Message storage" % (u[0], cname))
    else:
        ctx.ok("M-IMMUT", "M-IMMUT:unsafe-inventory", "elvis-core, elvis", "no user-written unsafe block/fn/impl in either crate (%d inside tokio macro expansions)" % len(prog.unsafe_in_macros))
    # (ii) deep immutability
    for name in ("message::Message", "message::chunk::Chunk", "message::slice_range::SliceRange"):
        a = prog.adt(name)
        cells, opaque = a["cells"], a["cell_opaque"]
        if cells or opaque:
            # degrade gracefully: interior mutability is only harmful if a write API is applied to it
            writes = _write_api_uses(prog, a["key"])
            if cells and not writes and not opaque:
                ctx.ok("M-IMMUT", "M-IMMUT:cells:%s" % name, a["span"], "interior mutability reachable (%s) but never written through a write API" % cells[:2])
            else:
                ctx.bad("M-IMMUT", "M-IMMUT:cells:%s" % name, a["span"],
                        "interior mutability reachable from %s other than Arc reference counts: %s%s%s" % (
                            name, cells[:3], " (opaque: %s)" % opaque[:2] if opaque else "", "; written at %s" % writes[:3] if writes else ""))
        else:
            ctx.ok("M-IMMUT", "M-IMMUT:cells:%s" % name, a["span"], "no UnsafeCell reachable except Arc reference counts")
    # (iii) derived Clone
    for name in ("Message", "Chunk"):
        impls = [i for i in prog.impls if i.get("trait") == "core::clone::Clone" and i["_types"][i["self_ty"]].get("k") == "adt" and i["_types"][i["self_ty"]]["d"].endswith("::" + name) and i["_types"][i["self_ty"]]["d"].startswith("elvis_core::message")]
        ctx.require(len(impls) == 1, "expected one Clone impl for %s, found %d" % (name, len(impls)))
        ok = impls[0]["derived"]
        (ctx.ok if ok else ctx.bad)("M-IMMUT", "M-IMMUT:clone:%s" % name, impls[0]["span"],
            "Clone is derived (field-wise: shares the Arc, copies the window)" if ok else "Clone for %s is hand-written: clones are no longer guaranteed to be independent field-wise copies" % name)
    # (iv) who writes the window fields
    n = 0
    for b in prog.bodies.values():
        for owner, names in (("chunk::Chunk", ("start", "end", "bytes")), ("message::Message", ("chunks",))):
            for bb, st in K.assigns_to_field(b, owner, names) + K.mut_borrows_of_field(b, owner, names):
                n += 1
                ok = b.key.startswith("elvis_core::message::")
                (ctx.ok if ok else ctx.bad)("M-WRITERS", "M-WRITERS:%s@%s" % (owner.rsplit("::", 1)[-1], b.key), st[3],
                    "window/storage field written inside the message module" if ok else "%s field written outside the message module in %s" % (owner, b.pretty))
    ctx.require(n >= 5, "M-WRITERS: found only %d writes of the window fields (anchor lost)" % n)
    m_window(ctx, prog)
    # field visibility: bytes/start/end must not be public
    ch = prog.adt("message::chunk::Chunk")
    for f in ch["variants"][0]["fields"]:
        ok = "Public" not in f["vis"]
        (ctx.ok if ok else ctx.bad)("M-WRITERS", "M-WRITERS:vis:Chunk.%s" % f["name"], ch["span"],
            "Chunk.%s is not public (%s)" % (f["name"], f["vis"][:40]) if ok else "Chunk.%s is public: any crate can rewrite the window/storage" % f["name"])
    ms = prog.adt("message::Message")
    for f in ms["variants"][0]["fields"]:
        ok = "Public" not in f["vis"]
        (ctx.ok if ok else ctx.bad)("M-WRITERS", "M-WRITERS:vis:Message.%s" % f["name"], ms["span"],
            "Message.%s is private" % f["name"] if ok else "Message.%s is public" % f["name"])


def _buffer_len(o):
    """origins that measure the whole buffer behind a chunk (Vec / slice / str length), as opposed to its window"""
    return [a for a in o if a[0] == "call" and a[1] and a[1].rsplit("::", 1)[-1] == "len" and not a[1].startswith("elvis_core::")] + \
           [a for a in o if a[0] == "op" and a[1] == "PtrMetadata"]


def _only_compared(b, local):
    """the value in `local` is only ever compared (an assertion about the window), never stored or computed with"""
    CMP = ("Lt", "Le", "Gt", "Ge", "Eq", "Ne")
    todo, seen = [local], set()

    def mentions(x, l):
        if isinstance(x, list):
            if len(x) == 2 and x[0] in ("cp", "mv") and isinstance(x[1], list) and x[1] and x[1][0] == l:
                return True
            return any(mentions(y, l) for y in x)
        return False
    while todo:
        l = todo.pop()
        if l in seen:
            continue
        seen.add(l)
        for blk in b.blocks:
            if blk["c"]:
                continue
            for st in blk["s"]:
                if st[0] != "a" or not mentions(st[2], l):
                    continue
                rv = st[2]
                if rv[0] == "bin" and rv[1] in CMP:
                    continue
                if rv[0] in ("use", "cast") and not st[1][1]:
                    todo.append(st[1][0])
                    continue
                return False
            t = blk["t"]
            if t[0] == "call" and mentions(F.call_args(t), l):
                return False
            if t[0] == "assert" and mentions(t[3] if len(t) > 3 else [], l):
                continue
    return True


def m_window(ctx, prog):
    """M-WINDOW: a chunk's window is computed from windows, never from the size of the buffer behind it.  Only
    Chunk::new, which wraps a fresh buffer, may use the buffer length; every other place that builds a Chunk or rewrites
    start / end derives the bounds from existing start / end values, window lengths and the caller's offsets - otherwise
    bytes that an earlier slice or cut removed (they are still in the shared buffer) come back."""
    from .. import dep
    n = 0
    fresh = prog.method("Chunk", "new").key
    for b in prog.bodies.values():
        if not b.key.startswith("elvis_core::message::"):
            continue
        for bb, st in K.aggregates(b, "message::chunk::Chunk"):
            n += 1
            if b.key == fresh:
                bo = dep.origins(b, K.agg_field_operand(st, "bytes"), at=K.at_stmt(b, bb, st))
                ok = not dep.has_field(bo, "Chunk", "bytes")
                (ctx.ok if ok else ctx.bad)("M-WINDOW", "M-WINDOW:Chunk{}@%s" % b.key, st[3],
                    "Chunk::new wraps a fresh buffer (window = whole buffer)" if ok else "Chunk::new re-wraps the buffer of an existing chunk with the full-buffer window")
                continue
            bad = []
            for fld in ("start", "end"):
                o = dep.origins(b, K.agg_field_operand(st, fld), at=K.at_stmt(b, bb, st))
                if _buffer_len(o):
                    bad.append(fld)
            (ctx.bad if bad else ctx.ok)("M-WINDOW", "M-WINDOW:Chunk{}@%s" % b.key, st[3],
                "a chunk built in %s takes its %s from the length of the shared buffer instead of from the window it was derived from: bytes removed earlier reappear" % (b.pretty, " and ".join(bad)) if bad else
                "derived chunk: bounds computed from windows")
        for bb, st in K.assigns_to_field(b, "chunk::Chunk", ("start", "end")):
            n += 1
            o = set()
            for op in dep.rvalue_operands(st[2]):
                o |= dep.origins(b, op, at=K.at_stmt(b, bb, st))
            bad = _buffer_len(o)
            (ctx.bad if bad else ctx.ok)("M-WINDOW", "M-WINDOW:%s@%s" % (".".join(x[1] for x in F.place_fields(st[1])[-1:]), b.key), st[3],
                "a window bound is set from the length of the shared buffer in %s: bytes removed earlier reappear" % b.pretty if bad else "window bound computed from windows and offsets")
    # ... including through helpers and closures: the length of the buffer of an existing chunk is not read at all
    nl = 0
    for b in prog.bodies.values():
        if not b.key.startswith("elvis_core::message::"):
            continue
        for bb, t in K.calls(b):
            ck = F.callee_key(t) or ""
            if ck.rsplit("::", 1)[-1] != "len" or ck.startswith("elvis_core::") or not F.call_args(t):
                continue
            nl += 1
            o = dep.arg_origins(b, bb, 0, through_calls=True)
            if dep.has_field(o, "Chunk", "bytes") and not _only_compared(b, F.call_dest(t)[0]):
                ctx.bad("M-WINDOW", "M-WINDOW:buffer-len@%s" % b.key, F.call_loc(t),
                        "%s reads the length of the shared buffer behind an existing chunk (chunk.bytes.len()); the chunk's window ends at chunk.end, so a bound derived from this value brings back bytes that were sliced or cut off" % b.pretty)
    ctx.require(n >= 5 and nl >= 1, "M-WINDOW: only %d window computations / %d length reads found (anchor lost)" % (n, nl))


def _write_api_uses(prog, adt_key):
    out = []
    from .. import dep
    for b in prog.bodies.values():
        for bb, t in K.calls(b):
            ck = F.callee_key(t) or ""
            if ck.rsplit("::", 1)[-1] in WRITE_APIS and F.call_args(t):
                o = dep.arg_origins(b, bb, 0, through_calls=True)
                if any(a[0] == "field" and a[1].startswith(adt_key) for a in o):
                    out.append(F.call_loc(t))
    return out



def m_eq(ctx):
    """Equality of messages is equality of their byte strings: `Message::eq`, reduced to a formula, may answer `true`
    only where the byte-wise comparison of the two iterators said so (shortcuts to `false`, e.g. on different
    lengths, are fine); `iter` walks the chunks front to back and yields each chunk's window."""
    from .. import symx as S
    prog = ctx.prog()
    eb = prog.method("Message", "eq", "PartialEq")
    try:
        t, _ = S.extract(prog, eb, effects=True)
    except S.Unsupported as e:
        ctx.require(False, "M-EQ: Message::eq cannot be reduced to a formula (%s)" % e)
    me, ot = S.params_of(eb)
    it = prog.method("Message", "iter")

    def is_bytes_eq(x):
        return x[0] == "call" and x[1].endswith("iterator::Iterator::eq") and len(x[2]) == 2 and \
            {x[2][0], x[2][1]} == {("call", it.key, (me,)), ("call", it.key, (ot,))}

    def is_len_cmp(x):
        return x[0] == "bin" and x[1] in ("Eq", "Ne") and all(y[0] == "field" and y[2] == "len" or (y[0] == "call" and y[1].endswith("message::{impl#0}::len")) for y in (x[2], x[3]))
    probs = []

    def walk(x, conds):
        if x[0] == "state":
            return walk(x[1], conds)
        if x[0] == "ite":
            walk(x[2], conds + [(x[1], True)])
            walk(x[3], conds + [(x[1], False)])
            return
        if x == ("bool", False) or is_bytes_eq(x):
            return
        if x == ("bool", True):
            if any(is_bytes_eq(c) and v for c, v in conds):
                return
            probs.append("Message::eq answers `true` on a path that never compared the bytes (%s): messages of different contents or lengths compare equal" % (
                " and ".join(("" if v else "not ") + S.term_str(c)[:60] for c, v in conds) or "unconditionally"))
            return
        # a boolean expression: conjunctions with the byte comparison are fine, anything else is a shortcut to true
        if x[0] == "bin" and x[1] == "BitAnd" and (is_bytes_eq(x[2]) or is_bytes_eq(x[3])):
            return
        probs.append("Message::eq is decided by %s instead of the byte-wise comparison of the two messages" % S.term_str(x)[:120])
    walk(t, [])
    probs = sorted(set(probs))
    (ctx.bad if probs else ctx.ok)("M-EQ", "M-EQ:Message::eq", eb.span, "; ".join(probs[:2]) if probs else
        "Message::eq = %s: equal exactly when the byte strings are" % S.term_str(t)[:80])


def m_range(ctx):
    """M-RANGE: the six From<range> impls of SliceRange, reduced to formulas and evaluated on every (start, end) of a small
    grid (including the empty ranges a..a and a..=a-1 and the ends 0): (start, len) must be what the same range means on a
    byte vector."""
    from .. import symx as S
    prog = ctx.prog()
    impls = [b for b in prog.bodies.values() if b.key.startswith("elvis_core::message::slice_range::") and b.name == "from" and b.kind == "method"]
    ctx.require(len(impls) >= 6, "M-RANGE: expected six From impls for SliceRange, found %d" % len(impls))
    probs, n = [], 0
    for b in impls:
        rty = b.local_tystr(1).rsplit("::", 1)[-1].split("<")[0]
        try:
            t, _ = S.extract(prog, b, effects=True)
        except S.Unsupported as e:
            probs.append("From<%s> cannot be reduced to a formula (%s)" % (rty, e))
            continue
        if not (t[0] == "agg" and t[1].endswith("SliceRange::SliceRange") and len(t[2]) == 2):
            probs.append("From<%s> does not build one SliceRange value" % rty)
            continue
        R = S.params_of(b)[0]
        start_t, len_t = t[2]
        for s_ in range(0, 5):
            for e_ in range(0, 5):
                if rty == "RangeInclusive" and s_ > e_ + 1:
                    continue        # not a valid index range for a vector either
                if rty == "Range" and s_ > e_:
                    continue
                want = {"Range": (s_, e_ - s_), "RangeFrom": (s_, None), "RangeFull": (0, None), "RangeInclusive": (s_, e_ + 1 - s_),
                        "RangeTo": (0, e_), "RangeToInclusive": (0, e_ + 1)}.get(rty)
                if want is None:
                    continue
                env = {("field", R, "start"): s_, ("field", R, "end"): e_}
                for c in S.atoms(t, lambda y: y[0] == "call" and len(y[2]) == 1 and y[2][0] == R):
                    nm = c[1].rsplit("::", 1)[-1]
                    env[c] = {"start": s_, "end": e_, "len": max(e_ - s_, 0)}.get(nm, env.get(c))
                for c in S.atoms(t, lambda y: y[0] == "call" and y[1].rsplit("::", 1)[-1] in ("deref", "clone") and len(y[2]) == 1 and y[2][0] in env):
                    env[c] = env[c[2][0]]
                try:
                    gs = int(S.concrete(start_t, env, 64))
                    if len_t[0] == "variant" and len_t[2] == "None":
                        gl = None
                    elif len_t[0] == "agg" and len_t[1].endswith("Option::Some"):
                        gl = int(S.concrete(len_t[2][0], env, 64))
                    else:
                        raise KeyError(len_t)
                except S.Panics as e:
                    probs.append("From<%s> panics for %s (%s) where the vector model has a value" % (rty, _rng(rty, s_, e_), e))
                    break
                except (KeyError, TypeError) as e:
                    probs.append("From<%s> cannot be evaluated (%r)" % (rty, str(e)[:80]))
                    break
                n += 1
                if (gs, gl) != want:
                    probs.append("the range %s becomes (start %s, len %s), on a byte vector it is (start %s, len %s)" % (_rng(rty, s_, e_), gs, gl, want[0], want[1]))
                    break
            else:
                continue
            break
    ctx.require(n >= 40 or probs, "M-RANGE: only %d evaluations" % n)
    (ctx.bad if probs else ctx.ok)("M-RANGE", "M-RANGE:SliceRange::from", impls[0].span, "; ".join(probs[:2]) if probs else
        "all six range forms normalise to the (start, len) of the same range on a byte vector (%d evaluations, empty ranges included)" % n)


def _rng(rty, s_, e_):
    return {"Range": "%d..%d" % (s_, e_), "RangeFrom": "%d.." % s_, "RangeFull": "..", "RangeInclusive": "%d..=%s" % (s_, e_ if not (s_ == e_ + 1) else "%d (empty)" % e_),
            "RangeTo": "..%d" % e_, "RangeToInclusive": "..=%d" % e_}[rty]
