"""C07 — Message behaves as an immutable byte string: independence of messages sharing storage (DESIGN.md §4 C07)."""
from .. import facts as F
from . import common as K

LEVEL = "proof"
EXPLANATION = (
    "Type-level argument for the second sentence of the property (messages derived from a common ancestor are "
    "independent values): (i) neither crate contains user-written unsafe code, (ii) the deep type walk finds no "
    "UnsafeCell reachable from Message/Chunk except the reference counts of Arc, so in safe Rust no holder of one "
    "Message can change bytes observable through another (Arc<Vec<u8>> hands out &mut only when unique), (iii) Clone "
    "for Message and Chunk is derived (clones share the Arc, own their window), (iv) the window fields start/end/bytes "
    "and Message.chunks are written only inside the message module. Obligations = these facts; all must hold. "
    "Equivalence of the window arithmetic with the Vec<u8> model (first sentence) is numerical and not decided.")
ASSUMPTIONS = [
    "unsafe blocks that come from the expansion of tokio::select! are tokio's and do not touch Message",
    "the standard library's Arc/Vec/VecDeque are sound",
]
TECHNIQUE = "static analysis: type-level immutability walk (UnsafeCell reachability) + unsafe inventory + who-may-write over rustc MIR facts"

WRITE_APIS = ("lock", "write", "borrow_mut", "set", "store", "replace", "swap", "fetch_add", "fetch_sub", "get_mut", "try_lock", "try_write", "lock_owned", "blocking_lock")


def run(ctx):
    prog = ctx.prog()
    # (i) unsafe inventory
    if prog.unsafe:
        for cname, u in prog.unsafe:
            ctx.bad("M-IMMUT", "M-IMMUT:unsafe:%s:%s" % (cname.split(":")[0], u[0]), u[1],
                    "user-written unsafe %s in %s: Rust's aliasing guarantees can no longer be used as a lemma for shared Message storage" % (u[0], cname))
    else:
        ctx.ok("M-IMMUT", "M-IMMUT:unsafe-inventory", "elvis-core, elvis", "no user-written unsafe block/fn/impl in either crate (%d inside tokio macro expansions)" % len(prog.unsafe_in_macros))
    # (ii) deep immutability
    for name in ("message::Message", "message::chunk::Chunk", "message::slice_range::SliceRange"):
        a = prog.adt(name)
        cells, opaque = a["cells"], a["cell_opaque"]
        if cells or opaque:
            # degrade gracefully: interior mutability is only harmful if a write API is applied to it
            writes = _write_api_uses(prog, a["key"])
            if cells and not writes and not opaque:
                ctx.ok("M-IMMUT", "M-IMMUT:cells:%s" % name, a["span"], "interior mutability reachable (%s) but never written through a write API" % cells[:2])
            else:
                ctx.bad("M-IMMUT", "M-IMMUT:cells:%s" % name, a["span"],
                        "interior mutability reachable from %s other than Arc reference counts: %s%s%s" % (
                            name, cells[:3], " (opaque: %s)" % opaque[:2] if opaque else "", "; written at %s" % writes[:3] if writes else ""))
        else:
            ctx.ok("M-IMMUT", "M-IMMUT:cells:%s" % name, a["span"], "no UnsafeCell reachable except Arc reference counts")
    # (iii) derived Clone
    for name in ("Message", "Chunk"):
        impls = [i for i in prog.impls if i.get("trait") == "core::clone::Clone" and i["_types"][i["self_ty"]].get("k") == "adt" and i["_types"][i["self_ty"]]["d"].endswith("::" + name) and i["_types"][i["self_ty"]]["d"].startswith("elvis_core::message")]
        ctx.require(len(impls) == 1, "expected one Clone impl for %s, found %d" % (name, len(impls)))
        ok = impls[0]["derived"]
        (ctx.ok if ok else ctx.bad)("M-IMMUT", "M-IMMUT:clone:%s" % name, impls[0]["span"],
            "Clone is derived (field-wise: shares the Arc, copies the window)" if ok else "Clone for %s is hand-written: clones are no longer guaranteed to be independent field-wise copies" % name)
    # (iv) who writes the window fields
    n = 0
    for b in prog.bodies.values():
        for owner, names in (("chunk::Chunk", ("start", "end", "bytes")), ("message::Message", ("chunks",))):
            for bb, st in K.assigns_to_field(b, owner, names) + K.mut_borrows_of_field(b, owner, names):
                n += 1
                ok = b.key.startswith("elvis_core::message::")
                (ctx.ok if ok else ctx.bad)("M-WRITERS", "M-WRITERS:%s@%s" % (owner.rsplit("::", 1)[-1], b.key), st[3],
                    "window/storage field written inside the message module" if ok else "%s field written outside the message module in %s" % (owner, b.pretty))
    ctx.require(n >= 5, "M-WRITERS: found only %d writes of the window fields (anchor lost)" % n)
    # field visibility: bytes/start/end must not be public
    ch = prog.adt("message::chunk::Chunk")
    for f in ch["variants"][0]["fields"]:
        ok = "Public" not in f["vis"]
        (ctx.ok if ok else ctx.bad)("M-WRITERS", "M-WRITERS:vis:Chunk.%s" % f["name"], ch["span"],
            "Chunk.%s is not public (%s)" % (f["name"], f["vis"][:40]) if ok else "Chunk.%s is public: any crate can rewrite the window/storage" % f["name"])
    ms = prog.adt("message::Message")
    for f in ms["variants"][0]["fields"]:
        ok = "Public" not in f["vis"]
        (ctx.ok if ok else ctx.bad)("M-WRITERS", "M-WRITERS:vis:Message.%s" % f["name"], ms["span"],
            "Message.%s is private" % f["name"] if ok else "Message.%s is public" % f["name"])


def _write_api_uses(prog, adt_key):
    out = []
    from .. import dep
    for b in prog.bodies.values():
        for bb, t in K.calls(b):
            ck = F.callee_key(t) or ""
            if ck.rsplit("::", 1)[-1] in WRITE_APIS and F.call_args(t):
                o = dep.arg_origins(b, bb, 0, through_calls=True)
                if any(a[0] == "field" and a[1].startswith(adt_key) for a in o):
                    out.append(F.call_loc(t))
    return out
