"""Shared P-PANIC driver for C14 / C16 / C17 (DESIGN.md §3/R4)."""
import json, os

from .. import facts as F
from ..cfg import cfg
from .. import dep, panics
from . import common as K

# producers whose failure does not depend on packet bytes / segment fields / NDL text:
# machine assembly, protocol context put there by the lower layer, lock poisoning, channel lifecycle
NONINPUT_PRODUCERS = (
    "machine::{impl#0}::protocol", "machine::{impl#0}::get", "control::{impl#0}::get",
    "::lock", "::read", "::write", "::try_lock", "mpsc::bounded::{impl#", "mpsc::unbounded::{impl#", "broadcast::{impl#",
    "::try_into", "pci::{impl#0}::open", "::downcast", "JoinHandle", "join_next", "task::spawn",
    "std::fs::read_to_string", "watch::{impl#", "::changed", "any::type_name",
)
CONTRACT_FNS = {
    "elvis_core::message::{impl#0}::cut": "Message::cut(len <= self.len())",
    "elvis_core::message::{impl#0}::remove_front": "Message::remove_front(len <= self.len())",
    "elvis_core::message::{impl#0}::slice": "Message::slice(range within self.len())",
}
TRUSTED_MODULES = ("elvis_core::message::",)


def load_table(name):
    p = os.path.join(os.path.dirname(os.path.dirname(os.path.abspath(__file__))), "tables", name)
    with open(p) as f:
        return json.load(f)


def direct_producer(body, site):
    """Callee key of the call that directly produced the unwrapped value (through transparent adapters)."""
    op = site.operands[0]
    for _ in range(8):
        pl = F.op_place(op)
        if pl is None:
            return None
        c = dep.single_def_call(body, pl[0])
        if c is not None:
            ck = F.callee_key(c[1]) or ""
            name = ck.rsplit("::", 1)[-1]
            if name in ("as_ref", "as_mut", "clone", "deref", "deref_mut", "cloned", "copied", "map", "ok", "ok_or", "map_err", "as_deref", "or") and F.call_args(c[1]):
                op = F.call_args(c[1])[0]
                continue
            if name in ("poll",) or "{closure#" in ck:
                return ck
            return ck
        r = dep.single_def_rvalue(body, pl[0])
        if r is None:
            return None
        rv = r[1]
        if rv[0] == "use":
            op = rv[1]
        elif rv[0] == "ref":
            op = ["cp", [rv[2][0], []]]
        else:
            return None
    return None


def scan(ctx, rule, entries, in_scope, table, key_prefix_filter=None, extra_discharge=None, stops=()):
    """Enumerate and decide the panic sites reachable from `entries` inside `in_scope(body key)`."""
    prog, cg = ctx.prog(), ctx.cg()
    reach = cg.reach(entries, skip_kinds=("generic",), stop=stops)
    bodies = sorted(k for k in reach if in_scope(k) and k not in stops)
    # value ranges of header fields guaranteed by the decoder that is their only constructor (re-verified now)
    panics.FIELD_INV.clear()
    inv_notes = []
    try:
        with open(os.path.join(os.path.dirname(os.path.abspath(__file__)), "..", "tables", "field_invariants.json")) as fh:
            invs = json.load(fh)
    except (OSError, ValueError):
        invs = []
    for e in invs:
        if isinstance(e, dict) and "adt" in e:
            ok1, why1 = decoder_bound(prog, e["guard"])
            okc = _only_constructor(prog, e["guard"]["fn"], e["guard"]["adt"], e.get("also_built_in", []))
            if ok1 and okc:
                a = prog.adt(e["adt"])
                panics.FIELD_INV[(a["key"], e["field"])] = tuple(e["range"])
            inv_notes.append("%s.%s in %s: %s" % (e["adt"].rsplit("::", 1)[-1], e["field"], e["range"], "holds (%s)" % why1[:80] if ok1 and okc else "NOT established (%s)" % (why1 if not ok1 else "other constructors")))
    ctx.extra["field_invariants"] = inv_notes
    # closed world over the workspace: a parameter's interval is the join over all workspace call sites
    piv = panics.param_intervals(prog, cg, list(prog.bodies), [k for k in prog.bodies if not cg.rev.get(k)] + list(entries))
    classes = table.get("_classes", [])
    stats = {"bodies": len(bodies), "sites": 0, "interval": 0, "noninput": 0, "table_guarded": 0, "table_reasoned": 0, "class": 0, "open": 0, "trusted_module": 0,
             "param_intervals": {"%s#%d" % (K.short(k), i): list(v) for (k, i), v in sorted(piv.items()) if v[1] - v[0] < 2**31}}
    used = set()
    for k in bodies:
        b = prog.bodies[k]
        if any(k.startswith(m) for m in TRUSTED_MODULES):
            stats["trusted_module"] += 1
            continue
        sites = panics.enumerate_sites(prog, b, CONTRACT_FNS)
        iv = panics.Intervals(prog, b, piv)
        for s in sites:
            stats["sites"] += 1
            if extra_discharge:
                r = extra_discharge(b, s)
                if r:
                    stats["interval"] += 1
                    ctx.ok(rule, s.key, s.loc, r)
                    continue
            if (s.mac and any("select!" in m for m in s.mac)) or _in_select(b, s):
                stats["noninput"] += 1
                ctx.ok(rule, s.key, s.loc, "generated by the tokio::select! expansion (branch randomisation / unreachable arms), not input dependent")
                continue
            if s.kind == "api" and "channel(0)" in s.desc:
                v = F.const_int(s.operands[0])
                if v is None:
                    # a named constant (const QUEUE_LEN: usize = ..)
                    op0 = dep.resolve_copy(b, s.operands[0])
                    c0 = F.op_const(op0)
                    if isinstance(c0, dict) and "named" in c0:
                        cv = prog.consts.get(c0["named"])
                        if cv and cv.get("val") and "int" in cv["val"]:
                            v = int(cv["val"]["int"])
                if v is not None and v > 0:
                    stats["interval"] += 1
                    ctx.ok(rule, s.key, s.loc, "channel capacity is the constant %d" % v)
                    continue
            cl = _class_of(b, s, classes)
            if cl:
                stats["class"] += 1
                ctx.ok(rule, s.key, s.loc, "reviewed operand class `%s`: %s" % (cl["name"], cl["reason"]))
                continue
            if s.kind == "assert":
                ok, why = panics.overflow_discharged(prog, b, s, iv)
                if ok:
                    stats["interval"] += 1
                    ctx.ok(rule, s.key, s.loc, "cannot fail: " + why)
                    continue
            if s.kind == "unwrap":
                prod = direct_producer(b, s)
                if prod and any(p in prod for p in NONINPUT_PRODUCERS):
                    stats["noninput"] += 1
                    ctx.ok(rule, s.key, s.loc, "not input dependent: unwraps the result of %s (machine assembly / context / lock / channel lifecycle)" % K.short(prod))
                    continue
            ent = table.get(s.key)
            if ent is not None:
                used.add(s.key)
                g = ent.get("guard")
                if g:
                    ok, why = check_guard(prog, b, s, g)
                    if ok:
                        stats["table_guarded"] += 1
                        ctx.ok(rule, s.key, s.loc, "%s [guard re-verified: %s]" % (ent["reason"], why))
                    else:
                        stats["open"] += 1
                        ctx.bad(rule, s.key, s.loc, "tabled discharge no longer holds (%s): %s" % (why, ent["reason"]))
                else:
                    stats["table_reasoned"] += 1
                    ctx.ok(rule, s.key, s.loc, "reviewed: " + ent["reason"])
                continue
            stats["open"] += 1
            ctx.bad(rule, s.key, s.loc, "potential panic (%s %s) reachable from %s with input-dependent operands and no discharge" % (s.kind, s.desc, "the analysed entry points"))
    stale = sorted(k for k in set(table) - used if not k.startswith("_"))
    stats["stale_table_entries"] = len(stale)
    ctx.extra.setdefault("panic_scan", {})[rule] = dict(stats, stale=stale[:20], external_callees_assumed_nonpanicking=len(cg.external))
    return stats


# ------------------------------------------------------------------------------------------------ guards
def check_guard(prog, body, site, g):
    """Structural guard predicates re-verified on every run."""
    gcfg = cfg(body)
    kind = g["kind"]
    if kind == "dominated_by_ok_arm_of":
        # the site is dominated by the Ok/Some arm of a match on the result of the named call
        for bb, t in K.calls_to(body, g["call"]):
            d = F.call_dest(t)
            for s in range(len(body.blocks)):
                if body.is_cleanup(s) or body.term(s)[0] != "switch":
                    continue
                c = dep.switch_condition(body, s)
                if c and c["kind"] == "discr" and c["place"][0] == d[0]:
                    okv = g.get("variant", 0)
                    arm = K.skip_false_edges(body, dep.switch_target(body, s, okv))
                    other = [K.skip_false_edges(body, x) for x in gcfg.succ[s] if K.skip_false_edges(body, x) != arm]
                    if gcfg.dominates(arm, site.bb) and not any(gcfg.dominates(o, site.bb) for o in other):
                        return True, "dominated by the Ok arm of %s" % g["call"]
        return False, "not dominated by the Ok arm of %s" % g["call"]
    if kind == "dominated_by_compare":
        # a comparison between two operands identified by origin atoms; `holds` = relation that must hold at the site
        for s in gcfg.dom_chain(site.bb) + [site.bb]:
            if body.term(s)[0] != "switch":
                continue
            info = K.compare_info(body, s)
            if not info:
                continue
            at = K.at_term(body, s)
            oa, ob = dep.origins(body, info["a"], at=at), dep.origins(body, info["b"], at=at)
            for succ in (info["true"], info["false"]):
                if not gcfg.dominates(succ, site.bb) or succ == (info["false"] if succ == info["true"] else info["true"]):
                    continue
                rel = K.relation_on(info, succ)
                if not rel:
                    continue
                op, x, y = rel
                xo, yo = (oa, ob) if x is info["a"] else (ob, oa)
                if op in g["ops"] and _matches(xo, g["lhs"]) and _matches(yo, g["rhs"]):
                    return True, "dominated by %s(%s, %s)" % (op, g["lhs"], g["rhs"])
        return False, "no dominating comparison %s(%s, %s)" % ("/".join(g["ops"]), g["lhs"], g["rhs"])
    if kind == "dominated_by_true_of":
        for s in gcfg.dom_chain(site.bb) + [site.bb]:
            if body.term(s)[0] != "switch":
                continue
            c = dep.switch_condition(body, s)
            if c and c["kind"] == "call" and (F.callee_key(c["term"]) or "").endswith(g["call"]):
                tr, fa = dep.bool_branches(body, s)
                want = tr if g.get("value", True) else fa
                if tr != fa and gcfg.dominates(want, site.bb):
                    return True, "dominated by %s == %s" % (g["call"], g.get("value", True))
        return False, "not dominated by %s == %s" % (g["call"], g.get("value", True))
    if kind == "operand_from":
        # an operand of the site originates from the named call / min() etc.
        at = K.at_term(body, site.bb)
        o = set()
        for op in site.operands:
            o |= dep.origins(body, op, at=at)
        ok = all(_matches(o, w) for w in g["all"])
        return ok, ("operands originate from %s" % g["all"]) if ok else "operands no longer originate from %s" % g["all"]
    if kind == "const_arg_le":
        v = F.const_int(site.operands[g["arg"]])
        lim = prog.const_val(g["const"]) if isinstance(g["const"], str) else g["const"]
        ok = v is not None and v <= lim
        return ok, "argument %s <= %s" % (v, lim)
    if kind == "all":
        whys = []
        for sub in g["of"]:
            ok, why = check_guard(prog, body, site, sub)
            if not ok:
                return False, why
            whys.append(why)
        return True, "; ".join(whys)
    if kind == "callers_pass_const":
        # every workspace call site of this function passes the given constants
        n = 0
        for b2 in prog.bodies.values():
            for bb, t in K.calls(b2):
                if F.callee_key(t) == body.key:
                    n += 1
                    for idx, want in g["args"].items():
                        v = F.const_int(dep.resolve_copy(b2, F.call_args(t)[int(idx)]))
                        if v != want:
                            return False, "%s passes %s as argument %s (expected the constant %s)" % (b2.pretty, v, idx, want)
        return (n > 0), "all %d call sites pass the constants %s" % (n, g["args"])
    if kind == "decoder_validates":
        # in the named decoder every Ok(..) result is dominated by the given comparison, and the ADT is built only there
        fb = prog.one(g["fn"]) if "::{impl" not in g["fn"] else prog.body(g["fn"])
        fg = cfg(fb)
        oks = [bb for bb, st in K.aggregates(fb, "core::result::Result", "Ok") if st[2][1].get("a") == fb.local_ty(0).get("a")]
        if not oks:
            return False, "no Ok result in %s" % fb.pretty
        class _S:
            pass
        for ob in oks:
            s2 = _S()
            s2.bb = ob
            ok, why = check_guard(prog, fb, s2, g["compare"])
            if not ok:
                return False, "%s: %s" % (fb.pretty, why)
        if g.get("adt"):
            for b2 in prog.bodies.values():
                if b2.key != fb.key and not (b2.derived and b2.impl_trait == "core::clone::Clone") and K.aggregates(b2, g["adt"]):
                    if not any(b2.key.endswith(x) for x in g.get("also_built_in", [])):
                        return False, "%s is also constructed in %s" % (g["adt"], b2.pretty)
                    # tolerated extra constructors (test-only helpers) must have no caller in the workspace
                    if any(F.callee_key(t2) == b2.key for b3 in prog.bodies.values() for _bb, t2 in K.calls(b3)):
                        return False, "%s (extra constructor of %s) has callers in non-test code" % (b2.pretty, g["adt"])
        return True, "%s returns Ok only behind %s and is the only constructor" % (fb.pretty.rsplit("::", 2)[-2] + "::" + fb.pretty.rsplit("::", 1)[-1], g["compare"]["ops"])
    if kind == "decoder_bound":
        return decoder_bound(prog, g)
    if kind == "strip_le_consumed":
        # the amount removed from the front of the message is a constant that does not exceed the number of octets the
        # named decoder has read from that same message on every accepting path (reads that dominate every Ok result)
        from .. import wire
        fb = prog.one(g["fn"]) if "::{impl" not in g["fn"] else prog.body(g["fn"])
        fg = cfg(fb)
        oks = [bb for bb, st in K.aggregates(fb, "core::result::Result", "Ok") if st[2][1].get("a") == fb.local_ty(0).get("a")]
        reads = [r for r in wire.decoder_trace(prog, fb) if not r.get("in_loop") and oks and all(fg.dominates(r["bb"], ob) for ob in oks)]
        consumed = sum(r["width"] for r in reads)
        v = F.const_int(site.operands[g.get("arg", 1)]) if len(site.operands) > g.get("arg", 1) else None
        if v is None and g.get("expr"):
            # not a literal: a fixed multiple of a header field the decoder pins to one value (e.g. ihl * 4 with ihl == 5)
            tree = dep.tree_str(dep.expr_tree(body, site.operands[g.get("arg", 1)], 10))
            if tree not in g["expr"]["forms"]:
                return False, "the amount stripped is %s, expected %s" % (tree, " or ".join(g["expr"]["forms"]))
            ok, why = decoder_bound(prog, g["expr"]["pinned_by"])
            if not ok:
                return False, why
            v = g["expr"]["value"]
        if v is None:
            return False, "the number of octets stripped is not a constant (it depends on the packet): nothing guarantees that the message is that long"
        if v > consumed:
            return False, "%d octets are stripped but the decoder has only read %d on every accepting path" % (v, consumed)
        return True, "%d octets stripped <= %d octets read by the decoder on every accepting path" % (v, consumed)
    if kind == "dominated_by_arm":
        # the site is dominated by arm `variant` of a switch on the discriminant of a place with the given field
        for s in gcfg.dom_chain(site.bb):
            if body.term(s)[0] != "switch":
                continue
            c = dep.switch_condition(body, s)
            if c and c["kind"] == "discr" and F.place_fields(c["place"]) and F.place_fields(c["place"])[-1][1] == g["field"]:
                arm = K.skip_false_edges(body, dep.switch_target(body, s, g["variant"]))
                if gcfg.dominates(arm, site.bb):
                    return True, "dominated by arm %s of the match on .%s" % (g["variant"], g["field"])
        return False, "not dominated by arm %s of a match on .%s" % (g["variant"], g["field"])
    return False, "unknown guard kind %s" % kind


def _matches(atoms, want):
    """want: 'field:Owner.name' | 'call:suffix' | 'param:name' | 'const:n' | 'named:suffix'"""
    k, _, v = want.partition(":")
    if k == "field":
        o, _, n = v.rpartition(".")
        return dep.has_field(atoms, o, n)
    if k == "call":
        return dep.has_call(atoms, v)
    if k == "param":
        return dep.has_param(atoms, v)
    if k == "const":
        return int(v) in dep.consts_of(atoms)
    if k == "named":
        return any(a[0] == "named" and a[1].endswith(v) for a in atoms)
    if k == "upvar":
        return any(a[0] == "upvar" and a[1] == v for a in atoms)
    return False


def _in_select(body, site):
    """Is the site inside a closure generated by tokio::select! (the poll_fn closure)?"""
    if body.kind != "closure":
        return False
    for blk in body.blocks:
        t = blk["t"]
        if t[0] == "call" and len(t) > 7 and t[7] and any("select!" in m for m in t[7]):
            return True
        for st in blk["s"]:
            if st[0] == "a" and st[4] and any("select!" in m for m in st[4]):
                return True
    return False


def _class_of(body, site, classes):
    """Operand classes: one reviewed reason covering every arithmetic site of a function-key prefix whose operands
    are only the named counter variable(s) (read directly or through `*`) and constants."""
    if site.kind != "assert":
        return None
    for cl in classes:
        if not body.key.startswith(cl["fn_prefix"]):
            continue
        if site.desc not in cl.get("descs", [site.desc]):
            continue
        ok = True
        seen_var = False
        for op in site.operands:
            r = dep.resolve_copy(body, op)
            if r[0] == "c":
                continue
            pl = F.op_place(r)
            if pl is not None and 1 <= pl[0] <= body.argc and body.local_name(pl[0]) in cl["vars"] and all(e == "*" for e in pl[1]):
                seen_var = True
                continue
            ok = False
        if ok and seen_var:
            return cl
    return None



_DB_CACHE = {}


def decoder_bound(prog, g):
    """Every header the named decoder accepts satisfies the arithmetic bound `g["bound"]` (a Python expression over the
    result's field names). Decided on the formula extracted from the decoder: the conditions on the paths to Ok(..) are
    evaluated for every combination of critical values of the bytes the bounded fields are read from (the constants of
    the conditions, the type limits and the bound's own boundary, each +-1); conditions that do not involve those
    bytes (version, reserved bits, checksum) are independent of them and assumed satisfiable."""
    from .. import symx as S
    key = (id(prog), json.dumps(g, sort_keys=True))
    if key in _DB_CACHE:
        return _DB_CACHE[key]
    fb = prog.one(g["fn"]) if "::{impl" not in g["fn"] else prog.body(g["fn"])
    try:
        ex = S.Extractor(prog, (), effects=True, max_nodes=40000)
        t = ex.run(fb, S.params_of(fb))
    except S.Unsupported as e:
        r = (False, "cannot reduce %s to a formula (%s)" % (fb.pretty, e))
        _DB_CACHE[key] = r
        return r
    adt = prog.adt(g["adt"])
    fnames = [f["name"] for f in adt["variants"][0]["fields"]]
    is_ok = lambda x: x[0] == "agg" and x[1].endswith("Result::Ok") and len(x[2]) == 1 and x[2][0][0] == "agg" and len(x[2][0][2]) == len(fnames)
    paths = S.ok_paths(t, is_ok)
    if not paths:
        r = (False, "%s has no Ok(..) result" % fb.pretty)
        _DB_CACHE[key] = r
        return r
    fields = g["fields"]          # names used by the bound
    is_read = lambda x: x[0] == "field" and x[2] == "0" and x[1][0] == "downcast"
    why = None
    npts = 0
    for conds, leaf in paths:
        hdr = dict(zip(fnames, leaf[2][0][2]))
        reads = []
        for f in fields:
            for a in S.atoms(hdr[f], is_read):
                if a not in reads:
                    reads.append(a)
        if not reads or len(reads) > 3:
            why = "the fields %s of the accepted header are not simple functions of the bytes read (%d sources)" % (fields, len(reads))
            break
        crit = {0, 1, 2, 255, 256, 0x1fff, 0x2000, 0x7fff, 0x8000, 0xfffe, 0xffff}
        for c, _o in conds:
            S_consts(c, crit)
        crit |= set(g.get("critical", []))
        crit = sorted({(c + d) & 0xffff for c in crit for d in (-8, -1, 0, 1, 8)})
        rel = [(c, o) for c, o in conds if any(a in S.atoms(c, is_read) for a in reads)]
        import itertools
        for vals in itertools.product(crit, repeat=len(reads)):
            env = dict(zip(reads, vals))
            acc = True
            for c, o in rel:
                try:
                    v = S.concrete(c, env, 16)
                except KeyError:
                    continue          # also depends on other bytes: independent, assumed satisfiable
                except S.Panics:
                    acc = False        # a panic is reported by the site's own entry, not here
                    break
                v = int(v) if isinstance(v, bool) else v
                if (o[0] == "is" and bool(v) != o[1]) or (o[0] == "eq" and v != o[1]) or (o[0] == "ne" and v in o[1]):
                    acc = False
                    break
            if not acc:
                continue
            npts += 1
            try:
                fv = {f: int(S.concrete(hdr[f], env, 16)) for f in fields}
            except (KeyError, S.Panics) as e:
                why = "cannot evaluate the accepted header's fields (%r)" % (e,)
                break
            if not eval(g["bound"], {"__builtins__": {}}, fv):
                why = "%s accepts a header with %s, which violates %s" % (fb.pretty.rsplit("::", 2)[-2] + "::" + fb.pretty.rsplit("::", 1)[-1],
                                                                     ", ".join("%s=%d" % kv for kv in sorted(fv.items())), g["bound"])
                break
        if why:
            break
    r = (False, why) if why else (True, "every header accepted by %s satisfies %s (%d accepted critical points)" % (fb.pretty.rsplit("::", 1)[-1], g["bound"], npts))
    if not why and npts == 0:
        r = (False, "no accepted point found for %s: the bound check is vacuous" % fb.pretty)
    _DB_CACHE[key] = r
    return r


def S_consts(t, out):
    if isinstance(t, tuple):
        if t and t[0] == "const" and isinstance(t[1], int) and 0 <= t[1] <= 0xffffffff:
            out.add(t[1] & 0xffff)
            out.add((t[1] >> 3) & 0xffff)
        for x in t[1:]:
            if isinstance(x, tuple):
                S_consts(x, out)



def _only_constructor(prog, fn, adt, also):
    fb = prog.one(fn) if "::{impl" not in fn else prog.body(fn)
    for b2 in prog.bodies.values():
        if b2.key != fb.key and not (b2.derived and b2.impl_trait == "core::clone::Clone") and K.aggregates(b2, adt):
            if not any(b2.key.endswith(x) for x in also):
                return False
            if any(F.callee_key(t2) == b2.key for b3 in prog.bodies.values() for _bb, t2 in K.calls(b3)):
                return False
    return True
