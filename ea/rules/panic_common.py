"""Shared P-PANIC driver for C14 / C16 / C17 (DESIGN.md §3/R4)."""
import json, os

from .. import facts as F
from ..cfg import cfg
from .. import dep, panics
from . import common as K

# producers whose failure does not depend on packet bytes / segment fields / NDL text:
# machine assembly, protocol context put there by the lower layer, lock poisoning, channel lifecycle
NONINPUT_PRODUCERS = (
    "machine::{impl#0}::protocol", "machine::{impl#0}::get", "control::{impl#0}::get",
    "::lock", "::read", "::write", "::try_lock", "mpsc::bounded::{impl#", "mpsc::unbounded::{impl#", "broadcast::{impl#",
    "::try_into", "pci::{impl#0}::open", "::downcast", "JoinHandle", "join_next", "task::spawn",
    "std::fs::read_to_string", "watch::{impl#", "::changed", "any::type_name",
)
CONTRACT_FNS = {
    "elvis_core::message::{impl#0}::cut": "Message::cut(len <= self.len())",
    "elvis_core::message::{impl#0}::remove_front": "Message::remove_front(len <= self.len())",
    "elvis_core::message::{impl#0}::slice": "Message::slice(range within self.len())",
}
TRUSTED_MODULES = ("elvis_core::message::",)


def load_table(name):
    p = os.path.join(os.path.dirname(os.path.dirname(os.path.abspath(__file__))), "tables", name)
    with open(p) as f:
        return json.load(f)


def direct_producer(body, site):
    """Callee key of the call that directly produced the unwrapped value (through transparent adapters)."""
    op = site.operands[0]
    for _ in range(8):
        pl = F.op_place(op)
        if pl is None:
            return None
        c = dep.single_def_call(body, pl[0])
        if c is not None:
            ck = F.callee_key(c[1]) or ""
            name = ck.rsplit("::", 1)[-1]
            if name in ("as_ref", "as_mut", "clone", "deref", "deref_mut", "cloned", "copied", "map", "ok", "ok_or", "map_err", "as_deref", "or") and F.call_args(c[1]):
                op = F.call_args(c[1])[0]
                continue
            if name in ("poll",) or "{closure#" in ck:
                return ck
            return ck
        r = dep.single_def_rvalue(body, pl[0])
        if r is None:
            return None
        rv = r[1]
        if rv[0] == "use":
            op = rv[1]
        elif rv[0] == "ref":
            op = ["cp", [rv[2][0], []]]
        else:
            return None
    return None


def scan(ctx, rule, entries, in_scope, table, key_prefix_filter=None):
    """Enumerate and decide the panic sites reachable from `entries` inside `in_scope(body key)`."""
    prog, cg = ctx.prog(), ctx.cg()
    reach = cg.reach(entries, skip_kinds=("generic",))
    bodies = sorted(k for k in reach if in_scope(k))
    stats = {"bodies": len(bodies), "sites": 0, "interval": 0, "noninput": 0, "table_guarded": 0, "table_reasoned": 0, "open": 0, "trusted_module": 0}
    used = set()
    for k in bodies:
        b = prog.bodies[k]
        if any(k.startswith(m) for m in TRUSTED_MODULES):
            stats["trusted_module"] += 1
            continue
        sites = panics.enumerate_sites(prog, b, CONTRACT_FNS)
        iv = panics.Intervals(prog, b)
        for s in sites:
            stats["sites"] += 1
            if s.kind == "assert":
                ok, why = panics.overflow_discharged(prog, b, s, iv)
                if ok:
                    stats["interval"] += 1
                    ctx.ok(rule, s.key, s.loc, "cannot fail: " + why)
                    continue
            if s.kind == "unwrap":
                prod = direct_producer(b, s)
                if prod and any(p in prod for p in NONINPUT_PRODUCERS):
                    stats["noninput"] += 1
                    ctx.ok(rule, s.key, s.loc, "not input dependent: unwraps the result of %s (machine assembly / context / lock / channel lifecycle)" % K.short(prod))
                    continue
            ent = table.get(s.key)
            if ent is not None:
                used.add(s.key)
                g = ent.get("guard")
                if g:
                    ok, why = check_guard(prog, b, s, g)
                    if ok:
                        stats["table_guarded"] += 1
                        ctx.ok(rule, s.key, s.loc, "%s [guard re-verified: %s]" % (ent["reason"], why))
                    else:
                        stats["open"] += 1
                        ctx.bad(rule, s.key, s.loc, "tabled discharge no longer holds (%s): %s" % (why, ent["reason"]))
                else:
                    stats["table_reasoned"] += 1
                    ctx.ok(rule, s.key, s.loc, "reviewed: " + ent["reason"])
                continue
            stats["open"] += 1
            ctx.bad(rule, s.key, s.loc, "potential panic (%s %s) reachable from %s with input-dependent operands and no discharge" % (s.kind, s.desc, "the analysed entry points"))
    stale = sorted(set(table) - used - {"_comment"})
    stats["stale_table_entries"] = len(stale)
    ctx.extra.setdefault("panic_scan", {})[rule] = dict(stats, stale=stale[:20], external_callees_assumed_nonpanicking=len(cg.external))
    return stats


# ------------------------------------------------------------------------------------------------ guards
def check_guard(prog, body, site, g):
    """Structural guard predicates re-verified on every run."""
    gcfg = cfg(body)
    kind = g["kind"]
    if kind == "dominated_by_ok_arm_of":
        # the site is dominated by the Ok/Some arm of a match on the result of the named call
        for bb, t in K.calls_to(body, g["call"]):
            d = F.call_dest(t)
            for s in range(len(body.blocks)):
                if body.is_cleanup(s) or body.term(s)[0] != "switch":
                    continue
                c = dep.switch_condition(body, s)
                if c and c["kind"] == "discr" and c["place"][0] == d[0]:
                    okv = g.get("variant", 0)
                    arm = K.skip_false_edges(body, dep.switch_target(body, s, okv))
                    other = [K.skip_false_edges(body, x) for x in gcfg.succ[s] if K.skip_false_edges(body, x) != arm]
                    if gcfg.dominates(arm, site.bb) and not any(gcfg.dominates(o, site.bb) for o in other):
                        return True, "dominated by the Ok arm of %s" % g["call"]
        return False, "not dominated by the Ok arm of %s" % g["call"]
    if kind == "dominated_by_compare":
        # a comparison between two operands identified by origin atoms; `holds` = relation that must hold at the site
        for s in gcfg.dom_chain(site.bb) + [site.bb]:
            if body.term(s)[0] != "switch":
                continue
            info = K.compare_info(body, s)
            if not info:
                continue
            at = K.at_term(body, s)
            oa, ob = dep.origins(body, info["a"], at=at), dep.origins(body, info["b"], at=at)
            for succ in (info["true"], info["false"]):
                if not gcfg.dominates(succ, site.bb) or succ == (info["false"] if succ == info["true"] else info["true"]):
                    continue
                rel = K.relation_on(info, succ)
                if not rel:
                    continue
                op, x, y = rel
                xo, yo = (oa, ob) if x is info["a"] else (ob, oa)
                if op in g["ops"] and _matches(xo, g["lhs"]) and _matches(yo, g["rhs"]):
                    return True, "dominated by %s(%s, %s)" % (op, g["lhs"], g["rhs"])
        return False, "no dominating comparison %s(%s, %s)" % ("/".join(g["ops"]), g["lhs"], g["rhs"])
    if kind == "dominated_by_true_of":
        for s in gcfg.dom_chain(site.bb) + [site.bb]:
            if body.term(s)[0] != "switch":
                continue
            c = dep.switch_condition(body, s)
            if c and c["kind"] == "call" and (F.callee_key(c["term"]) or "").endswith(g["call"]):
                tr, fa = dep.bool_branches(body, s)
                want = tr if g.get("value", True) else fa
                if tr != fa and gcfg.dominates(want, site.bb):
                    return True, "dominated by %s == %s" % (g["call"], g.get("value", True))
        return False, "not dominated by %s == %s" % (g["call"], g.get("value", True))
    if kind == "operand_from":
        # an operand of the site originates from the named call / min() etc.
        at = K.at_term(body, site.bb)
        o = set()
        for op in site.operands:
            o |= dep.origins(body, op, at=at)
        ok = all(_matches(o, w) for w in g["all"])
        return ok, ("operands originate from %s" % g["all"]) if ok else "operands no longer originate from %s" % g["all"]
    if kind == "const_arg_le":
        v = F.const_int(site.operands[g["arg"]])
        lim = prog.const_val(g["const"]) if isinstance(g["const"], str) else g["const"]
        ok = v is not None and v <= lim
        return ok, "argument %s <= %s" % (v, lim)
    return False, "unknown guard kind %s" % kind


def _matches(atoms, want):
    """want: 'field:Owner.name' | 'call:suffix' | 'param:name' | 'const:n' | 'named:suffix'"""
    k, _, v = want.partition(":")
    if k == "field":
        o, _, n = v.rpartition(".")
        return dep.has_field(atoms, o, n)
    if k == "call":
        return dep.has_call(atoms, v)
    if k == "param":
        return dep.has_param(atoms, v)
    if k == "const":
        return int(v) in dep.consts_of(atoms)
    if k == "named":
        return any(a[0] == "named" and a[1].endswith(v) for a in atoms)
    if k == "upvar":
        return any(a[0] == "upvar" and a[1] == v for a in atoms)
    return False
