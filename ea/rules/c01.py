"""C01 — TCP delivers a reliable, ordered, exactly-once byte stream: structural necessary conditions (DESIGN.md §4 C01)."""
from .. import facts as F
from ..cfg import cfg
from .. import dep
from . import common as K
from . import tcpmodel as T
from . import c17

LEVEL = "other"
EXPLANATION = (
    "Structural necessary conditions of the stream property inside the TCB, each decided for all schedules: "
    "(T-INORDER) Tcb::segment_arrives hands a queued segment to process_segment only on the branch where it is not "
    "beyond RCV.NXT (circular comparison of the peeked segment's SEQ with self.rcv.nxt) or the state is SYN-SENT, and "
    "pops exactly the segment it peeked; (T-ACK-PRUNE) every write of SND.UNA is followed on every path to a "
    "non-deleting return by remove_acked_from_retransmission(SND.UNA) (LAST-ACK is the tabled exception); "
    "(T-APPEND) the send and receive byte streams of the TCB grow only at their end; (T-RETX-ARM) the timeout branch of advance_time re-arms every queued segment, every element of the "
    "retransmission queue is built by Transmit::new (armed), and segments() emits exactly the armed ones; "
    "(T-SYNSENT, T-WINDOW) shared with C17. Breaking any of them breaks the stream for some admissible schedule. "
    "Not decided: prefix/exactly-once/convergence themselves (schedules x byte strings need execution or a proof).")
ASSUMPTIONS = ["BinaryHeap::peek followed by pop (no push in between) returns the same element"]
TECHNIQUE = "static analysis: dominance / must-pass-through / data-dependence rules over rustc MIR (+ shared finite-domain model of process_segment)"
PRIMS = "elvis_core::protocols::tcp::tcb::modular_cmp::"


# relation "x REL y" asserted by comparator(x, y) returning true
CMP_REL = {"mod_lt": "lt", "mod_leq": "le", "mod_gt": "gt", "mod_geq": "ge"}
NEG = {"lt": "ge", "le": "gt", "gt": "le", "ge": "lt"}
FLIP = {"lt": "gt", "le": "ge", "gt": "lt", "ge": "le"}


def _una_vs_end(rel, a_is_end, b_is_end):
    """Orient `a rel b` as `UNA rel' END`."""
    if b_is_end and not a_is_end:
        return rel
    if a_is_end and not b_is_end:
        return FLIP[rel]
    return None


def removal_rule(prog, rp):
    """Entries leave outgoing.retransmit exactly on the condition SND.UNA >= SEQ + LEN. Two idioms are understood:
    an index loop with VecDeque::remove under a comparator branch, and VecDeque::retain with a comparator closure."""
    from .. import symx as S
    probs = []
    rem = [(bb, t) for bb, t in K.calls(rp) if (F.callee_key(t) or "").endswith("vec_deque::{impl#5}::remove")]
    ret = [(bb, t) for bb, t in K.calls(rp) if (F.callee_key(t) or "").rsplit("::", 1)[-1] in ("retain", "retain_mut")]
    if len(rem) == 1 and not ret:
        if not dep.has_field(dep.arg_origins(rp, rem[0][0], 0), "Outgoing", "retransmit"):
            return ["remove_acked_from_retransmission does not remove from outgoing.retransmit"]
        rg = cfg(rp)
        found = None
        for s in rg.dom_chain(rem[0][0]):
            if rp.term(s)[0] != "switch":
                continue
            c = dep.switch_condition(rp, s)
            if not (c and c["kind"] == "call" and (F.callee_key(c["term"]) or "").startswith(PRIMS)):
                continue
            nm = (F.callee_key(c["term"]) or "").rsplit("::", 1)[-1]
            if nm not in CMP_REL:
                continue
            a0 = dep.arg_origins(rp, c["call_bb"], 0)
            a1 = dep.arg_origins(rp, c["call_bb"], 1)
            is_end = lambda o: dep.has_field(o, "TcpHeader", "seq") and dep.has_call(o, "segment::{impl#0}::seg_len")
            is_una = lambda o: dep.has_param(o, "snd_una") and not dep.has_field(o, "TcpHeader", "seq")
            if not ((is_end(a0) and is_una(a1)) or (is_una(a0) and is_end(a1))):
                continue
            tr, fa = dep.bool_branches(rp, s)
            on_true = rg.dominates(tr, rem[0][0]) and not rg.dominates(fa, rem[0][0])
            on_false = rg.dominates(fa, rem[0][0]) and not rg.dominates(tr, rem[0][0])
            if not (on_true or on_false):
                continue
            rel = CMP_REL[nm] if on_true else NEG[CMP_REL[nm]]
            found = _una_vs_end(rel, is_end(a0), is_end(a1))
        if found is None:
            probs.append("removal is not decided by a circular comparison of SND.UNA with SEG.SEQ + SEG.LEN (a segment must stay queued until its last byte is acknowledged)")
        elif found != "ge":
            probs.append("a queue entry is removed when SND.UNA %s SEQ+LEN; it must be removed exactly when SND.UNA >= SEQ+LEN" % {"lt": "<", "le": "<=", "gt": ">"}[found])
        return probs
    if len(ret) == 1 and not rem:
        bb, t = ret[0]
        if not dep.has_field(dep.arg_origins(rp, bb, 0), "Outgoing", "retransmit"):
            return ["remove_acked_from_retransmission does not prune outgoing.retransmit"]
        kids = [k for k in prog.children(rp) if k.kind == "closure"]
        if len(kids) != 1:
            return ["retain() predicate of remove_acked_from_retransmission not found"]
        cb = kids[0]
        try:
            f, _ex = S.extract(prog, cb)
        except S.Unsupported as e:
            return ["retain() predicate too complex to decide (%s)" % e]
        neg = False
        while f[0] == "not":
            neg = not neg
            f = f[1]
        nm = f[1].rsplit("::", 1)[-1] if f[0] == "call" else None
        if f[0] != "call" or not f[1].startswith(PRIMS) or nm not in CMP_REL:
            return ["the retain() predicate is not a circular comparison: %s" % S.term_str(f)]

        def cls(x):
            at = {repr(a) for a, _c in S.lin(x)[0]}
            has_seq = any("'seq'" in a for a in at)
            has_len = any("seg_len" in a for a in at)
            return "end" if has_seq and has_len else "seq" if has_seq else "una"
        ca, cb_ = cls(f[2][0]), cls(f[2][1])
        if {ca, cb_} != {"end", "una"}:
            return ["the retain() predicate compares %s: a segment must stay queued until SND.UNA reaches SEQ + LEN (its last byte), not merely its first byte" % S.term_str(f)]
        keep = CMP_REL[nm] if not neg else NEG[CMP_REL[nm]]
        keep = _una_vs_end(keep, ca == "end", cb_ == "end")
        removed = NEG[keep]
        if removed != "ge":
            return ["retain() drops an entry when SND.UNA %s SEQ+LEN; it must drop it exactly when SND.UNA >= SEQ+LEN" % {"lt": "<", "le": "<=", "gt": ">"}[removed]]
        return []
    return ["remove_acked_from_retransmission neither removes entries under a comparison nor retains by one (found %d remove, %d retain calls)" % (len(rem), len(ret))]


def check_inorder(ctx):
    """T-INORDER (shared with C03: a FIN is a queued segment like any other)."""
    prog = ctx.prog()
    sa = prog.method("Tcb", "segment_arrives")
    ps = prog.method("Tcb", "process_segment")
    g = cfg(sa)

    # ---------------------------------------------------------------- T-INORDER
    probs = []
    pcs = K.calls_to(sa, ps.key)
    if len(pcs) != 1:
        probs.append("expected one process_segment call in segment_arrives, found %d" % len(pcs))
    else:
        pbb = pcs[0][0]
        pass_blocks = set()
        beyond_blocks = set()
        for s in range(len(sa.blocks)):
            if sa.is_cleanup(s) or sa.term(s)[0] != "switch":
                continue
            c = dep.switch_condition(sa, s)
            if not c or c["kind"] != "call":
                continue
            ck = F.callee_key(c["term"]) or ""
            tr, fa = dep.bool_branches(sa, s)
            if ck.startswith(PRIMS):
                nm = ck.rsplit("::", 1)[-1]
                a0 = dep.arg_origins(sa, c["call_bb"], 0, through_calls=True)
                a1 = dep.arg_origins(sa, c["call_bb"], 1, through_calls=True)
                seq0 = dep.has_field(a0, "TcpHeader", "seq") and dep.has_call(a0, "::peek")
                nxt1 = dep.has_field(a1, "ReceiveSequenceSpace", "nxt") and not dep.has_field(a1, "TcpHeader", "seq")
                seq1 = dep.has_field(a1, "TcpHeader", "seq") and dep.has_call(a1, "::peek")
                nxt0 = dep.has_field(a0, "ReceiveSequenceSpace", "nxt") and not dep.has_field(a0, "TcpHeader", "seq")
                extra = any(x[0] == "op" or x[0] == "const" for x in (a0 | a1)) or dep.has_call(a0 | a1, "wrapping_add") or dep.has_call(a0 | a1, "wrapping_sub")
                if extra:
                    continue
                # successor on which seq <= rcv.nxt (not beyond)
                table = {("mod_gt", "sn"): fa, ("mod_leq", "sn"): tr, ("mod_lt", "ns"): fa, ("mod_geq", "ns"): tr}
                form = "sn" if (seq0 and nxt1) else ("ns" if (nxt0 and seq1) else None)
                if form and (nm, form) in table:
                    ok_succ = table[(nm, form)]
                    pass_blocks.add(ok_succ)
                    beyond_blocks.add(tr if ok_succ == fa else fa)
            info = K.compare_info(sa, s)
            if info and info["op"] in ("Eq", "Ne"):
                oa = dep.origins(sa, info["a"], at=K.at_term(sa, s), through_calls=False)
                ob = dep.origins(sa, info["b"], at=K.at_term(sa, s), through_calls=False)
                if dep.has_field(oa | ob, "tcb::Tcb", "state") and {a[2] for a in oa | ob if a[0] == "agg" and a[1] == T.STATE_ADT} == {"SynSent"}:
                    rel = K.relation_on(info, info["true"])
                    eqb = info["true"] if rel and rel[0] == "Eq" else info["false"]
                    pass_blocks.add(eqb)
        if not beyond_blocks:
            probs.append("no circular comparison of the queued segment's SEQ with RCV.NXT guards process_segment: out-of-order segments are consumed and delivered bytes stop being a prefix")
        else:
            if not g.all_paths_through(0, [pbb], pass_blocks):
                probs.append("process_segment is reachable without passing the `SEQ not beyond RCV.NXT` (or SYN-SENT) branch")
            for b2 in beyond_blocks:
                # from the 'beyond' branch the segment must not be processed in this iteration: it may only leave the loop
                if g.reaches(b2, pbb) or b2 == pbb:
                    probs.append("the branch for a segment beyond RCV.NXT can still reach process_segment")
        pops = [(bb, t) for bb, t in K.calls(sa) if (F.callee_key(t) or "").endswith("binary_heap::{impl#11}::pop") or ((F.callee(t) or {}).get("pretty", "").endswith("BinaryHeap::<T, A>::pop"))]
        peeks = [(bb, t) for bb, t in K.calls(sa) if "::peek" in (F.callee_key(t) or "")]
        pushes = [(bb, t) for bb, t in K.calls(sa) if (F.callee(t) or {}).get("pretty", "").endswith("::push") and "binary_heap" in (F.callee_key(t) or "")]
        if len(pops) != 1 or len(peeks) != 1:
            probs.append("expected one peek and one pop on incoming.segments (found %d, %d)" % (len(peeks), len(pops)))
        else:
            if not g.dominates(peeks[0][0], pops[0][0]) or any(g.reaches(peeks[0][0], pb) and g.reaches(pb, pops[0][0]) for pb, _ in pushes):
                probs.append("the segment popped is not necessarily the one whose SEQ was tested")
            ao = dep.arg_origins(sa, pbb, 1)
            if not any(a[0] == "call" and a[2] == pops[0][0] for a in ao):
                probs.append("the segment processed is not the one popped from the queue")
            for bb, t in pops + peeks:
                if not dep.has_field(dep.arg_origins(sa, bb, 0), "Incoming", "segments"):
                    probs.append("peek/pop is not on self.incoming.segments")
    (ctx.bad if probs else ctx.ok)("T-INORDER", "T-INORDER:segment_arrives", sa.span, "; ".join(probs) if probs else
        "process_segment only for the popped segment whose SEQ is not beyond RCV.NXT (circular) or in SYN-SENT")



def run(ctx):
    prog = ctx.prog()
    ps = prog.method("Tcb", "process_segment")
    check_inorder(ctx)

    # ---------------------------------------------------------------- T-ACK-PRUNE
    m = T.TcbModel(prog, ps)
    nw = 0
    for b in (ps, prog.method("Tcb", "ack_established_processing")):
        bg = cfg(b)
        prunes = K.calls_to(b, "tcb::{impl#0}::remove_acked_from_retransmission")
        deleting = [bb for bb, st in K.aggregates(b, "tcb::ProcessSegmentResult") if st[2][1]["v"] in ("FinalizeClose", "ConnectionReset", "ConnectionRefused", "ReturnToListen", "BlindReset")]
        for bb, st in K.assigns_to_field(b, "SendSequenceSpace", ("una",)):
            nw += 1
            i = [k for k, s in enumerate(b.stmts(bb)) if s is st][0]
            states = sorted({t[1] for t in m.at_stmt(bb, i)}) if b is ps else ["*"]
            key = "T-ACK-PRUNE:%s@%s" % (b.key.rsplit("::", 1)[-1], "+".join(states))
            good = [p for p, t in prunes if dep.has_field(dep.arg_origins(b, p, 1, through_calls=False), "SendSequenceSpace", "una")]
            ok = bg.all_paths_through(bb, bg.returns, set(good) | set(deleting)) if bb not in good else True
            if ok:
                ctx.ok("T-ACK-PRUNE", key, st[3], "SND.UNA write is followed by remove_acked_from_retransmission(SND.UNA) on every non-deleting path")
            elif states == ["LastAck"]:
                ctx.ok("T-ACK-PRUNE", key, st[3], "tabled exception: in LAST-ACK only the FIN is outstanding; the TCB is deleted when this ACK covers it")
            else:
                ctx.bad("T-ACK-PRUNE", key, st[3], "SND.UNA is advanced (state %s) but acknowledged segments are not removed from the retransmission queue on some path: they are retransmitted forever" % states)
    ctx.require(nw >= 3, "T-ACK-PRUNE: only %d writes of SND.UNA found" % nw)
    rp = prog.method("Tcb", "remove_acked_from_retransmission")
    probs = removal_rule(prog, rp)
    (ctx.bad if probs else ctx.ok)("T-ACK-PRUNE", "T-ACK-PRUNE:remove_acked", rp.span, "; ".join(probs) if probs else
        "a queue entry is removed exactly when SND.UNA >= SEG.SEQ + SEG.LEN (circular): partially acknowledged segments stay queued")

    # ---------------------------------------------------------------- T-APPEND
    # the byte streams kept in the TCB grow at their end only: stream.concatenate(new), never new.concatenate(stream)
    napp = 0
    for b in prog.bodies.values():
        if not b.key.startswith("elvis_core::protocols::tcp::tcb") or "::tests" in b.key:
            continue
        for bb, t in K.calls(b):
            if not (F.callee_key(t) or "").endswith("message::{impl#0}::concatenate"):
                continue
            o0 = dep.arg_origins(b, bb, 0, through_calls=False)
            o1 = set(dep.arg_origins(b, bb, 1, through_calls=False))
            for a in list(o1):
                # the whole stream moved out by value: mem::take / mem::replace / clone of the field
                if a[0] == "call" and a[1] and a[1].rsplit("::", 1)[-1] in ("take", "replace", "clone") and isinstance(a[2], int):
                    o1 |= set(dep.arg_origins(b, a[2], 0, through_calls=False))
            stream = [f for f in (("Incoming", "text"), ("Outgoing", "text")) if dep.has_field(o0, f[0], f[1])]
            rev = [f for f in (("Incoming", "text"), ("Outgoing", "text")) if dep.has_field(o1, f[0], f[1])]
            if not stream and not rev:
                continue
            napp += 1
            key = "T-APPEND:%s@%s" % (".".join((stream or rev)[0]), b.key.rsplit("::", 1)[-1])
            if stream and not rev:
                ctx.ok("T-APPEND", key, F.call_loc(t), "%s.%s grows at its end (stream.concatenate(new bytes))" % stream[0])
            else:
                ctx.bad("T-APPEND", key, F.call_loc(t), "the accumulated stream %s.%s is appended to the new bytes instead of the other way round: bytes are delivered out of order" % (rev or stream)[0])
    ctx.require(napp >= 2, "T-APPEND: only %d stream concatenations found in the TCB" % napp)

    # ---------------------------------------------------------------- T-RETX-ARM
    at = prog.method("Tcb", "advance_time")
    ag = cfg(at)
    probs = []
    arms = [(bb, st) for bb, st in K.assigns_to_field(at, "outgoing::Transmit", ("needs_transmit",))]
    if len(arms) != 1 or F.const_int(arms[0][1][2][1]) != 1:
        probs.append("advance_time does not set needs_transmit = true")
    else:
        abb = arms[0][0]
        if not ag.in_loop(abb):
            probs.append("needs_transmit is not set for every queued segment (no loop)")
        guard = None
        for s in ag.dom_chain(abb):
            if at.term(s)[0] != "switch":
                continue
            info = K.compare_info(at, s)
            if info:
                oa = dep.origins(at, info["a"], at=K.at_term(at, s))
                ob = dep.origins(at, info["b"], at=K.at_term(at, s))
                if (dep.has_param(oa, "delta_time") and dep.has_field(ob, "Timeouts", "retransmission")) or (dep.has_param(ob, "delta_time") and dep.has_field(oa, "Timeouts", "retransmission")):
                    for succ in (info["true"], info["false"]):
                        rel = K.relation_on(info, succ)
                        if rel and ag.dominates(succ, abb):
                            op, x, y = rel
                            xo = oa if x is info["a"] else ob
                            # timeout branch: retransmission < delta_time (or <=)
                            if op in ("Lt", "Le") and dep.has_field(xo, "Timeouts", "retransmission"):
                                guard = s
        if guard is None:
            probs.append("re-arming is not on the branch where the elapsed time exceeds the retransmission timeout")
        it = [(bb, t) for bb, t in K.calls(at) if "iter_mut" in (F.callee_key(t) or "")]
        if not it or not dep.has_field(dep.arg_origins(at, it[0][0], 0), "Outgoing", "retransmit"):
            probs.append("the loop does not iterate outgoing.retransmit")
    (ctx.bad if probs else ctx.ok)("T-RETX-ARM", "T-RETX-ARM:advance_time", at.span, "; ".join(probs) if probs else
        "timeout branch sets needs_transmit = true for every element of outgoing.retransmit")
    # every element of the queue is built armed
    tn = prog.method("Transmit", "new")
    aggs = []
    for b in prog.bodies.values():
        for bb, st in K.aggregates(b, "outgoing::Transmit"):
            aggs.append((b, bb, st))
    for b, bb, st in aggs:
        ok = b.key == tn.key and F.const_int(K.agg_field_operand(st, "needs_transmit")) == 1
        ok = ok or (b.derived and b.impl_trait == "core::clone::Clone")
        (ctx.ok if ok else ctx.bad)("T-RETX-ARM", "T-RETX-ARM:Transmit{}@%s" % b.key, st[3],
            "Transmit built armed in Transmit::new" if ok else "a Transmit is built outside Transmit::new or unarmed in %s" % b.pretty)
    npush = 0
    for b in prog.bodies.values():
        if not b.key.startswith("elvis_core::protocols::tcp"):
            continue
        for bb, t in K.calls(b):
            ck = F.callee_key(t) or ""
            if ck.startswith("alloc::collections::vec_deque::") and ck.rsplit("::", 1)[-1] in ("push_back", "push_front", "insert", "extend"):
                if dep.has_field(dep.arg_origins(b, bb, 0), "Outgoing", "retransmit"):
                    npush += 1
                    ok = dep.has_call(dep.arg_origins(b, bb, 1), tn.key) and ck.endswith("push_back")
                    (ctx.ok if ok else ctx.bad)("T-RETX-ARM", "T-RETX-ARM:push@%s" % b.key, F.call_loc(t),
                        "retransmission queue element = Transmit::new(..) appended in order" if ok else "an element enters outgoing.retransmit without Transmit::new / out of order in %s" % b.pretty)
    ctx.require(npush >= 2, "T-RETX-ARM: only %d pushes to outgoing.retransmit found" % npush)
    sg = prog.method("Tcb", "segments")
    sgg = cfg(sg)
    probs = []
    emits = []
    for bb, t in K.calls(sg):
        ck = F.callee_key(t) or ""
        pretty = (F.callee(t) or {}).get("pretty", "")
        if "vec::Vec" in pretty and pretty.endswith("::push"):
            o = dep.arg_origins(sg, bb, 1)
            if dep.has_field(o, "outgoing::Transmit", "segment"):
                emits.append(bb)
    if len(emits) != 1:
        probs.append("expected one emission of queued segments in segments(), found %d" % len(emits))
    else:
        guard = None
        for s in sgg.dom_chain(emits[0]):
            if sg.term(s)[0] == "switch":
                c = dep.switch_condition(sg, s)
                if c and c["kind"] == "place" and ("elvis_core::protocols::tcp::tcb::outgoing::Transmit", "needs_transmit") in F.place_fields(c["place"]):
                    tr, fa = dep.bool_branches(sg, s)
                    if sgg.dominates(tr, emits[0]):
                        guard = s
        if guard is None:
            probs.append("queued segments are emitted regardless of needs_transmit")
        if not sgg.in_loop(emits[0]):
            probs.append("not every armed segment is emitted (no loop)")
        clears = [(bb, st) for bb, st in K.assigns_to_field(sg, "outgoing::Transmit", ("needs_transmit",)) if F.const_int(st[2][1]) == 0]
        if len(clears) != 1:
            probs.append("needs_transmit is not cleared after emission")
    (ctx.bad if probs else ctx.ok)("T-RETX-ARM", "T-RETX-ARM:segments", sg.span, "; ".join(probs) if probs else
        "segments() emits exactly the armed queue entries and disarms them")

    # ---------------------------------------------------------------- shared with C17
    sub = type(ctx)(tier=ctx.tier, repo=ctx.repo)
    sub._progs, sub._cgs, sub.meta = ctx._progs, ctx._cgs, ctx.meta
    c17.run_structural(sub)
    for i in sub.instances:
        if i.rule in ("T-SYNSENT", "T-WINDOW"):
            ctx.instances.append(i)
