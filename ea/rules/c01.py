"""C01 — TCP delivers a reliable, ordered, exactly-once byte stream: structural necessary conditions (DESIGN.md §4 C01)."""
from .. import facts as F
from ..cfg import cfg
from .. import dep
from . import common as K
from . import tcpmodel as T
from . import c17

LEVEL = "other"
EXPLANATION = (
    "Structural necessary conditions of the stream property inside the TCB, each decided for all schedules: "
    "(T-INORDER) Tcb::segment_arrives hands a queued segment to process_segment only on the branch where it is not "
    "beyond RCV.NXT (circular comparison of the peeked segment's SEQ with self.rcv.nxt) or the state is SYN-SENT, and "
    "pops exactly the segment it peeked; (T-ACK-PRUNE) every write of SND.UNA is followed on every path to a "
    "non-deleting return by remove_acked_from_retransmission(SND.UNA) (LAST-ACK is the tabled exception); "
    "(T-RETX-ARM) the timeout branch of advance_time re-arms every queued segment, every element of the "
    "retransmission queue is built by Transmit::new (armed), and segments() emits exactly the armed ones; "
    "(T-SYNSENT, T-WINDOW) shared with C17. Breaking any of them breaks the stream for some admissible schedule. "
    "Not decided: prefix/exactly-once/convergence themselves (schedules x byte strings need execution or a proof).")
ASSUMPTIONS = ["BinaryHeap::peek followed by pop (no push in between) returns the same element"]
TECHNIQUE = "static analysis: dominance / must-pass-through / data-dependence rules over rustc MIR (+ shared finite-domain model of process_segment)"
PRIMS = "elvis_core::protocols::tcp::tcb::modular_cmp::"


def run(ctx):
    prog = ctx.prog()
    sa = prog.method("Tcb", "segment_arrives")
    ps = prog.method("Tcb", "process_segment")
    g = cfg(sa)

    # ---------------------------------------------------------------- T-INORDER
    probs = []
    pcs = K.calls_to(sa, ps.key)
    if len(pcs) != 1:
        probs.append("expected one process_segment call in segment_arrives, found %d" % len(pcs))
    else:
        pbb = pcs[0][0]
        pass_blocks = set()
        beyond_blocks = set()
        for s in range(len(sa.blocks)):
            if sa.is_cleanup(s) or sa.term(s)[0] != "switch":
                continue
            c = dep.switch_condition(sa, s)
            if not c or c["kind"] != "call":
                continue
            ck = F.callee_key(c["term"]) or ""
            tr, fa = dep.bool_branches(sa, s)
            if ck.startswith(PRIMS):
                nm = ck.rsplit("::", 1)[-1]
                a0 = dep.arg_origins(sa, c["call_bb"], 0, through_calls=True)
                a1 = dep.arg_origins(sa, c["call_bb"], 1, through_calls=True)
                seq0 = dep.has_field(a0, "TcpHeader", "seq") and dep.has_call(a0, "::peek")
                nxt1 = dep.has_field(a1, "ReceiveSequenceSpace", "nxt") and not dep.has_field(a1, "TcpHeader", "seq")
                seq1 = dep.has_field(a1, "TcpHeader", "seq") and dep.has_call(a1, "::peek")
                nxt0 = dep.has_field(a0, "ReceiveSequenceSpace", "nxt") and not dep.has_field(a0, "TcpHeader", "seq")
                extra = any(x[0] == "op" or x[0] == "const" for x in (a0 | a1)) or dep.has_call(a0 | a1, "wrapping_add") or dep.has_call(a0 | a1, "wrapping_sub")
                if extra:
                    continue
                # successor on which seq <= rcv.nxt (not beyond)
                table = {("mod_gt", "sn"): fa, ("mod_leq", "sn"): tr, ("mod_lt", "ns"): fa, ("mod_geq", "ns"): tr}
                form = "sn" if (seq0 and nxt1) else ("ns" if (nxt0 and seq1) else None)
                if form and (nm, form) in table:
                    ok_succ = table[(nm, form)]
                    pass_blocks.add(ok_succ)
                    beyond_blocks.add(tr if ok_succ == fa else fa)
            info = K.compare_info(sa, s)
            if info and info["op"] in ("Eq", "Ne"):
                oa = dep.origins(sa, info["a"], at=K.at_term(sa, s), through_calls=False)
                ob = dep.origins(sa, info["b"], at=K.at_term(sa, s), through_calls=False)
                if dep.has_field(oa | ob, "tcb::Tcb", "state") and {a[2] for a in oa | ob if a[0] == "agg" and a[1] == T.STATE_ADT} == {"SynSent"}:
                    rel = K.relation_on(info, info["true"])
                    eqb = info["true"] if rel and rel[0] == "Eq" else info["false"]
                    pass_blocks.add(eqb)
        if not beyond_blocks:
            probs.append("no circular comparison of the queued segment's SEQ with RCV.NXT guards process_segment: out-of-order segments are consumed and delivered bytes stop being a prefix")
        else:
            if not g.all_paths_through(0, [pbb], pass_blocks):
                probs.append("process_segment is reachable without passing the `SEQ not beyond RCV.NXT` (or SYN-SENT) branch")
            for b2 in beyond_blocks:
                # from the 'beyond' branch the segment must not be processed in this iteration: it may only leave the loop
                if g.reaches(b2, pbb) or b2 == pbb:
                    probs.append("the branch for a segment beyond RCV.NXT can still reach process_segment")
        pops = [(bb, t) for bb, t in K.calls(sa) if (F.callee_key(t) or "").endswith("binary_heap::{impl#11}::pop") or ((F.callee(t) or {}).get("pretty", "").endswith("BinaryHeap::<T, A>::pop"))]
        peeks = [(bb, t) for bb, t in K.calls(sa) if "::peek" in (F.callee_key(t) or "")]
        pushes = [(bb, t) for bb, t in K.calls(sa) if (F.callee(t) or {}).get("pretty", "").endswith("::push") and "binary_heap" in (F.callee_key(t) or "")]
        if len(pops) != 1 or len(peeks) != 1:
            probs.append("expected one peek and one pop on incoming.segments (found %d, %d)" % (len(peeks), len(pops)))
        else:
            if not g.dominates(peeks[0][0], pops[0][0]) or any(g.reaches(peeks[0][0], pb) and g.reaches(pb, pops[0][0]) for pb, _ in pushes):
                probs.append("the segment popped is not necessarily the one whose SEQ was tested")
            ao = dep.arg_origins(sa, pbb, 1)
            if not any(a[0] == "call" and a[2] == pops[0][0] for a in ao):
                probs.append("the segment processed is not the one popped from the queue")
            for bb, t in pops + peeks:
                if not dep.has_field(dep.arg_origins(sa, bb, 0), "Incoming", "segments"):
                    probs.append("peek/pop is not on self.incoming.segments")
    (ctx.bad if probs else ctx.ok)("T-INORDER", "T-INORDER:segment_arrives", sa.span, "; ".join(probs) if probs else
        "process_segment only for the popped segment whose SEQ is not beyond RCV.NXT (circular) or in SYN-SENT")

    # ---------------------------------------------------------------- T-ACK-PRUNE
    m = T.TcbModel(prog, ps)
    nw = 0
    for b in (ps, prog.method("Tcb", "ack_established_processing")):
        bg = cfg(b)
        prunes = K.calls_to(b, "tcb::{impl#0}::remove_acked_from_retransmission")
        deleting = [bb for bb, st in K.aggregates(b, "tcb::ProcessSegmentResult") if st[2][1]["v"] in ("FinalizeClose", "ConnectionReset", "ConnectionRefused", "ReturnToListen", "BlindReset")]
        for bb, st in K.assigns_to_field(b, "SendSequenceSpace", ("una",)):
            nw += 1
            i = [k for k, s in enumerate(b.stmts(bb)) if s is st][0]
            states = sorted({t[1] for t in m.at_stmt(bb, i)}) if b is ps else ["*"]
            key = "T-ACK-PRUNE:%s@%s" % (b.key.rsplit("::", 1)[-1], "+".join(states))
            good = [p for p, t in prunes if dep.has_field(dep.arg_origins(b, p, 1, through_calls=False), "SendSequenceSpace", "una")]
            ok = bg.all_paths_through(bb, bg.returns, set(good) | set(deleting)) if bb not in good else True
            if ok:
                ctx.ok("T-ACK-PRUNE", key, st[3], "SND.UNA write is followed by remove_acked_from_retransmission(SND.UNA) on every non-deleting path")
            elif states == ["LastAck"]:
                ctx.ok("T-ACK-PRUNE", key, st[3], "tabled exception: in LAST-ACK only the FIN is outstanding; the TCB is deleted when this ACK covers it")
            else:
                ctx.bad("T-ACK-PRUNE", key, st[3], "SND.UNA is advanced (state %s) but acknowledged segments are not removed from the retransmission queue on some path: they are retransmitted forever" % states)
    ctx.require(nw >= 3, "T-ACK-PRUNE: only %d writes of SND.UNA found" % nw)
    rp = prog.method("Tcb", "remove_acked_from_retransmission")
    rem = [(bb, t) for bb, t in K.calls(rp) if (F.callee_key(t) or "").endswith("vec_deque::{impl#5}::remove")]
    probs = []
    if len(rem) != 1 or not dep.has_field(dep.arg_origins(rp, rem[0][0], 0), "Outgoing", "retransmit"):
        probs.append("remove_acked_from_retransmission does not remove from outgoing.retransmit")
    else:
        guard = None
        rg = cfg(rp)
        for s in rg.dom_chain(rem[0][0]):
            if rp.term(s)[0] == "switch":
                c = dep.switch_condition(rp, s)
                if c and c["kind"] == "call" and (F.callee_key(c["term"]) or "").startswith(PRIMS):
                    a = dep.arg_origins(rp, c["call_bb"], 0) | dep.arg_origins(rp, c["call_bb"], 1)
                    if dep.has_param(a, "snd_una") and dep.has_field(a, "TcpHeader", "seq") and dep.has_call(a, "segment::{impl#0}::seg_len"):
                        guard = s
        if guard is None:
            probs.append("removal is not decided by a circular comparison of SND.UNA with SEG.SEQ + SEG.LEN")
    (ctx.bad if probs else ctx.ok)("T-ACK-PRUNE", "T-ACK-PRUNE:remove_acked", rp.span, "; ".join(probs) if probs else
        "removes exactly the queue entries decided by mod_*(snd_una, seq + seg_len)")

    # ---------------------------------------------------------------- T-RETX-ARM
    at = prog.method("Tcb", "advance_time")
    ag = cfg(at)
    probs = []
    arms = [(bb, st) for bb, st in K.assigns_to_field(at, "outgoing::Transmit", ("needs_transmit",))]
    if len(arms) != 1 or F.const_int(arms[0][1][2][1]) != 1:
        probs.append("advance_time does not set needs_transmit = true")
    else:
        abb = arms[0][0]
        if not ag.in_loop(abb):
            probs.append("needs_transmit is not set for every queued segment (no loop)")
        guard = None
        for s in ag.dom_chain(abb):
            if at.term(s)[0] != "switch":
                continue
            info = K.compare_info(at, s)
            if info:
                oa = dep.origins(at, info["a"], at=K.at_term(at, s))
                ob = dep.origins(at, info["b"], at=K.at_term(at, s))
                if (dep.has_param(oa, "delta_time") and dep.has_field(ob, "Timeouts", "retransmission")) or (dep.has_param(ob, "delta_time") and dep.has_field(oa, "Timeouts", "retransmission")):
                    for succ in (info["true"], info["false"]):
                        rel = K.relation_on(info, succ)
                        if rel and ag.dominates(succ, abb):
                            op, x, y = rel
                            xo = oa if x is info["a"] else ob
                            # timeout branch: retransmission < delta_time (or <=)
                            if op in ("Lt", "Le") and dep.has_field(xo, "Timeouts", "retransmission"):
                                guard = s
        if guard is None:
            probs.append("re-arming is not on the branch where the elapsed time exceeds the retransmission timeout")
        it = [(bb, t) for bb, t in K.calls(at) if "iter_mut" in (F.callee_key(t) or "")]
        if not it or not dep.has_field(dep.arg_origins(at, it[0][0], 0), "Outgoing", "retransmit"):
            probs.append("the loop does not iterate outgoing.retransmit")
    (ctx.bad if probs else ctx.ok)("T-RETX-ARM", "T-RETX-ARM:advance_time", at.span, "; ".join(probs) if probs else
        "timeout branch sets needs_transmit = true for every element of outgoing.retransmit")
    # every element of the queue is built armed
    tn = prog.method("Transmit", "new")
    aggs = []
    for b in prog.bodies.values():
        for bb, st in K.aggregates(b, "outgoing::Transmit"):
            aggs.append((b, bb, st))
    for b, bb, st in aggs:
        ok = b.key == tn.key and F.const_int(K.agg_field_operand(st, "needs_transmit")) == 1
        ok = ok or (b.derived and b.impl_trait == "core::clone::Clone")
        (ctx.ok if ok else ctx.bad)("T-RETX-ARM", "T-RETX-ARM:Transmit{}@%s" % b.key, st[3],
            "Transmit built armed in Transmit::new" if ok else "a Transmit is built outside Transmit::new or unarmed in %s" % b.pretty)
    npush = 0
    for b in prog.bodies.values():
        if not b.key.startswith("elvis_core::protocols::tcp"):
            continue
        for bb, t in K.calls(b):
            ck = F.callee_key(t) or ""
            if ck.startswith("alloc::collections::vec_deque::") and ck.rsplit("::", 1)[-1] in ("push_back", "push_front", "insert", "extend"):
                if dep.has_field(dep.arg_origins(b, bb, 0), "Outgoing", "retransmit"):
                    npush += 1
                    ok = dep.has_call(dep.arg_origins(b, bb, 1), tn.key) and ck.endswith("push_back")
                    (ctx.ok if ok else ctx.bad)("T-RETX-ARM", "T-RETX-ARM:push@%s" % b.key, F.call_loc(t),
                        "retransmission queue element = Transmit::new(..) appended in order" if ok else "an element enters outgoing.retransmit without Transmit::new / out of order in %s" % b.pretty)
    ctx.require(npush >= 2, "T-RETX-ARM: only %d pushes to outgoing.retransmit found" % npush)
    sg = prog.method("Tcb", "segments")
    sgg = cfg(sg)
    probs = []
    emits = []
    for bb, t in K.calls(sg):
        ck = F.callee_key(t) or ""
        pretty = (F.callee(t) or {}).get("pretty", "")
        if "vec::Vec" in pretty and pretty.endswith("::push"):
            o = dep.arg_origins(sg, bb, 1)
            if dep.has_field(o, "outgoing::Transmit", "segment"):
                emits.append(bb)
    if len(emits) != 1:
        probs.append("expected one emission of queued segments in segments(), found %d" % len(emits))
    else:
        guard = None
        for s in sgg.dom_chain(emits[0]):
            if sg.term(s)[0] == "switch":
                c = dep.switch_condition(sg, s)
                if c and c["kind"] == "place" and ("elvis_core::protocols::tcp::tcb::outgoing::Transmit", "needs_transmit") in F.place_fields(c["place"]):
                    tr, fa = dep.bool_branches(sg, s)
                    if sgg.dominates(tr, emits[0]):
                        guard = s
        if guard is None:
            probs.append("queued segments are emitted regardless of needs_transmit")
        if not sgg.in_loop(emits[0]):
            probs.append("not every armed segment is emitted (no loop)")
        clears = [(bb, st) for bb, st in K.assigns_to_field(sg, "outgoing::Transmit", ("needs_transmit",)) if F.const_int(st[2][1]) == 0]
        if len(clears) != 1:
            probs.append("needs_transmit is not cleared after emission")
    (ctx.bad if probs else ctx.ok)("T-RETX-ARM", "T-RETX-ARM:segments", sg.span, "; ".join(probs) if probs else
        "segments() emits exactly the armed queue entries and disarms them")

    # ---------------------------------------------------------------- shared with C17
    sub = type(ctx)(tier=ctx.tier, repo=ctx.repo)
    sub._progs, sub._cgs, sub.meta = ctx._progs, ctx._cgs, ctx.meta
    c17.run_structural(sub)
    for i in sub.instances:
        if i.rule in ("T-SYNSENT", "T-WINDOW"):
            ctx.instances.append(i)
