"""C01 — TCP delivers a reliable, ordered, exactly-once byte stream: structural necessary conditions (DESIGN.md §4 C01)."""
from .. import facts as F
from ..cfg import cfg
from .. import dep
from . import common as K
from . import tcpmodel as T
from . import c17

LEVEL = "other"
EXPLANATION = (
    "Structural necessary conditions of the stream property inside the TCB, each decided for all schedules: "
    "(T-INORDER) Tcb::segment_arrives hands a queued segment to process_segment only on the branch where it is not "
    "beyond RCV.NXT (circular comparison of the peeked segment's SEQ with self.rcv.nxt) or the state is SYN-SENT, and "
    "pops exactly the segment it peeked; (T-ACK-PRUNE) every write of SND.UNA is followed on every path to a "
    "non-deleting return by remove_acked_from_retransmission(SND.UNA) (LAST-ACK is the tabled exception); "
    "(T-ACKOK) SYN-RECEIVED becomes ESTABLISHED exactly on the branch SND.UNA < SEG.ACK =< SND.NXT; (T-HEAPORD) the reordering heap's Ord for Segment is the reversed circular order of SEQ at every distance and base (shared with C12); (T-APPEND) the send and receive byte streams of the TCB grow only at their end; (T-RETX-ARM) the timeout branch of advance_time re-arms every queued segment, every element of the "
    "retransmission queue is built by Transmit::new (armed), and segments() emits exactly the armed ones; "
    "(T-SYNSENT, T-WINDOW) shared with C17. Breaking any of them breaks the stream for some admissible schedule. "
    "(T-RECV / T-SEND) Tcb::receive hands over the buffered text in ESTABLISHED, FIN-WAIT-1/2 and CLOSE-WAIT and Tcb::send appends to the text to be segmentised in SYN-SENT, SYN-RECEIVED and ESTABLISHED; (T-ACCEPT) in the text-queueing step of process_segment RCV.NXT advances by exactly the number of octets appended to incoming.text and the skipped prefix is RCV.NXT - SEG.SEQ. "
    "Not decided: prefix/exactly-once/convergence themselves (schedules x byte strings need execution or a proof).")
ASSUMPTIONS = ["BinaryHeap::peek followed by pop (no push in between) returns the same element"]
TECHNIQUE = "static analysis: dominance / must-pass-through / data-dependence rules over rustc MIR (+ shared finite-domain model of process_segment)"
PRIMS = "elvis_core::protocols::tcp::tcb::modular_cmp::"


# relation "x REL y" asserted by comparator(x, y) returning true
CMP_REL = {"mod_lt": "lt", "mod_leq": "le", "mod_gt": "gt", "mod_geq": "ge"}
NEG = {"lt": "ge", "le": "gt", "gt": "le", "ge": "lt"}
FLIP = {"lt": "gt", "le": "ge", "gt": "lt", "ge": "le"}


def _una_vs_end(rel, a_is_end, b_is_end):
    """Orient `a rel b` as `UNA rel' END`."""
    if b_is_end and not a_is_end:
        return rel
    if a_is_end and not b_is_end:
        return FLIP[rel]
    return None


def _keep_semantics(S, keep, what):
    """`keep` (true = the queue entry stays) must be: SND.UNA < SEQ + LEN in the circular order, i.e. with
    d = (SEQ + LEN - UNA) mod 2^32: keep iff 1 <= d < 2^31. Decided by evaluating the extracted condition at every
    critical distance for several segment lengths (the band around 2^31 is a don't-care)."""
    M = 1 << 32
    is_seq = lambda x: x[0] == "field" and x[2] == "seq"
    is_len = lambda x: x[0] == "call" and x[1].rsplit("::", 1)[-1] == "seg_len"
    seqs = S.atoms(keep, is_seq)
    lens = S.atoms(keep, is_len)
    others = [x for x in S.atoms(keep, lambda x: x[0] in ("local", "param") or (x[0] == "field" and not is_seq(x) and _root_kind(x) in ("local", "param")))
              if not any(_contains(q, x) for q in seqs + lens)]
    if len(seqs) != 1:
        return ["%s does not look at the segment's sequence number" % what]
    if len(others) != 1:
        return ["%s does not compare against exactly one acknowledgment value (%d candidates)" % (what, len(others))]
    una = others[0]
    bad = None
    n = 0
    for u0 in (1000, M - 2, (1 << 31) + 5):
        for l in (1, 2, 1460):
            for d in sorted({0, 1, 2, 3, l - 1, l, l + 1, 1 << 16, (1 << 31) - 3, (1 << 31) + 3, M - 3, M - 2, M - 1, M - l, M - l - 1}):
                if d < 0 or (1 << 31) - 2 <= d <= (1 << 31) + 2:
                    continue
                env = {una: u0, seqs[0]: (u0 + d - l) % M}
                for q in lens:
                    env[q] = l
                try:
                    got = bool(S.concrete(keep, env, 32))
                except (KeyError, S.Panics) as e:
                    return ["%s cannot be evaluated (%r)" % (what, e)]
                n += 1
                want = 1 <= d < (1 << 31)
                if got != want and bad is None:
                    bad = (l, d if d < (1 << 31) else d - M, got)
    if bad:
        l, d, got = bad
        if not lens:
            return ["%s ignores the segment length: a segment of %d octets whose end is %d beyond SND.UNA is %s - a partially acknowledged segment must stay queued until its last octet is acknowledged" % (
                what, l, d, "kept" if got else "dropped")]
        return ["%s: a segment of %d octet(s) whose end (SEQ+LEN) is %d %s SND.UNA is %s; an entry must stay queued exactly while SND.UNA < SEQ+LEN" % (
            what, l, abs(d), "beyond" if d > 0 else "at or before", "kept" if got else "dropped although its last octet is not acknowledged")]
    return []


def _root_kind(x):
    while x[0] in ("field", "cast"):
        x = x[1]
    return x[0]


def _contains(t, x):
    if t == x:
        return True
    if not isinstance(t, tuple):
        return False
    rest = t[1:] if t and isinstance(t[0], str) else t
    return any(_contains(y, x) for y in rest if isinstance(y, tuple))


def removal_rule(prog, rp):
    """Entries leave outgoing.retransmit exactly on the condition SND.UNA >= SEQ + LEN (circular). Two idioms are
    understood - an index loop with VecDeque::remove and VecDeque::retain with a closure - and in both the condition
    is reduced to a formula (comparator primitives inlined) and evaluated (see _keep_semantics)."""
    from .. import symx as S
    inl = [k for k in prog.bodies if k.startswith(PRIMS)]
    rem = [(bb, t) for bb, t in K.calls(rp) if (F.callee_key(t) or "").endswith("vec_deque::{impl#5}::remove")]
    ret = [(bb, t) for bb, t in K.calls(rp) if (F.callee_key(t) or "").rsplit("::", 1)[-1] in ("retain", "retain_mut")]
    if len(rem) == 1 and not ret:
        if not dep.has_field(dep.arg_origins(rp, rem[0][0], 0), "Outgoing", "retransmit"):
            return ["remove_acked_from_retransmission does not remove from outgoing.retransmit"]
        g = cfg(rp)
        hdrs = [bb for bb, t in K.calls(rp) if g.dominates(bb, rem[0][0]) and g.in_loop(bb) and (F.callee_key(t) or "").rsplit("::", 1)[-1] in ("get", "next", "front")]
        if not hdrs:
            return ["the loop over the retransmission queue was not found"]
        try:
            t, _ = S.extract_from(prog, rp, hdrs[0], stop=[hdrs[0]], inline=inl)
        except S.Unsupported as e:
            return ["the loop body cannot be reduced to a formula (%s)" % e]
        # descend to the decision that separates `remove` from `keep`
        def has_remove(x):
            return "remove" in S.term_str(x) and any(True for _ in [0])
        node = t
        guard = []
        for _ in range(8):
            if node[0] == "switch":
                arms = [y for _v, y in node[2]] + [node[3]]
                live = [y for y in arms if y[0] not in ("opaque", "unreachable", "unit") and not (y[0] == "state" and y[1][0] != "stop")]
                if len(live) != 1:
                    break
                node = live[0]
                continue
            break
        if node[0] != "ite":
            return ["removal from the retransmission queue is not decided by one condition (%s)" % S.term_str(node)[:120]]
        rm_then, rm_else = "remove!" in S.term_str(node[2]), "remove!" in S.term_str(node[3])
        if rm_then == rm_else:
            return ["both / neither branch of the loop body removes the entry"]
        keep = node[1] if rm_else else ("not", node[1])
        return _keep_semantics(S, keep, "the removal test")
    if len(ret) == 1 and not rem:
        bb, t = ret[0]
        if not dep.has_field(dep.arg_origins(rp, bb, 0), "Outgoing", "retransmit"):
            return ["remove_acked_from_retransmission does not prune outgoing.retransmit"]
        kids = [k for k in prog.children(rp) if k.kind == "closure"]
        if len(kids) != 1:
            return ["retain() predicate of remove_acked_from_retransmission not found"]
        try:
            f, _ex = S.extract(prog, kids[0], inline=inl)
        except S.Unsupported as e:
            return ["retain() predicate too complex to decide (%s)" % e]
        return _keep_semantics(S, f, "the retain() predicate")
    return ["remove_acked_from_retransmission neither removes entries under a comparison nor retains by one (found %d remove, %d retain calls)" % (len(rem), len(ret))]


def check_heap_order(ctx, rule="T-HEAPORD"):
    """The receive reordering queue is a max-heap of Segment: its Ord must be the *reversed circular* order of the
    sequence numbers (earliest segment = greatest), whatever the absolute values - otherwise segments parked across a
    sequence wrap (or across 2^31) come out in the wrong order and the in-order gate stalls. Decided by evaluating the
    extracted comparator (circular primitives inlined) at every critical distance for several bases."""
    from .. import symx as S
    from . import netarith as N
    prog = ctx.prog()
    b = prog.method("Segment", "cmp", "Ord")
    key = rule + ":Segment::cmp"
    inl = [k for k in prog.bodies if k.startswith(PRIMS)]
    try:
        t, _ = S.extract(prog, b, inline=inl)
    except S.Unsupported as e:
        ctx.require(False, "%s: cannot extract Segment::cmp (%s)" % (rule, e))
    me, ot = S.params_of(b)
    SEQ = lambda p_: ("field", ("field", p_, "header"), "seq")
    M = 1 << 32
    bad = None
    n = 0
    try:
        for base in (0, 100, (1 << 31) - 3000, (1 << 31) - 1, 1 << 31, M - 70000, M - 2, M - 1):
            for d in (0, 1, 2, 1460, 65535, 70000, (1 << 31) - 3, (1 << 31) + 3, M - 70000, M - 1460, M - 2, M - 1):
                a, c = base % M, (base + d) % M
                got = N._ord_eval(prog, t, {SEQ(me): a, SEQ(ot): c})
                want = 0 if d == 0 else (1 if d < (1 << 31) else -1)
                n += 1
                if got != want and bad is None:
                    bad = (a, c, got, want)
    except N.CannotEvaluate as e:
        ctx.require(False, "%s: Segment::cmp uses a construct the evaluator does not model (%s): no verdict" % (rule, e))
    nm = {-1: "Less", 0: "Equal", 1: "Greater"}
    if bad:
        a, c, got, want = bad
        ctx.bad(rule, key, b.span,
                "Ord for Segment = %s: comparing SEQ 0x%08x with SEQ 0x%08x gives %s, the reordering heap needs %s (earlier in the circular order = greater): segments queued across this boundary are popped out of order and delivery stalls" % (
                    S.term_str(t)[:160], a, c, nm.get(got, got), nm[want]))
    else:
        ctx.ok(rule, key, b.span, "Ord for Segment is the reversed circular order of header.seq on all %d (base, distance) points, including across 2^32 and 2^31" % n)


def check_synrcvd_ack(ctx, rule="T-ACKOK"):
    """SYN-RECEIVED becomes ESTABLISHED on any acceptable ACK, SND.UNA < SEG.ACK =< SND.NXT (RFC 9293 3.10.7.4) - not only
    on the ACK of the bare SYN: data written before the handshake completes moves SND.NXT, and a cumulative ACK that
    covers it must complete the handshake instead of drawing a reset. The write of ESTABLISHED reached from
    SYN-RECEIVED must sit on the true branch of mod_bounded(SND.UNA, Lt, SEG.ACK, Leq, SND.NXT)."""
    prog = ctx.prog()
    ps = prog.method("Tcb", "process_segment")
    m = T.TcbModel(prog, ps)
    g = cfg(ps)
    n = 0
    for bb, i, loc, new, tuples in m.transitions():
        if new != "Established" or not any(t[1] == "SynReceived" for t in tuples):
            continue
        n += 1
        ok = False
        seen = []
        for s_ in g.dom_chain(bb):
            if ps.term(s_)[0] != "switch":
                continue
            c = dep.switch_condition(ps, s_)
            if not (c and c["kind"] == "call"):
                continue
            ck = F.callee_key(c["term"]) or ""
            tr, fa = dep.bool_branches(ps, s_)
            if not (g.dominates(tr, bb) and not g.dominates(fa, bb)):
                continue
            if not any(t[1] == "SynReceived" for t in m.at_term(s_)):
                continue
            seen.append(ck.rsplit("::", 1)[-1])
            if ck.endswith("modular_cmp::mod_bounded"):
                a = [dep.arg_origins(ps, c["call_bb"], k, through_calls=False) for k in range(5)]
                kinds = [next((x[2] for x in a[k] if x[0] == "agg" and str(x[1]).endswith("ModCmp")), None) for k in (1, 3)]
                if dep.has_field(a[0], "SendSequenceSpace", "una") and dep.has_field(a[2], "TcpHeader", "ack") and dep.has_field(a[4], "SendSequenceSpace", "nxt") \
                        and kinds == ["Lt", "Leq"] and not dep.has_field(a[0], "TcpHeader", "ack"):
                    ok = True
        (ctx.ok if ok else ctx.bad)(rule, "%s:SynReceived->Established" % rule, loc,
            "SYN-RECEIVED -> ESTABLISHED on the branch SND.UNA < SEG.ACK =< SND.NXT" if ok else
            "SYN-RECEIVED -> ESTABLISHED is not decided by SND.UNA < SEG.ACK =< SND.NXT (guards seen: %s): an ACK that also covers data sent before the handshake completed is treated as unacceptable and answered with a reset" % (", ".join(seen) or "none"))
    ctx.require(n >= 1, "%s: the SYN-RECEIVED -> ESTABLISHED transition was not found" % rule)


def check_inorder(ctx):
    """T-INORDER (shared with C03: a FIN is a queued segment like any other)."""
    prog = ctx.prog()
    sa = prog.method("Tcb", "segment_arrives")
    ps = prog.method("Tcb", "process_segment")
    g = cfg(sa)

    # ---------------------------------------------------------------- T-INORDER
    probs = []
    pcs = K.calls_to(sa, ps.key)
    if len(pcs) != 1:
        probs.append("expected one process_segment call in segment_arrives, found %d" % len(pcs))
    else:
        pbb = pcs[0][0]
        pass_blocks = set()
        beyond_blocks = set()
        for s in range(len(sa.blocks)):
            if sa.is_cleanup(s) or sa.term(s)[0] != "switch":
                continue
            c = dep.switch_condition(sa, s)
            if not c or c["kind"] != "call":
                continue
            ck = F.callee_key(c["term"]) or ""
            tr, fa = dep.bool_branches(sa, s)
            if ck.startswith(PRIMS):
                nm = ck.rsplit("::", 1)[-1]
                a0 = dep.arg_origins(sa, c["call_bb"], 0, through_calls=True)
                a1 = dep.arg_origins(sa, c["call_bb"], 1, through_calls=True)
                seq0 = dep.has_field(a0, "TcpHeader", "seq") and dep.has_call(a0, "::peek")
                nxt1 = dep.has_field(a1, "ReceiveSequenceSpace", "nxt") and not dep.has_field(a1, "TcpHeader", "seq")
                seq1 = dep.has_field(a1, "TcpHeader", "seq") and dep.has_call(a1, "::peek")
                nxt0 = dep.has_field(a0, "ReceiveSequenceSpace", "nxt") and not dep.has_field(a0, "TcpHeader", "seq")
                extra = any(x[0] == "op" or x[0] == "const" for x in (a0 | a1)) or dep.has_call(a0 | a1, "wrapping_add") or dep.has_call(a0 | a1, "wrapping_sub")
                if extra:
                    continue
                # successor on which seq <= rcv.nxt (not beyond)
                table = {("mod_gt", "sn"): fa, ("mod_leq", "sn"): tr, ("mod_lt", "ns"): fa, ("mod_geq", "ns"): tr}
                form = "sn" if (seq0 and nxt1) else ("ns" if (nxt0 and seq1) else None)
                if form and (nm, form) in table:
                    ok_succ = table[(nm, form)]
                    pass_blocks.add(ok_succ)
                    beyond_blocks.add(tr if ok_succ == fa else fa)
            info = K.compare_info(sa, s)
            if info and info["op"] in ("Eq", "Ne"):
                oa = dep.origins(sa, info["a"], at=K.at_term(sa, s), through_calls=False)
                ob = dep.origins(sa, info["b"], at=K.at_term(sa, s), through_calls=False)
                if dep.has_field(oa | ob, "tcb::Tcb", "state") and {a[2] for a in oa | ob if a[0] == "agg" and a[1] == T.STATE_ADT} == {"SynSent"}:
                    rel = K.relation_on(info, info["true"])
                    eqb = info["true"] if rel and rel[0] == "Eq" else info["false"]
                    pass_blocks.add(eqb)
        if not beyond_blocks:
            probs.append("no circular comparison of the queued segment's SEQ with RCV.NXT guards process_segment: out-of-order segments are consumed and delivered bytes stop being a prefix")
        else:
            if not g.all_paths_through(0, [pbb], pass_blocks):
                probs.append("process_segment is reachable without passing the `SEQ not beyond RCV.NXT` (or SYN-SENT) branch")
            for b2 in beyond_blocks:
                # from the 'beyond' branch the segment must not be processed in this iteration: it may only leave the loop
                if g.reaches(b2, pbb) or b2 == pbb:
                    probs.append("the branch for a segment beyond RCV.NXT can still reach process_segment")
        pops = [(bb, t) for bb, t in K.calls(sa) if (F.callee_key(t) or "").endswith("binary_heap::{impl#11}::pop") or ((F.callee(t) or {}).get("pretty", "").endswith("BinaryHeap::<T, A>::pop"))]
        peeks = [(bb, t) for bb, t in K.calls(sa) if "::peek" in (F.callee_key(t) or "")]
        pushes = [(bb, t) for bb, t in K.calls(sa) if (F.callee(t) or {}).get("pretty", "").endswith("::push") and "binary_heap" in (F.callee_key(t) or "")]
        if len(pops) != 1 or len(peeks) != 1:
            probs.append("expected one peek and one pop on incoming.segments (found %d, %d)" % (len(peeks), len(pops)))
        else:
            if not g.dominates(peeks[0][0], pops[0][0]) or any(g.reaches(peeks[0][0], pb) and g.reaches(pb, pops[0][0]) for pb, _ in pushes):
                probs.append("the segment popped is not necessarily the one whose SEQ was tested")
            ao = dep.arg_origins(sa, pbb, 1)
            if not any(a[0] == "call" and a[2] == pops[0][0] for a in ao):
                probs.append("the segment processed is not the one popped from the queue")
            for bb, t in pops + peeks:
                if not dep.has_field(dep.arg_origins(sa, bb, 0), "Incoming", "segments"):
                    probs.append("peek/pop is not on self.incoming.segments")
    (ctx.bad if probs else ctx.ok)("T-INORDER", "T-INORDER:segment_arrives", sa.span, "; ".join(probs) if probs else
        "process_segment only for the popped segment whose SEQ is not beyond RCV.NXT (circular) or in SYN-SENT")



def run(ctx):
    prog = ctx.prog()
    ps = prog.method("Tcb", "process_segment")
    check_inorder(ctx)
    check_heap_order(ctx)
    check_synrcvd_ack(ctx)
    from . import seqprims
    seqprims.check_ack_processing(ctx, "T-ACKEST")
    seqprims.check_receive(ctx, "T-RECV")
    seqprims.check_send(ctx, "T-SEND")
    seqprims.check_accept(ctx, "T-ACCEPT")

    # ---------------------------------------------------------------- T-ACK-PRUNE
    m = T.TcbModel(prog, ps)
    nw = 0
    for b in (ps, prog.method("Tcb", "ack_established_processing")):
        bg = cfg(b)
        prunes = K.calls_to(b, "tcb::{impl#0}::remove_acked_from_retransmission")
        deleting = [bb for bb, st in K.aggregates(b, "tcb::ProcessSegmentResult") if st[2][1]["v"] in ("FinalizeClose", "ConnectionReset", "ConnectionRefused", "ReturnToListen", "BlindReset")]
        for bb, st in K.assigns_to_field(b, "SendSequenceSpace", ("una",)):
            nw += 1
            i = [k for k, s in enumerate(b.stmts(bb)) if s is st][0]
            states = sorted({t[1] for t in m.at_stmt(bb, i)}) if b is ps else ["*"]
            key = "T-ACK-PRUNE:%s@%s" % (b.key.rsplit("::", 1)[-1], "+".join(states))
            good = [p for p, t in prunes if dep.has_field(dep.arg_origins(b, p, 1, through_calls=False), "SendSequenceSpace", "una")]
            ok = bg.all_paths_through(bb, bg.returns, set(good) | set(deleting)) if bb not in good else True
            if ok:
                ctx.ok("T-ACK-PRUNE", key, st[3], "SND.UNA write is followed by remove_acked_from_retransmission(SND.UNA) on every non-deleting path")
            elif states == ["LastAck"]:
                ctx.ok("T-ACK-PRUNE", key, st[3], "tabled exception: in LAST-ACK only the FIN is outstanding; the TCB is deleted when this ACK covers it")
            else:
                ctx.bad("T-ACK-PRUNE", key, st[3], "SND.UNA is advanced (state %s) but acknowledged segments are not removed from the retransmission queue on some path: they are retransmitted forever" % states)
    ctx.require(nw >= 3, "T-ACK-PRUNE: only %d writes of SND.UNA found" % nw)
    rp = prog.method("Tcb", "remove_acked_from_retransmission")
    probs = removal_rule(prog, rp)
    (ctx.bad if probs else ctx.ok)("T-ACK-PRUNE", "T-ACK-PRUNE:remove_acked", rp.span, "; ".join(probs) if probs else
        "a queue entry is removed exactly when SND.UNA >= SEG.SEQ + SEG.LEN (circular): partially acknowledged segments stay queued")

    # ---------------------------------------------------------------- T-APPEND
    # the byte streams kept in the TCB grow at their end only: stream.concatenate(new), never new.concatenate(stream)
    napp = 0
    for b in prog.bodies.values():
        if not b.key.startswith("elvis_core::protocols::tcp::tcb") or "::tests" in b.key:
            continue
        for bb, t in K.calls(b):
            if not (F.callee_key(t) or "").endswith("message::{impl#0}::concatenate"):
                continue
            o0 = dep.arg_origins(b, bb, 0, through_calls=False)
            o1 = set(dep.arg_origins(b, bb, 1, through_calls=False))
            for a in list(o1):
                # the whole stream moved out by value: mem::take / mem::replace / clone of the field
                if a[0] == "call" and a[1] and a[1].rsplit("::", 1)[-1] in ("take", "replace", "clone") and isinstance(a[2], int):
                    o1 |= set(dep.arg_origins(b, a[2], 0, through_calls=False))
            stream = [f for f in (("Incoming", "text"), ("Outgoing", "text")) if dep.has_field(o0, f[0], f[1])]
            rev = [f for f in (("Incoming", "text"), ("Outgoing", "text")) if dep.has_field(o1, f[0], f[1])]
            if not stream and not rev:
                continue
            napp += 1
            key = "T-APPEND:%s@%s" % (".".join((stream or rev)[0]), b.key.rsplit("::", 1)[-1])
            if stream and not rev:
                ctx.ok("T-APPEND", key, F.call_loc(t), "%s.%s grows at its end (stream.concatenate(new bytes))" % stream[0])
            else:
                ctx.bad("T-APPEND", key, F.call_loc(t), "the accumulated stream %s.%s is appended to the new bytes instead of the other way round: bytes are delivered out of order" % (rev or stream)[0])
    ctx.require(napp >= 2, "T-APPEND: only %d stream concatenations found in the TCB" % napp)

    # ---------------------------------------------------------------- T-RETX-ARM
    at = prog.method("Tcb", "advance_time")
    ag = cfg(at)
    probs = []
    arms = [(bb, st) for bb, st in K.assigns_to_field(at, "outgoing::Transmit", ("needs_transmit",))]
    if len(arms) != 1 or F.const_int(arms[0][1][2][1]) != 1:
        probs.append("advance_time does not set needs_transmit = true")
    else:
        abb = arms[0][0]
        if not ag.in_loop(abb):
            probs.append("needs_transmit is not set for every queued segment (no loop)")
        guard = None
        for s in ag.dom_chain(abb):
            if at.term(s)[0] != "switch":
                continue
            info = K.compare_info(at, s)
            if info:
                oa = dep.origins(at, info["a"], at=K.at_term(at, s))
                ob = dep.origins(at, info["b"], at=K.at_term(at, s))
                if (dep.has_param(oa, "delta_time") and dep.has_field(ob, "Timeouts", "retransmission")) or (dep.has_param(ob, "delta_time") and dep.has_field(oa, "Timeouts", "retransmission")):
                    for succ in (info["true"], info["false"]):
                        rel = K.relation_on(info, succ)
                        if rel and ag.dominates(succ, abb):
                            op, x, y = rel
                            xo = oa if x is info["a"] else ob
                            # timeout branch: retransmission < delta_time (or <=)
                            if op in ("Lt", "Le") and dep.has_field(xo, "Timeouts", "retransmission"):
                                guard = s
        if guard is None:
            probs.append("re-arming is not on the branch where the elapsed time exceeds the retransmission timeout")
        it = [(bb, t) for bb, t in K.calls(at) if "iter_mut" in (F.callee_key(t) or "")]
        if not it or not dep.has_field(dep.arg_origins(at, it[0][0], 0), "Outgoing", "retransmit"):
            probs.append("the loop does not iterate outgoing.retransmit")
    (ctx.bad if probs else ctx.ok)("T-RETX-ARM", "T-RETX-ARM:advance_time", at.span, "; ".join(probs) if probs else
        "timeout branch sets needs_transmit = true for every element of outgoing.retransmit")
    # every element of the queue is built armed
    tn = prog.method("Transmit", "new")
    aggs = []
    for b in prog.bodies.values():
        for bb, st in K.aggregates(b, "outgoing::Transmit"):
            aggs.append((b, bb, st))
    for b, bb, st in aggs:
        ok = b.key == tn.key and F.const_int(K.agg_field_operand(st, "needs_transmit")) == 1
        ok = ok or (b.derived and b.impl_trait == "core::clone::Clone")
        (ctx.ok if ok else ctx.bad)("T-RETX-ARM", "T-RETX-ARM:Transmit{}@%s" % b.key, st[3],
            "Transmit built armed in Transmit::new" if ok else "a Transmit is built outside Transmit::new or unarmed in %s" % b.pretty)
    npush = 0
    for b in prog.bodies.values():
        if not b.key.startswith("elvis_core::protocols::tcp"):
            continue
        for bb, t in K.calls(b):
            ck = F.callee_key(t) or ""
            if ck.startswith("alloc::collections::vec_deque::") and ck.rsplit("::", 1)[-1] in ("push_back", "push_front", "insert", "extend"):
                if dep.has_field(dep.arg_origins(b, bb, 0), "Outgoing", "retransmit"):
                    npush += 1
                    ok = dep.has_call(dep.arg_origins(b, bb, 1), tn.key) and ck.endswith("push_back")
                    (ctx.ok if ok else ctx.bad)("T-RETX-ARM", "T-RETX-ARM:push@%s" % b.key, F.call_loc(t),
                        "retransmission queue element = Transmit::new(..) appended in order" if ok else "an element enters outgoing.retransmit without Transmit::new / out of order in %s" % b.pretty)
    ctx.require(npush >= 2, "T-RETX-ARM: only %d pushes to outgoing.retransmit found" % npush)
    sg = prog.method("Tcb", "segments")
    sgg = cfg(sg)
    probs = []
    emits = []
    for bb, t in K.calls(sg):
        ck = F.callee_key(t) or ""
        pretty = (F.callee(t) or {}).get("pretty", "")
        if "vec::Vec" in pretty and pretty.endswith("::push"):
            o = dep.arg_origins(sg, bb, 1)
            if dep.has_field(o, "outgoing::Transmit", "segment"):
                emits.append(bb)
    if len(emits) != 1:
        probs.append("expected one emission of queued segments in segments(), found %d" % len(emits))
    else:
        guard = None
        swapped = []
        for s in sgg.dom_chain(emits[0]):
            if sg.term(s)[0] == "switch":
                c = dep.switch_condition(sg, s)
                if c and c["kind"] == "place" and ("elvis_core::protocols::tcp::tcb::outgoing::Transmit", "needs_transmit") in F.place_fields(c["place"]):
                    tr, fa = dep.bool_branches(sg, s)
                    if sgg.dominates(tr, emits[0]):
                        guard = s
                # the same test through mem::replace / mem::take of the flag (which reads and disarms in one step)
                if c and c["kind"] == "call" and (F.callee_key(c["term"]) or "").rsplit("::", 1)[-1] in ("replace", "take") \
                        and dep.has_field(dep.arg_origins(sg, c["call_bb"], 0), "outgoing::Transmit", "needs_transmit"):
                    tr, fa = dep.bool_branches(sg, s)
                    if sgg.dominates(tr, emits[0]):
                        guard = s
                        swapped.append(c["call_bb"])
        if guard is None:
            probs.append("queued segments are emitted regardless of needs_transmit")
        if not sgg.in_loop(emits[0]):
            probs.append("not every armed segment is emitted (no loop)")
        clears = [(bb, st) for bb, st in K.assigns_to_field(sg, "outgoing::Transmit", ("needs_transmit",)) if F.const_int(st[2][1]) == 0]
        if len(clears) + len(swapped) != 1:
            probs.append("needs_transmit is not cleared after emission")
    (ctx.bad if probs else ctx.ok)("T-RETX-ARM", "T-RETX-ARM:segments", sg.span, "; ".join(probs) if probs else
        "segments() emits exactly the armed queue entries and disarms them")

    # ---------------------------------------------------------------- shared with C17
    sub = type(ctx)(tier=ctx.tier, repo=ctx.repo)
    sub._progs, sub._cgs, sub.meta = ctx._progs, ctx._cgs, ctx.meta
    c17.run_structural(sub)
    for i in sub.instances:
        if i.rule in ("T-SYNSENT", "T-WINDOW"):
            ctx.instances.append(i)
