"""C17 — a TCP endpoint withstands arbitrary segments from its peer address (DESIGN.md §4 C17)."""
from .. import facts as F
from ..cfg import cfg
from .. import dep
from . import common as K
from . import tcpmodel as T

LEVEL = "other"
EXPLANATION = (
    "Finite-domain abstract interpretation of Tcb::process_segment (observables: state on entry, current state, "
    "SYN/ACK/RST/FIN, 'acceptability test passed'): (T-SEQCHK) every effect on the connection (writes of state, "
    "RCV.*, SND.UNA/WND/WL*, timeouts, the receive buffer, calls of the &mut self helpers) is reachable only after the "
    "accepting branch of is_seq_ok, except in the one state RFC 9293 exempts (SYN-SENT), and the rejecting branch only "
    "enqueues an ACK; (T-SEQTBL) is_seq_ok itself, reduced to a formula over its arguments, is the four-row decision "
    "table of RFC 9293 Table 6 on (SEG.LEN = 0, RCV.WND = 0) in the revision the code cites (lower edge RCV.NXT-1): "
    "first-or-last-byte-in-window for data, nothing acceptable but ACKs on a zero window, bounds compared as linear "
    "forms modulo 2^32 (the comparator it relies on is decided under C12 Q-PRIM); (T-ACKEST) ack_established_processing, as a formula with the comparators inlined, agrees with RFC 9293 3.10.7.4 (duplicate ACK ignored, ACK of unsent data answered and dropped, otherwise SND.UNA advanced, queue pruned and the window updated exactly under WL1 < SEQ or (WL1 = SEQ and WL2 =< ACK)) on every combination of critical positions; (T-CLOSED, T-LISTEN) segment_arrives_closed and segment_arrives_listen, as formulas, are the case tables of RFC 9293 3.10.7.1 / 3.10.7.2 (which resets are sent with which SEQ/ACK, how the new TCB's sequence spaces are initialised from the SYN); (T-INFLIGHT) the octets subtracted from SND.WND, Outgoing::queued_bytes, count every entry of the retransmission queue (no filtering or partial iteration); (T-SYNSENT) in SYN-SENT a segment with neither SYN nor RST reaches no write of state, RCV.* or "
    "the receive buffer; (T-WINDOW) the amount of new data cut for transmission depends through min() on SND.WND minus "
    "the bytes in flight; (P-PANIC) panic sites reachable from the segment entry points whose operands depend on "
    "header fields or text length (see C14 machinery). Decides these structural clauses for all segment sequences; "
    "does not decide numeric window arithmetic beyond the listed panic sites.")
ASSUMPTIONS = ["mod_bounded is the strict cyclic order (decided by C12 Q-PRIM)"]
TECHNIQUE = "static analysis: finite-domain abstract interpretation of Tcb::process_segment + dependence and panic-site rules over rustc MIR"

TCB = "elvis_core::protocols::tcp::tcb::Tcb"
RELEVANT_FIELDS = {
    ("tcb::Tcb", "state"): "state",
    ("tcb::receive_sequence_space::ReceiveSequenceSpace", "nxt"): "rcv", ("tcb::receive_sequence_space::ReceiveSequenceSpace", "irs"): "rcv",
    ("tcb::receive_sequence_space::ReceiveSequenceSpace", "wnd"): "rcv",
    ("tcb::send_sequence_space::SendSequenceSpace", "una"): "snd", ("tcb::send_sequence_space::SendSequenceSpace", "wnd"): "snd",
    ("tcb::send_sequence_space::SendSequenceSpace", "wl1"): "snd", ("tcb::send_sequence_space::SendSequenceSpace", "wl2"): "snd",
    ("tcb::send_sequence_space::SendSequenceSpace", "nxt"): "snd",
    ("tcb::Timeouts", "time_wait"): "timeouts", ("tcb::Timeouts", "retransmission"): "timeouts",
}
ALLOWED_MUT_HELPERS = ("tcb::{impl#0}::enqueue",)


def effect_sites(prog, ps):
    """[(bb, index-or-None, kind, loc, what)] — everything in process_segment that changes the connection."""
    out = []
    for bb, blk in enumerate(ps.blocks):
        if blk["c"]:
            continue
        for i, st in enumerate(blk["s"]):
            if st[0] != "a" or st[1][0] != 1:
                continue
            fs = F.place_fields(st[1])
            if not fs:
                continue
            kind = None
            for (owner, name), k in RELEVANT_FIELDS.items():
                if fs[-1][1] == name and fs[-1][0].endswith(owner):
                    kind = k
            if kind is None:
                kind = "other-field"
            out.append((bb, i, kind, st[3], "write " + ".".join(f[1] for f in fs)))
        t = blk["t"]
        if t[0] == "call":
            ck = F.callee_key(t) or ""
            args = F.call_args(t)
            # &mut self helpers
            if ck.startswith("elvis_core::protocols::tcp::tcb::{impl#0}::") and args:
                r = dep.single_def_rvalue(ps, F.op_place(args[0])[0]) if F.op_place(args[0]) and not F.op_place(args[0])[1] else None
                if r and r[1][0] == "ref" and r[1][1] == "mut" and r[1][2][0] == 1 and not F.place_fields(r[1][2]):
                    if not any(ck.endswith(h) for h in ALLOWED_MUT_HELPERS):
                        out.append((bb, None, "helper", F.call_loc(t), "call " + ck.rsplit("::", 1)[-1]))
            # mutation of the receive buffer / other owned sub-objects through &mut borrows of self fields
            for a in args:
                pl = F.op_place(a)
                if pl is None or pl[1]:
                    continue
                r = dep.single_def_rvalue(ps, pl[0])
                if r and r[1][0] == "ref" and r[1][1] == "mut" and r[1][2][0] == 1:
                    fs = F.place_fields(r[1][2])
                    if fs and fs[0][1] == "incoming":
                        out.append((bb, None, "incoming", F.call_loc(t), "call %s on self.%s" % (ck.rsplit("::", 1)[-1], ".".join(f[1] for f in fs))))
                    elif fs and fs[0][1] in ("snd", "rcv", "timeouts", "state"):
                        out.append((bb, None, fs[0][1] if fs[0][1] != "timeouts" else "timeouts", F.call_loc(t), "call %s on self.%s" % (ck.rsplit("::", 1)[-1], ".".join(f[1] for f in fs))))
    return out


def run(ctx):
    run_structural(ctx)
    from . import seqprims
    seqprims.check_seq_ok(ctx, "T-SEQTBL")
    seqprims.check_ack_processing(ctx, "T-ACKEST")
    seqprims.check_closed_listen(ctx)
    seqprims.check_accept(ctx, "T-ACCEPT")
    t_inflight(ctx)
    run_panics(ctx)


def run_panics(ctx):
    from . import panic_common as PC
    prog = ctx.prog()
    entries = [prog.method("Tcb", m).key for m in ("segment_arrives", "advance_time", "segments", "send", "receive", "close", "open")] + \
              [prog.one("protocols::tcp::tcb::segment_arrives_listen").key, prog.one("protocols::tcp::tcb::segment_arrives_closed").key,
               prog.method("Tcp", "demux", "Protocol").key]
    st = PC.scan(ctx, "P-PANIC", entries, lambda k: k.startswith("elvis_core::protocols::tcp"), PC.load_table("panic_c17.json"), stops=[K.SEND_PCI])
    ctx.require(st["sites"] >= 25, "P-PANIC: only %d sites enumerated in the TCP scope" % st["sites"])


def run_structural(ctx):
    prog = ctx.prog()
    ps = prog.method("Tcb", "process_segment")
    m = T.TcbModel(prog, ps)
    g = cfg(ps)
    sites = effect_sites(prog, ps)
    ctx.require(len(sites) >= 20, "process_segment: only %d effect sites found (anchor lost)" % len(sites))
    seqsw = [bb for bb, k in m.sw.items() if k[0] == "seqok"]
    if len(seqsw) != 1:
        ctx.bad("T-SEQCHK", "T-SEQCHK:no-test", ps.span, "process_segment has %d acceptability tests (is_seq_ok branches), expected 1" % len(seqsw))
        return
    _, tr, fa = m.sw[seqsw[0]]

    # ---------------------------------------------------------------- T-SEQCHK
    unchecked = {}   # entry state -> [(loc, what)]
    for bb, i, kind, loc, what in sites:
        tuples = m.at_stmt(bb, i) if i is not None else m.at_term(bb)
        for t in tuples:
            if t[6] != "A":
                unchecked.setdefault(t[0], []).append((loc, what))
    for s in m.states:
        if s == "SynSent":
            ok = True
            why = "SYN-SENT is exempt from the acceptability test (RFC 9293 §3.10.7.3)" + ("" if s in unchecked else " — and not even used")
        elif s in unchecked:
            ok = False
            ex = unchecked[s]
            why = "in state %s %d effect(s) on the connection are reachable without passing is_seq_ok, e.g. %s at %s: an unacceptable segment can change the connection (RFC 9293 §3.10.7.4 exempts no synchronized state)" % (s, len(ex), ex[0][1], ex[0][0])
        else:
            ok = True
            why = "every effect in state %s is behind the accepting branch of is_seq_ok" % s
        (ctx.ok if ok else ctx.bad)("T-SEQCHK", "T-SEQCHK:exempt:%s" % s, ps.span, why)
    # rejecting branch: only enqueue + return DiscardSegment
    rej_effects = [(bb, what, loc) for bb, i, kind, loc, what in sites if g.reaches(fa, bb) or fa == bb]
    ok = not rej_effects
    rr = [bb for bb, st in K.aggregates(ps, "tcb::ProcessSegmentResult", "DiscardSegment") if g.dominates(fa, bb)]
    ok = ok and bool(rr) and g.all_paths_through(fa, g.returns, rr)
    enq = [bb for bb, t in K.calls_to(ps, "tcb::{impl#0}::enqueue") if g.dominates(fa, bb)]
    ok2 = len(enq) == 1
    (ctx.ok if ok and ok2 else ctx.bad)("T-SEQCHK", "T-SEQCHK:reject-branch", K.loc_of_block(ps, fa),
        "the rejecting branch enqueues one ACK and returns DiscardSegment without touching the connection" if ok and ok2 else
        "the rejecting branch of is_seq_ok %s" % ("reaches %s at %s" % (rej_effects[0][1], rej_effects[0][2]) if rej_effects else "does not (only) acknowledge and return DiscardSegment"))

    # ---------------------------------------------------------------- T-SYNSENT
    bad = {}
    for bb, i, kind, loc, what in sites:
        if kind not in ("state", "rcv", "incoming"):
            continue
        tuples = m.at_stmt(bb, i) if i is not None else m.at_term(bb)
        hit = [t for t in tuples if t[1] == "SynSent" and not t[2] and not t[4]]
        if hit:
            bad.setdefault(kind, []).append((loc, what))
    for kind in ("state", "rcv", "incoming"):
        if kind in bad:
            ex = bad[kind]
            ctx.bad("T-SYNSENT", "T-SYNSENT:%s" % kind, ex[0][0], "in SYN-SENT a segment with neither SYN nor RST reaches %s (%d site(s)): RFC 9293 §3.10.7.3 says such a segment is dropped; here it moves RCV.NXT / delivers data before the peer's ISN is known" % (ex[0][1], len(ex)))
        else:
            ctx.ok("T-SYNSENT", "T-SYNSENT:%s" % kind, ps.span, "no %s effect reachable in SYN-SENT without SYN or RST" % kind)

    # ---------------------------------------------------------------- T-WINDOW
    sg = prog.method("Tcb", "segments")
    cuts = K.calls_to(sg, "message::{impl#0}::cut")
    probs = []
    if len(cuts) != 1:
        probs.append("expected one outgoing.text.cut in Tcb::segments, found %d" % len(cuts))
    else:
        o = dep.arg_origins(sg, cuts[0][0], 1)
        if not dep.has_field(o, "SendSequenceSpace", "wnd"):
            probs.append("the amount of new data cut does not depend on SND.WND")
        if not dep.has_call(o, "outgoing::{impl#0}::queued_bytes") and not (dep.has_field(o, "SendSequenceSpace", "nxt") and dep.has_field(o, "SendSequenceSpace", "una")):
            probs.append("the amount of new data cut does not account for the bytes already in flight")
        if not (any(a[0] == "op" and a[1] in ("SubWithOverflow", "Sub") for a in o) or dep.has_call(o, "saturating_sub") or dep.has_call(o, "checked_sub")):
            probs.append("window minus in-flight bytes is not computed")
        if not any(a[0] == "call" and a[1] and a[1].endswith("cmp::Ord::min") for a in o):
            probs.append("the cut length is not bounded through min()")
        to = dep.arg_origins(sg, cuts[0][0], 0)
        if not dep.has_field(to, "Outgoing", "text"):
            probs.append("the cut is not taken from outgoing.text")
        # the min() that bounds by the window: one of its operands originates from snd.wnd
        mins = [(bb, t) for bb, t in K.calls(sg) if (F.callee_key(t) or "").endswith("cmp::Ord::min")]
        wmins = [bb for bb, t in mins if any(dep.has_field(dep.arg_origins(sg, bb, k), "SendSequenceSpace", "wnd") for k in (0, 1))]
        if not wmins:
            probs.append("no min() takes the remaining window as an operand")
    (ctx.bad if probs else ctx.ok)("T-WINDOW", "T-WINDOW:Tcb::segments", sg.span, "; ".join(probs) if probs else
        "new data = min(max segment, SND.WND - bytes in flight, queued text)")



def t_inflight(ctx):
    """SND.WND limits the octets *outstanding*: the quantity subtracted from the window in Tcb::segments,
    Outgoing::queued_bytes, must count every entry of the retransmission queue - queued for its first transmission,
    in flight, or re-armed by the retransmission timer alike. Any filtering / skipping / early-terminating adaptor on
    that iteration lets new text go out beyond SND.UNA + SND.WND."""
    prog = ctx.prog()
    try:
        qb = prog.method("Outgoing", "queued_bytes")
    except F.AnchorMissing:
        # no such helper (any more): the octets outstanding must then be the circular distance SND.NXT - SND.UNA
        sg = prog.method("Tcb", "segments")
        subs = [(bb, t) for bb, t in K.calls(sg) if (F.callee_key(t) or "").endswith("saturating_sub") and dep.has_field(dep.arg_origins(sg, bb, 0), "SendSequenceSpace", "wnd")]
        ctx.require(len(subs) >= 1, "T-INFLIGHT: Tcb::segments no longer subtracts the octets outstanding from SND.WND")
        probs = []
        for bb, t in subs:
            o = dep.arg_origins(sg, bb, 1)
            calls = sorted({a[1].rsplit("::", 1)[-1] for a in o if a[0] == "call" and a[1]})
            if not ("wrapping_sub" in calls and dep.has_field(o, "SendSequenceSpace", "nxt") and dep.has_field(o, "SendSequenceSpace", "una")) or set(calls) & {"abs_diff", "checked_sub"}:
                probs.append("the octets outstanding that Tcb::segments subtracts from SND.WND are computed through %s: neither the sum over the retransmission queue nor the circular distance SND.NXT - SND.UNA (wrapping_sub), so the usable window depends on where the sequence numbers lie" % (", ".join(calls) or "?"))
        (ctx.bad if probs else ctx.ok)("T-INFLIGHT", "T-INFLIGHT:Tcb::segments", sg.span, "; ".join(probs[:1]) if probs else "octets outstanding = SND.NXT - SND.UNA (circular)")
        return
    scope = [qb] + [b for b in prog.bodies.values() if b.parent == qb.key]
    PARTIAL = {"filter", "filter_map", "skip", "skip_while", "take", "take_while", "step_by", "find", "position", "nth", "last", "next", "next_back",
               "min", "max", "min_by_key", "max_by_key", "map_while", "scan", "rev_take", "range", "front", "back", "get", "first"}
    probs = []
    seen_iter = seen_sum = False
    for b in scope:
        for bb, t in K.calls(b):
            decl = (F.callee(t) or {}).get("fn", "")
            nm = decl.rsplit("::", 1)[-1]
            ck = F.callee_key(t) or ""
            if ck.rsplit("::", 1)[-1] in ("iter", "iter_mut", "into_iter") and F.call_args(t) and dep.has_field(dep.arg_origins(b, bb, 0), "Outgoing", "retransmit"):
                seen_iter = True
            if nm in ("sum", "fold") and "Iterator" in decl:
                seen_sum = True
            if (nm in PARTIAL and ("Iterator" in decl or "vec_deque" in ck)):
                probs.append("queued_bytes() uses %s (%s): only part of the retransmission queue is counted, so after a retransmission timeout (all entries re-armed) the usable window is computed as if nothing were outstanding and new text is sent beyond SND.UNA + SND.WND" % (nm, F.call_loc(t)))
    if not (seen_iter and seen_sum):
        ctx.require(False, "T-INFLIGHT: queued_bytes() is no longer a sum over outgoing.retransmit: no verdict")
    (ctx.bad if probs else ctx.ok)("T-INFLIGHT", "T-INFLIGHT:Outgoing::queued_bytes", qb.span, "; ".join(probs[:2]) if probs else
        "queued_bytes() sums the text length of every entry of the retransmission queue")
