"""C05 — the simulated link delivers frames as configured (DESIGN.md §4 C05)."""
from .. import facts as F
from ..cfg import cfg
from .. import dep
from . import common as K

LEVEL = "other"
EXPLANATION = (
    "Who-may-call and must-pass-through rules over Network/PciSession: the wire (Network::send, PciSession::receive, "
    "Delivery construction) is reachable only through PciSession::send_pci, whose spawn is dominated by the branch on "
    "which len <= mtu; MAC allocation is read+increment under one lock (or one atomic fetch_add whose previous value is returned) and feeds register_tap; unicast delivery is one "
    "lookup by the destination and one receive outside any loop; every delivery is dominated by the completion of the "
    "latency sleep / throughput sleep on the branches where they are configured; (L-UNICAST) on the formula of Network::send specialised to the destination: None / BROADCAST_MAC hand the frame to taps.iter(), any other address to taps.get(address) only, at most once, and to nobody when no tap owns it. Decides the structural clauses for all "
    "schedules and inputs; does not decide delivery counts or the numeric value of the delays.")
ASSUMPTIONS = ["tokio::time::sleep(d) completes no earlier than d", "std Mutex gives mutual exclusion"]

DELIVERY = "elvis_core::network::Delivery"


def run(ctx):
    prog = ctx.prog()
    cg = ctx.cg()
    send_pci = prog.body(K.SEND_PCI)
    net_send_co = prog.body(K.NETWORK_SEND + "::{closure#0}")

    # ------------------------------------------------------------ L-WIRE (who may call)
    allowed_net_send = {K.SEND_PCI + "::{closure#0}"}
    sites = cg.call_sites(K.NETWORK_SEND)
    ctx.require(len(sites) >= 1, "no call site of Network::send found")
    for b, bb in sites:
        ok = b.key in allowed_net_send
        (ctx.ok if ok else ctx.bad)("L-WIRE", "L-WIRE:Network::send<-%s" % b.key, K.loc_of_block(b, bb),
            "Network::send called from the task spawned by send_pci" if ok else
            "Network::send is called from %s: a frame can reach the wire without the MTU check of send_pci" % b.pretty)
    allowed_recv = {K.NETWORK_SEND + "::{closure#0}": 99,      # who is handed what is decided by L-UNICAST on the formula
                    "elvis_core::protocols::ipv4::ipv4_session::{impl#0}::send_with_ttl": 1,
                    "elvis_core::protocols::ipv4::ipv4_session::{impl#1}::send": 1}
    sites = cg.call_sites(K.PCI_RECEIVE)
    per = {}
    for b, bb in sites:
        per.setdefault(b.key, []).append(bb)
    # private helpers of the network module that only Network::send calls count as part of it
    nsend = prog.body(K.NETWORK_SEND + "::{closure#0}")
    for hk in _delivery_helpers(prog, nsend):
        callers = {b.key for b, _ in cg.call_sites(hk)}
        if callers and callers <= {nsend.key} | set(_delivery_helpers(prog, nsend)):
            allowed_recv[hk] = 99
    ctx.require(any(k in per for k in allowed_recv if k.startswith("elvis_core::network::")), "Network::send no longer hands frames to PciSession::receive (anchor lost)")
    for k, bbs in per.items():
        b = prog.body(k)
        ok = k in allowed_recv and len(bbs) <= allowed_recv[k]
        if k.startswith("elvis_core::protocols::ipv4::ipv4_session") and k in allowed_recv:
            # loop-back: only on the branch where the destination is a local address
            ok = ok and _loopback_guarded(prog, b, bbs[0])
        (ctx.ok if ok else ctx.bad)("L-WIRE", "L-WIRE:PciSession::receive<-%s" % k, K.loc_of_block(b, bbs[0]),
            "%d call(s) of PciSession::receive from an allowed deliverer" % len(bbs) if ok else
            "PciSession::receive is called from %s (%d sites): frames are delivered to a tap without passing the network" % (b.pretty, len(bbs)))
    # Delivery values are built only in send_pci and the loop-back branch
    for b in prog.bodies.values():
        for bb, st in K.aggregates(b, DELIVERY):
            ok = b.key == K.SEND_PCI or b.key in allowed_recv or (b.derived and b.impl_trait == "core::clone::Clone")
            (ctx.ok if ok else ctx.bad)("L-WIRE", "L-WIRE:Delivery{}@%s" % b.key, st[3],
                "Delivery constructed by an allowed sender" if ok else "Delivery constructed outside send_pci/loop-back in %s" % b.pretty)
        for bb, st in K.assigns_to_field(b, DELIVERY):
            ctx.bad("L-WIRE", "L-WIRE:Delivery-write@%s" % b.key, st[3], "a field of an in-flight Delivery is rewritten in %s (payload/sender must arrive unchanged)" % b.pretty)
        for bb, st in K.mut_borrows_of_field(b, DELIVERY):
            ctx.bad("L-WIRE", "L-WIRE:Delivery-mutborrow@%s" % b.key, st[3], "a field of an in-flight Delivery is mutably borrowed in %s" % b.pretty)
    ctx.floor("L-WIRE", 5)

    # ------------------------------------------------------------ L-MTU
    g = cfg(send_pci)
    guard = None
    acc = prog.method("PciSession", "mtu")
    mtu_accessor_ok = dep.has_field(dep.origins(acc, ["cp", [0, []]], at=(cfg(acc).returns[0], len(acc.stmts(cfg(acc).returns[0])))), "Network", "mtu") if cfg(acc).returns else False
    for bb in range(len(send_pci.blocks)):
        if send_pci.is_cleanup(bb) or send_pci.term(bb)[0] != "switch":
            continue
        info = K.compare_info(send_pci, bb)
        if not info:
            continue
        oa, ob = dep.origins(send_pci, info["a"], at=K.at_term(send_pci, bb)), dep.origins(send_pci, info["b"], at=K.at_term(send_pci, bb))
        is_len = lambda o: dep.has_call(o, "message::{impl#0}::len") and dep.has_param(o, "message")
        # the MTU: the field itself or the accessor PciSession::mtu() (whose body is checked to return network.mtu)
        is_mtu = lambda o: (dep.has_field(o, "Network", "mtu") or (mtu_accessor_ok and dep.has_call(o, "pci_session::{impl#0}::mtu"))) and not dep.has_call(o, "message::{impl#0}::len")
        extra_ops = lambda o: {a[1] for a in o if a[0] == "op"}
        if (is_len(oa) and is_mtu(ob)) or (is_len(ob) and is_mtu(oa)):
            guard = (bb, info, is_len(oa), extra_ops(oa) | extra_ops(ob))
            pl = F.op_place(info["a"]) or F.op_place(info["b"])
            cmp_ty = send_pci.local_tystr(pl[0]) if pl is not None and not pl[1] else "?"
    spawns = K.calls_to(send_pci, "tokio::task::spawn::spawn")
    dels = K.aggregates(send_pci, DELIVERY)
    ctx.require(len(spawns) == 1 and len(dels) == 1, "send_pci: expected one tokio::spawn and one Delivery construction (found %d, %d)" % (len(spawns), len(dels)))
    if guard is None:
        ctx.bad("L-MTU", "L-MTU:send_pci", send_pci.span, "send_pci has no branch comparing message.len() with network.mtu: over-MTU frames reach the wire")
    else:
        bb, info, len_is_a, ops = guard
        probs = []
        pass_succ = None
        for s in (info["true"], info["false"]):
            rel = K.relation_on(info, s)
            if rel is None:
                continue
            op, x, y = rel
            x_is_len = (x is info["a"]) == len_is_a
            if op == "Le" and x_is_len:
                pass_succ = s
        if cmp_ty not in ("usize", "u64", "u128", "?"):
            probs.append("the length is compared with the MTU as %s: message.len() is truncated first, so a frame of 65536 + k bytes passes for k <= mtu" % cmp_ty)
        if ops - {"Gt", "Lt", "Le", "Ge"}:
            probs.append("the compared quantities are modified by %s before the comparison" % sorted(ops))
        if pass_succ is None:
            probs.append("no successor of the MTU comparison establishes exactly len <= mtu (operator %s)" % info["op"])
        else:
            rej = info["false"] if pass_succ == info["true"] else info["true"]
            for ebb, what in [(spawns[0][0], "tokio::spawn(network.send)"), (dels[0][0], "Delivery construction")]:
                if not g.dominates(pass_succ, ebb):
                    probs.append("%s (bb%d) is not dominated by the len <= mtu branch" % (what, ebb))
            if g.reaches(rej, spawns[0][0]) or rej == spawns[0][0]:
                probs.append("the reject branch can still reach the spawn")
            errs = [b2 for b2, st in K.aggregates(send_pci, "session::SendError", "Mtu")]
            if not errs or not all(g.dominates(rej, e) for e in errs) or not any(g.reaches(rej, e) or rej == e for e in errs):
                probs.append("the reject branch does not return SendError::Mtu")
        (ctx.bad if probs else ctx.ok)("L-MTU", "L-MTU:send_pci", K.loc_of_block(send_pci, bb),
            "; ".join(probs) if probs else "spawn and Delivery are dominated by the branch where message.len() <= network.mtu; the other branch returns SendError::Mtu")
    # the spawned task sends exactly the Delivery built after the check
    co = prog.body(K.SEND_PCI + "::{closure#0}")
    ns = K.calls_to(co, K.NETWORK_SEND)
    # the value sent is a captured variable of type Delivery (whatever it is called)
    okk = len(ns) == 1 and _is_delivery_value(co, F.call_args(ns[0][1])[1])
    (ctx.ok if okk else ctx.bad)("L-MTU", "L-MTU:send_pci-task", co.span, "the spawned task passes the checked Delivery to Network::send once" if okk else "the spawned task does not send exactly the checked Delivery")

    # ------------------------------------------------------------ L-MAC
    sites = cg.call_sites("elvis_core::network::{impl#1}::register_tap")
    new = prog.body("elvis_core::protocols::pci::pci_session::{impl#0}::new")
    ctx.require(len(sites) >= 1, "no call of Network::register_tap found")
    for b, bb in sites:
        probs = []
        if b.key != new.key:
            probs.append("register_tap called from %s, not PciSession::new" % b.pretty)
        else:
            t = b.term(bb)
            o = dep.origins(b, F.call_args(t)[1], through_calls=False)
            if not dep.has_call(o, "network::{impl#1}::next_mac") or dep.consts_of(o) or any(a[0] == "op" for a in o):
                probs.append("the MAC registered is not the unmodified result of Network::next_mac()")
            nm = K.calls_to(b, "network::{impl#1}::next_mac")
            macs = [st for _, st in K.aggregates(b, "PciSession")]
            if len(macs) != 1 or not dep.has_call(dep.origins(b, K.agg_field_operand(macs[0], "mac"), through_calls=False), "next_mac"):
                probs.append("PciSession.mac is not the registered MAC")
            so = dep.origins(b, F.call_args(t)[2], through_calls=True)
            if not any(a[0] == "agg" and a[1].endswith("PciSession") for a in so):
                probs.append("the session registered is not the one being constructed")
        (ctx.bad if probs else ctx.ok)("L-MAC", "L-MAC:register_tap<-%s" % b.key, K.loc_of_block(b, bb),
            "; ".join(probs) if probs else "register_tap(next_mac(), this) in PciSession::new")
    nm = prog.body("elvis_core::network::{impl#1}::next_mac")
    probs = _check_next_mac(nm)
    (ctx.bad if probs else ctx.ok)("L-MAC", "L-MAC:next_mac", nm.span, "; ".join(probs) if probs else "next_mac reads and increments the counter under one Mutex guard and returns the value read")
    # taps: no other writer
    for b in prog.bodies.values():
        for bb, t in K.calls(b):
            c = F.callee(t)
            if not c or not (c.get("res") or c["fn"]).startswith("dashmap::"):
                continue
            m = (c.get("res") or c["fn"]).rsplit("::", 1)[-1]
            if m in ("insert", "remove", "clear", "entry", "get_mut", "alter", "retain", "iter_mut", "remove_if", "alter_all"):
                o = dep.origins(b, F.call_args(t)[0])
                if dep.has_field(o, "Network", "taps"):
                    ok = b.key == "elvis_core::network::{impl#1}::register_tap" and m == "insert"
                    (ctx.ok if ok else ctx.bad)("L-MAC", "L-MAC:taps.%s@%s" % (m, b.key), F.call_loc(t),
                        "taps.insert in register_tap" if ok else "Network.taps is mutated by %s in %s" % (m, b.pretty))
    nmsites = cg.call_sites("elvis_core::network::{impl#1}::next_mac")
    for b, bb in nmsites:
        ok = b.key == new.key
        (ctx.ok if ok else ctx.bad)("L-MAC", "L-MAC:next_mac<-%s" % b.key, K.loc_of_block(b, bb), "next_mac called from PciSession::new" if ok else "next_mac called from %s" % b.pretty)
    for b in prog.bodies.values():
        for bb, st in K.aggregates(b, "pci_session::PciSession"):
            ok = b.key == new.key
            (ctx.ok if ok else ctx.bad)("L-MAC", "L-MAC:PciSession{}@%s" % b.key, st[3], "PciSession constructed in PciSession::new" if ok else "PciSession constructed outside PciSession::new in %s (MAC not allocated by next_mac)" % b.pretty)
    ctx.floor("L-MAC", 5)

    # ------------------------------------------------------------ L-UNICAST / L-DELAY
    _check_network_send(ctx, prog, net_send_co)


def _loopback_guarded(prog, b, bb):
    """The loop-back receive in Ipv4Session::send is dominated by the true branch of a comparison/contains test on the
    destination address (delivered to self only)."""
    g = cfg(b)
    for s in g.dom_chain(bb) + [bb]:
        if b.term(s)[0] == "switch":
            c = dep.switch_condition(b, s)
            if c and c["kind"] in ("call", "bin"):
                return True
    return False


def _short_call(c):
    return "::".join(x for x in c.split("::")[-2:] if not x.startswith("{impl"))


def _check_next_mac(nm):
    probs = []
    g = cfg(nm)
    locks = K.calls_to(nm, "mutex::{impl#2}::lock", "Mutex<T>::lock", "sync::poison::mutex::{impl#2}::lock")
    locks = [(bb, t) for bb, t in K.calls(nm) if (F.callee(t) or {}).get("pretty", "").endswith("Mutex::<T>::lock")]
    if len(locks) == 0:
        # the other exact idiom: one atomic read-modify-write whose previous value is returned unchanged
        rmw = [(bb, t) for bb, t in K.calls(nm) if ((F.callee(t) or {}).get("res") or (F.callee(t) or {}).get("fn", "")).endswith("::fetch_add")
               and "atomic" in ((F.callee(t) or {}).get("res") or (F.callee(t) or {}).get("fn", ""))]
        ro = dep.origins(nm, [0, []], through_calls=False)
        if len(rmw) == 1 and F.const_int(F.call_args(rmw[0][1])[1]) == 1 and any(a[0] == "call" and a[2] == rmw[0][0] for a in ro) \
                and not any(a[0] == "op" for a in ro) and dep.has_field(dep.origins(nm, F.call_args(rmw[0][1])[0]), "Network", "next_mac"):
            return []
        src = sorted({_short_call(a[1]) for a in dep.origins(nm, [0, []]) if a[0] == "call" and a[1]})
        return ["next_mac hands out a value computed from %s without a lock or an atomic read-modify-write: allocation and "
                "registration are separate steps, so two taps attached concurrently can be given the same address" % (", ".join(src) or "shared state")]
    if len(locks) != 1:
        return ["next_mac does not take exactly one Mutex lock (%d)" % len(locks)]
    lbb, lt = locks[0]
    if not dep.has_field(dep.origins(nm, F.call_args(lt)[0]), "Network", "next_mac"):
        probs.append("the lock taken is not Network.next_mac")
    # the value returned must be read through the guard (deref), the increment written through deref_mut, both after lock
    derefs = [(bb, t) for bb, t in K.calls(nm) if (F.callee(t) or {}).get("fn", "").endswith("Deref::deref") and "MutexGuard" in nm.tystr(F.callee(t)["a"][0]) if F.callee(t).get("a")]
    dmuts = [(bb, t) for bb, t in K.calls(nm) if (F.callee(t) or {}).get("fn", "").endswith("DerefMut::deref_mut")]
    if not derefs or not dmuts:
        probs.append("counter is not read and written through the guard")
    for bb, t in derefs + dmuts:
        if not g.dominates(lbb, bb):
            probs.append("counter access at bb%d is not dominated by the lock" % bb)
        if not dep.has_call(dep.origins(nm, F.call_args(t)[0]), "lock"):
            probs.append("counter access at bb%d does not go through the guard" % bb)
    # guard dropped after both
    drops = [bb for bb in range(len(nm.blocks)) if not nm.is_cleanup(bb) and nm.term(bb)[0] == "drop" and "MutexGuard" in nm.local_tystr(nm.term(bb)[1][0])]
    for bb, t in derefs + dmuts:
        if any(g.reaches(d, bb) for d in drops):
            probs.append("the guard can be dropped before the access at bb%d" % bb)
    # increment by constant 1
    incs = [(bb, st) for bb, blk in enumerate(nm.blocks) if not blk["c"] for st in blk["s"] if st[0] == "a" and st[2][0] == "bin" and st[2][1] in ("AddWithOverflow", "Add")]
    if len(incs) != 1 or F.const_int(incs[0][1][2][3]) != 1:
        probs.append("the counter is not incremented by exactly 1")
    # return value originates from the deref'd read before the increment
    ro = dep.origins(nm, [0, []], through_calls=False)
    if any(a[0] == "op" for a in ro):
        probs.append("the returned MAC is not the value read before the increment")
    return probs


def _delivery_helpers(prog, co):
    """Private helpers of the network module through which Network::send hands a frame to a tap (they call
    PciSession::receive and contain no loop): treated as part of send."""
    out = []
    for b in prog.bodies.values():
        if b.key == co.key or not b.key.startswith("elvis_core::network::") or b.kind not in ("fn", "method"):
            continue
        if K.calls_to(b, K.PCI_RECEIVE):
            out.append(b.key)
    return tuple(out)


def _paths_with_log(t):
    """[(leaf, [terms mentioned on the way: conditions and logged calls])] of an effects-mode formula."""
    from .. import symx as S
    out = []

    def go(x, seen):
        if x[0] == "state":
            log = list(dict(x[2]).get(S.LOG, ()))
            return go(x[1], seen + log)
        if x[0] == "ite":
            go(x[2], seen + [x[1]])
            go(x[3], seen + [x[1]])
        elif x[0] == "switch":
            for _, y in x[2]:
                go(y, seen + [x[1]])
            go(x[3], seen + [x[1]])
        else:
            out.append((x, seen + [x]))
    go(t, [])
    return out


def _unicast_formula(ctx, prog, co, helpers):
    """L-UNICAST on the formula of Network::send, specialised to the destination of the frame: None and
    Some(BROADCAST_MAC) hand the frame to taps taken from taps.iter(); Some(m) for any other m hands it to
    taps.get(m) only - and to nobody when no tap owns m."""
    from .. import symx as S
    bmac = prog.const_val("network::{impl#1}::BROADCAST_MAC")
    try:
        ex = S.Extractor(prog, helpers, effects=True, max_nodes=600000)
        ex.loops_ok = True
        ex.log_calls = {K.PCI_RECEIVE}      # a hand-over counts even when its result is thrown away
        t = ex.run(co, S.params_of(co))
    except S.Unsupported as e:
        return ["Network::send cannot be reduced to a formula (%s)" % e]
    dests = set(S.atoms(t, lambda x: x[0] == "field" and x[2] == "destination" and S.atoms(x[1], lambda y: y[0] == "field" and y[2] == "delivery")))
    if len(dests) != 1:
        return ["the frame's destination is not read as delivery.destination (%d forms)" % len(dests)]
    DEST = dests.pop()
    is_recv = lambda x: x[0] == "call" and x[1] == K.PCI_RECEIVE

    def case(val):
        def f(x):
            if x == ("discr", DEST):
                return ("const", 0 if val is None else 1)
            if x[0] == "field" and x[1][0] == "downcast" and x[1][1] == DEST:
                return ("const", val) if val is not None else ("opaque", "none")
            if x == DEST and val is not None:
                return ("agg", "core::option::Option::Some", (("const", val),))
            return None
        r = S.subst(t, f)
        res = []
        for leaf, seen in _paths_with_log(r):
            rc = []
            for term in seen:
                if is_recv(term):
                    rc.append(term)             # one logged hand-over each, even if the terms are equal
            for term in seen:
                for c in S.atoms(term, is_recv):
                    if c not in rc:
                        rc.append(c)
            res.append((leaf, rc))
        return res

    def from_iter(c):
        return bool(S.atoms(c[2][0], lambda y: y[0] == "call" and y[1].startswith("dashmap::") and y[1].endswith("::iter")))

    def from_get(c, m):
        g_ = S.atoms(c[2][0], lambda y: y[0] == "call" and y[1].startswith("dashmap::") and y[1].endswith("::get"))
        return len(g_) == 1 and len(g_[0][2]) == 2 and g_[0][2][1] == ("const", m) and bool(S.atoms(g_[0][2][0], lambda y: y[0] == "field" and y[2] == "taps"))
    probs = []
    for val, label in ((None, "None"), (bmac, "Some(BROADCAST_MAC)")):
        paths = case(val)
        got = [c for _, rc in paths for c in rc]
        if not got:
            probs.append("a frame addressed to %s is handed to no tap" % label)
        for c in got:
            if not from_iter(c) or not S.atoms(c[2][0], lambda y: y[0] == "field" and y[2] == "taps"):
                probs.append("a frame addressed to %s is handed to %s, not to the taps of taps.iter()" % (label, S.term_str(c[2][0])[:80]))
                break
    for m in (0, 5, bmac - 1):
        paths = case(m)
        got = [c for _, rc in paths for c in rc]
        if not got:
            probs.append("a unicast frame (destination %#x) is handed to no tap" % m)
        bad = [c for c in got if not from_get(c, m)]
        if bad:
            what = "every tap of the network (taps.iter())" if from_iter(bad[0]) else S.term_str(bad[0][2][0])[:80]
            probs.append("a unicast frame (destination %#x, not the broadcast address) can be handed to %s instead of only to taps.get(destination)" % (m, what))
        if any(len(rc) > 1 for _, rc in paths):
            probs.append("a unicast frame (destination %#x) can be handed over more than once" % m)
        if any(leaf[0] == "loop" for leaf, rc in paths):
            probs.append("delivery of a unicast frame (destination %#x) runs into a loop" % m)
        if probs:
            break
    for _, rc in case(5):
        for c in rc:
            if len(c[2]) < 2 or not S.atoms(c[2][1], lambda y: y[0] == "field" and y[2] == "delivery"):
                probs.append("the tap is not handed the delivery itself")
    return sorted(set(probs))


def _check_network_send(ctx, prog, co):
    g = cfg(co)
    helpers = _delivery_helpers(prog, co)
    recvs = [(bb, t) for bb, t in K.calls(co) if (F.callee_key(t) or "") == K.PCI_RECEIVE or (F.callee_key(t) or "") in helpers]
    ctx.require(len(recvs) >= 1, "Network::send hands the frame to no tap (no PciSession::receive, directly or through a helper of the module)")
    aps = K.await_points(co)
    probs = _unicast_formula(ctx, prog, co, helpers)
    (ctx.bad if probs else ctx.ok)("L-UNICAST", "L-UNICAST:Network::send", co.span,
        "; ".join(probs[:3]) if probs else "formula of send specialised to the destination: None / BROADCAST_MAC -> taps.iter(); any other m -> taps.get(m) only, at most once, nobody when no tap owns m")

    # ---- L-DELAY when the waiting lives in an async helper of the module (send = transmit(..).await; deliver(..)):
    sleeps_here = [a for a in aps if "tokio::time::sleep::Sleep" in (K.awaited_future_type(co, a) or "")]
    if not sleeps_here:
        probs = []
        waits = []
        for a in aps:
            ty = K.awaited_future_type(co, a) or ""
            hk = [k for k in prog.bodies if k.startswith("elvis_core::network::") and k.endswith("::{closure#0}") and k in ty]
            if not hk:
                # an `async fn` of the module: its future is opaque in the type, the call that made it is not
                hk = sorted({x[1] + "::{closure#0}" for x in dep.origins(co, a["awaitee"]) if x[0] == "call" and x[1] and x[1].startswith("elvis_core::network::")
                             and x[1] + "::{closure#0}" in prog.bodies})
            for k in hk:
                hb = prog.body(k)
                hs = [x for x in K.await_points(hb) if "tokio::time::sleep::Sleep" in (K.awaited_future_type(hb, x) or "")]
                lat = [x for x in hs if dep.has_call(dep.origins(hb, x["awaitee"]), "network::{impl#4}::next")]
                thr = [x for x in hs if dep.has_call(dep.origins(hb, x["awaitee"]), "network::{impl#5}::next") or dep.has_call(dep.origins(hb, x["awaitee"]), "message::{impl#0}::len")]
                if len(lat) == 1 and len(thr) == 1:
                    waits.append((a, k))
        if len(waits) != 1:
            probs.append("no awaited sleep(latency) / throughput sleep in Network::send, and no single awaited helper of the module that contains both")
        else:
            a, k = waits[0]
            for bb, t in recvs:
                if not (a["ready_bb"] == bb or g.dominates(a["ready_bb"], bb)):
                    probs.append("the hand-over at %s is not dominated by the completion of %s: some frames reach a tap without the configured latency / transfer time (and without taking their turn on the medium)" % (
                        F.call_loc(t), K.short(k.rsplit("::", 1)[0])))
        (ctx.bad if probs else ctx.ok)("L-DELAY", "L-DELAY:Network::send", co.span,
            "; ".join(sorted(set(probs))[:2]) if probs else "every hand-over is dominated by the completed await of the helper that sleeps the latency and the transfer time (weak form: the helper's own guards are not re-derived)")
        return

    # ---- L-DELAY: latency
    probs = []
    lat_sleeps = []
    thr_sleeps = []
    for a in aps:
        ty = K.awaited_future_type(co, a) or ""
        if "tokio::time::sleep::Sleep" in ty:
            # find the sleep(...) call feeding this awaitee
            o = dep.origins(co, a["awaitee"])
            if dep.has_call(o, "network::{impl#4}::next"):
                lat_sleeps.append(a)
            elif dep.has_call(o, "network::{impl#5}::next") or dep.has_call(o, "message::{impl#0}::len"):
                thr_sleeps.append((a, o))
    # latency guard: comparison latency > ZERO
    lat_guard = None
    thr_guard = None
    for bb in range(len(co.blocks)):
        if co.is_cleanup(bb) or co.term(bb)[0] != "switch":
            continue
        info = K.compare_info(co, bb)
        if not info:
            continue
        oa, ob = dep.origins(co, info["a"]), dep.origins(co, info["b"])
        if dep.has_call(oa | ob, "network::{impl#4}::next"):
            lat_guard = (bb, info, oa, ob)
        if dep.has_call(oa | ob, "network::{impl#5}::next") and not dep.has_call(oa | ob, "message::{impl#0}::len"):
            thr_guard = (bb, info, oa, ob)
    if len(lat_sleeps) != 1:
        probs.append("expected one awaited sleep(latency), found %d" % len(lat_sleeps))
    else:
        ls = lat_sleeps[0]
        so = dep.origins(co, ls["awaitee"])
        if any(a[0] == "op" for a in so):
            probs.append("the latency slept is modified by an arithmetic operator")
        through = {ls["ready_bb"]}
        if lat_guard:
            bb, info, oa, ob = lat_guard
            zero_side_b = any(a[0] == "named" and a[1].endswith("::ZERO") for a in ob)
            zero_side_a = any(a[0] == "named" and a[1].endswith("::ZERO") for a in oa)
            exempt = None
            for s in (info["true"], info["false"]):
                rel = K.relation_on(info, s)
                if rel is None:
                    continue
                op, x, y = rel
                # exempt successor: latency <= ZERO or latency == ZERO
                x_is_lat = (x is info["a"] and not zero_side_a) or (x is info["b"] and not zero_side_b)
                if (op == "Le" and x_is_lat) or op == "Eq":
                    exempt = s
            if exempt is None or not (zero_side_a or zero_side_b):
                probs.append("the branch skipping the latency sleep is not `latency <= ZERO`")
            else:
                through.add(exempt)
        for bb, t in recvs:
            if not g.all_paths_through(0, [bb], through):
                probs.append("PciSession::receive (bb%d, %s) is reachable without completing sleep(latency)" % (bb, F.call_loc(t)))
    # throughput
    if len(thr_sleeps) != 1:
        probs.append("expected one awaited throughput sleep, found %d" % len(thr_sleeps))
    else:
        ts, o = thr_sleeps[0]
        why = _throughput_formula(prog, co)
        if why is None:
            # formula not available: fall back to the dependence test
            if not (dep.has_call(o, "message::{impl#0}::len") and dep.has_call(o, "network::{impl#5}::next") and 1000 in dep.consts_of(o)
                    and {"MulWithOverflow", "Div"} <= {a[1] for a in o if a[0] == "op"} | ({"MulWithOverflow"} if ("op", "Mul") in o else set())):
                probs.append("the throughput sleep is not message.len()*1000/throughput milliseconds")
        elif why:
            probs.append(why)
        if not dep.has_call(o, "from_millis"):
            probs.append("the throughput delay is not taken in milliseconds")
        through = {ts["ready_bb"]}
        if thr_guard:
            bb, info, oa, ob = thr_guard
            exempt = None
            for s in (info["true"], info["false"]):
                rel = K.relation_on(info, s)
                if rel is None:
                    continue
                op, x, y = rel
                xo = oa if x is info["a"] else ob
                yo = ob if x is info["a"] else oa
                if (op == "Le" and dep.has_call(xo, "network::{impl#5}::next") and 0 in dep.consts_of(yo)) or (op == "Eq" and 0 in dep.consts_of(oa | ob)):
                    exempt = s
            if exempt is None:
                probs.append("the branch skipping the throughput sleep is not `throughput.0 <= 0`")
            else:
                through.add(exempt)
        else:
            probs.append("no throughput > 0 guard found")
        for bb, t in recvs:
            if not g.all_paths_through(0, [bb], through):
                probs.append("PciSession::receive (bb%d) is reachable without completing the throughput sleep" % bb)
        # serialisation: notified() completes before the sleep starts, notify_one after it completes
        notified = [a for a in aps if "notify::Notified" in (K.awaited_future_type(co, a) or "")]
        n1 = K.calls_to(co, "notify::{impl#7}::notify_one")
        if len(notified) != 1 or len(n1) != 1:
            probs.append("expected one notified().await and one notify_one() (found %d, %d)" % (len(notified), len(n1)))
        else:
            if not g.dominates(notified[0]["ready_bb"], ts["poll_bb"]):
                probs.append("the throughput sleep is not dominated by throughput_permit.notified().await")
            if not g.dominates(ts["ready_bb"], n1[0][0]):
                probs.append("notify_one() is not dominated by the completion of the throughput sleep")
            if not g.all_paths_through(notified[0]["ready_bb"], g.returns + [bb for bb, _ in recvs], [n1[0][0]]):
                probs.append("a path from acquiring the throughput permit to delivery/return misses notify_one(): later frames block forever")
    (ctx.bad if probs else ctx.ok)("L-DELAY", "L-DELAY:Network::send", co.span,
        "; ".join(probs) if probs else "every delivery is dominated by the completed latency sleep (or latency<=0) and by the completed throughput sleep under the permit (or throughput<=0)")


def _is_delivery_local(co, op):
    pl = F.op_place(op)
    return pl is not None and co.local_tystr(pl[0]).endswith("network::Delivery")


def _is_delivery_value(co, op):
    """operand is (a copy / clone / reference of) a captured or local value of type Delivery"""
    pl = F.op_place(op)
    if pl is not None and co.local_tystr(pl[0]).replace("&", "").strip().endswith("network::Delivery"):
        return True
    o = dep.origins(co, op, through_calls=True)
    return any(a[0] == "upvar" for a in o) and dep.has_field(o, "Delivery", "message") or any(a[0] == "upvar" and a[1] in _delivery_upvars(co) for a in o)


def _delivery_upvars(co):
    names = set()
    for nm, pl in co.debug_places:
        pass
    t = co.types[co.locals[1][0]] if len(co.locals) > 1 else None
    return {nm for nm, pl in co.debug_places if nm} if t else set()



def _throughput_formula(prog, co):
    """The duration handed to the throughput sleep, as a formula (helpers of network.rs inlined), evaluated for a few
    (length, rate) pairs: it must be length * 1000 / rate milliseconds. Returns None when no formula is available,
    "" when it agrees, or the discrepancy."""
    from .. import symx as S
    fm = [(bb, t) for bb, t in K.calls(co) if (F.callee_key(t) or "").endswith("time::{impl#1}::from_millis") or (F.callee(t) or {}).get("pretty", "").endswith("Duration::from_millis")]
    fm = [(bb, t) for bb, t in fm if dep.has_call(dep.arg_origins(co, bb, 0, prog=prog), "message::{impl#0}::len")]
    if len(fm) != 1:
        return None
    inl = [k for k, b in prog.bodies.items() if k.startswith("elvis_core::network::") and b.kind in ("fn", "method") and not b.derived and "::tests" not in k
           and b.name not in ("send", "next", "register_tap", "next_mac")]
    try:
        ex = S.Extractor(prog, inl, effects=True, max_nodes=40000)
        ex.stop = {fm[0][0]}
        ex.loops_ok = True
        ex._params = S.params_of(co)
        t = ex._block(co, 0, {i + 1: a for i, a in enumerate(S.params_of(co))}, (), 0)
    except S.Unsupported:
        return None
    # find the stop leaf and read the argument of from_millis there
    arg = F.call_args(fm[0][1])[0]
    pl = F.op_place(arg)
    found = []

    def walk(x):
        if x[0] == "ite":
            walk(x[2]); walk(x[3])
        elif x[0] == "switch":
            for _v, y in x[2]:
                walk(y)
            walk(x[3])
        elif x[0] == "state" and x[1][0] == "stop":
            found.append(x)
    walk(t)
    if not found or pl is None or pl[1]:
        return None
    name = co.local_name(pl[0])
    vals = [dict(x[1][2]).get(name) for x in found] if name else []
    vals = [v for v in vals if v is not None]
    if not vals:
        # the argument is a temporary: follow its single definition to a named local
        r = dep.single_def_rvalue(co, pl[0])
        if r is not None and r[1][0] == "use" and F.op_place(r[1][1]) is not None and not F.op_place(r[1][1])[1]:
            name = co.local_name(F.op_place(r[1][1])[0])
            vals = [dict(x[1][2]).get(name) for x in found] if name else []
            vals = [v for v in vals if v is not None]
    if not vals:
        return None
    ms = vals[0]
    lens = S.atoms(ms, lambda x: x[0] == "call" and x[1].endswith("message::{impl#0}::len"))
    rates = [x for x in S.atoms(ms, lambda x: (x[0] == "field" and x[2] == "0") or (x[0] == "call" and x[1].rsplit("::", 1)[-1] == "next")) if not any(x == l for l in lens)]
    if len(lens) != 1 or len(rates) != 1:
        return None
    for L, R in ((0, 1), (1, 2000), (34, 34), (1500, 1000), (65535, 7), (2000, 2000), (999, 1000000)):
        try:
            got = S.concrete(ms, {lens[0]: L, rates[0]: R}, 64)
        except (KeyError, S.Panics):
            return None
        if got != L * 1000 // R:
            return "the throughput sleep lasts %s ms for a %d-octet frame at %d octets/s, expected len*1000/throughput = %d ms" % (got, L, R, L * 1000 // R)
    return ""
