"""C04 — datagrams reach exactly the listener bound to their address and port (DESIGN.md §4 C04)."""
from .. import facts as F
from ..cfg import cfg
from .. import dep
from . import common as K

LEVEL = "other"
EXPLANATION = (
    "Structural rules on the UDP/IPv4 binding tables and demultiplexers: bindings are added only through "
    "DashMap::entry with the Occupied arm refusing (no blind insert/remove anywhere); Udp::demux / Ipv4::demux look the "
    "exact (destination address, destination port | protocol) key up first and the wildcard key only on the miss arm, "
    "hand the datagram to the binding found, strip exactly the codec's header length, attach the true source, and "
    "return MissingSession without any upward call when nothing is bound; (U-KEY) the binding and session tables are keyed by the endpoint value(s) themselves with derived Eq/Hash (a computed key is reported: nothing shows it injective). Decides these clauses for all inputs and "
    "arrival orders; payload equality end-to-end and multi-machine delivery are not decided.")
ASSUMPTIONS = ["DashMap::entry is atomic per key"]

MUTATORS = ("insert", "remove", "clear", "get_mut", "alter", "alter_all", "retain", "iter_mut", "remove_if",
            "remove_if_mut", "try_entry", "entry", "shrink_to_fit", "try_get_mut", "view")


def dashmap_calls(body, prog=None):
    out = []
    for bb, t in K.calls(body):
        ck = F.callee_key(t) or ""
        if ck.startswith("dashmap::") and "::mapref::" not in ck:
            out.append((bb, t, ck.rsplit("::", 1)[-1]))
    return out


def run(ctx):
    prog = ctx.prog()
    udp_listen = prog.method("Udp", "listen")
    ip_listen = prog.method("Ipv4", "listen")
    udp_demux = prog.method("Udp", "demux", "Protocol")
    ip_demux = prog.method("Ipv4", "demux", "Protocol")

    # ---------------------------------------------------------------- U-BIND
    for owner, lb_body in (("Udp", udp_listen), ("Ipv4", ip_listen)):
        entries = 0
        for b in prog.bodies.values():
            for bb, t, m in dashmap_calls(b):
                if m not in MUTATORS:
                    continue
                o = dep.origins(b, F.call_args(t)[0])
                if not dep.has_field(o, owner, "listen_bindings"):
                    continue
                key = "U-BIND:%s.listen_bindings.%s@%s" % (owner, m, b.key)
                if m == "entry" and b.key == lb_body.key:
                    entries += 1
                    probs = _check_entry(prog, b, bb, t, owner)
                    (ctx.bad if probs else ctx.ok)("U-BIND", key, F.call_loc(t), "; ".join(probs) if probs else
                        "binding added through entry(): Vacant inserts the caller's upstream, Occupied refuses")
                else:
                    ctx.bad("U-BIND", key, F.call_loc(t), "%s.listen_bindings is mutated by DashMap::%s in %s (not the atomic entry()/Vacant::insert of %s::listen): a second bind can replace or drop an existing binding" % (owner, m, b.pretty, owner))
        if entries != 1:
            ctx.bad("U-BIND", "U-BIND:%s.listen_bindings.entry-missing" % owner, lb_body.span,
                    "%s::listen does not add the binding through exactly one listen_bindings.entry() (found %d): check-then-insert is not atomic and a second bind is not refused" % (owner, entries))
    ctx.floor("U-BIND", 2)
    u_key(ctx, prog)

    # ---------------------------------------------------------------- U-LOOKUP / U-SRC / U-STRIP / U-DROP
    _check_demux(ctx, prog, udp_demux, "Udp",
                 exact=[("Ipv4Header", "destination"), ("UdpHeader", "destination")],
                 forbidden=[("Ipv4Header", "source"), ("UdpHeader", "source")],
                 wildcard_keep=[("UdpHeader", "destination")],
                 session_adt="udp_session::UdpSession", hand_up="udp_session::{impl#0}::receive")
    _check_demux(ctx, prog, ip_demux, "Ipv4",
                 exact=[("Ipv4Header", "destination"), ("Ipv4Header", "protocol")],
                 forbidden=[("Ipv4Header", "source")],
                 wildcard_keep=[("Ipv4Header", "protocol")],
                 session_adt="ipv4_session::Ipv4Session", hand_up="ipv4_session::{impl#0}::receive")

    # U-STRIP
    hdr = prog.const_val("udp::udp_parsing::HEADER_OCTETS")
    rf = K.calls_to(udp_demux, "message::{impl#0}::remove_front")
    ctx.require(len(rf) == 1, "Udp::demux: expected one remove_front, found %d" % len(rf))
    n = F.const_int(F.call_args(rf[0][1])[1])
    (ctx.ok if n == hdr else ctx.bad)("U-STRIP", "U-STRIP:Udp::demux", F.call_loc(rf[0][1]),
        "remove_front(%s) equals udp_parsing::HEADER_OCTETS=%s" % (n, hdr) if n == hdr else
        "Udp::demux strips %s bytes but the UDP header is HEADER_OCTETS=%s bytes: payload boundary is wrong" % (n, hdr))
    tcp_demux = prog.method("Tcp", "demux", "Protocol")
    thdr = prog.const_val("tcp::tcp_parsing::BASE_HEADER_OCTETS")
    rf = K.calls_to(tcp_demux, "message::{impl#0}::remove_front")
    ctx.require(len(rf) == 1, "Tcp::demux: expected one remove_front, found %d" % len(rf))
    n = F.const_int(F.call_args(rf[0][1])[1])
    (ctx.ok if n == thdr else ctx.bad)("U-STRIP", "U-STRIP:Tcp::demux", F.call_loc(rf[0][1]),
        "remove_front(%s) equals tcp_parsing::BASE_HEADER_OCTETS=%s" % (n, thdr) if n == thdr else
        "Tcp::demux strips %s bytes but the TCP header is %s bytes" % (n, thdr))
    rf = K.calls_to(ip_demux, "message::{impl#0}::remove_front")
    ctx.require(len(rf) == 1, "Ipv4::demux: expected one remove_front, found %d" % len(rf))
    o = dep.origins(ip_demux, F.call_args(rf[0][1])[1])
    okk = dep.has_field(o, "Ipv4Header", "ihl") and dep.consts_of(o) == {4} and {a[1] for a in o if a[0] == "op"} <= {"MulWithOverflow", "Mul"}
    (ctx.ok if okk else ctx.bad)("U-STRIP", "U-STRIP:Ipv4::demux", F.call_loc(rf[0][1]),
        "remove_front(header.ihl * 4)" if okk else "Ipv4::demux does not strip exactly header.ihl*4 bytes")


def _check_entry(prog, b, bb, t, owner):
    """The entry() call at bb: Occupied arm refuses, Vacant arm inserts the upstream parameter."""
    probs = []
    g = cfg(b)
    dest = F.call_dest(t)
    # switch on the discriminant of the Entry
    sw = None
    for s in range(len(b.blocks)):
        if b.is_cleanup(s) or b.term(s)[0] != "switch":
            continue
        c = dep.switch_condition(b, s)
        if c and c["kind"] == "discr" and c["place"][0] == dest[0] and g.dominates(bb, s):
            sw = s
            break
    if sw is None:
        return ["the Entry returned by entry() is not matched"]
    occ = K.skip_false_edges(b, dep.switch_target(b, sw, 0))   # Entry::Occupied = 0, Vacant = 1
    vac = K.skip_false_edges(b, dep.switch_target(b, sw, 1))
    ins = [(x, tt) for x, tt, m in [(x, tt, (F.callee_key(tt) or "").rsplit("::", 1)[-1]) for x, tt in K.calls(b)] if (F.callee_key(tt) or "").startswith("dashmap::mapref::entry") and m in ("insert", "insert_entry", "or_insert", "or_insert_with", "or_default", "replace_entry", "remove", "remove_entry", "and_modify")]
    vin = [(x, tt) for x, tt in ins if "VacantEntry" in (F.callee(tt).get("pretty") or "") or "{impl#2}" in (F.callee_key(tt) or "") or g.dominates(vac, x)]
    for x, tt in ins:
        if not g.dominates(vac, x):
            probs.append("Entry mutation %s (bb%d) is not confined to the Vacant arm" % (F.callee_key(tt), x))
    if not any(g.dominates(vac, x) for x, tt in ins):
        probs.append("the Vacant arm does not insert")
    for x, tt in ins:
        if g.dominates(vac, x):
            o = dep.origins(b, F.call_args(tt)[1], through_calls=False)
            if not dep.has_param(o, "upstream"):
                probs.append("the value inserted is not the caller's `upstream`")
    # Occupied arm: every path to return builds an Err, or (Ipv4) passes the equality test with the same upstream
    errs = [x for x, st in K.aggregates(b, "core::result::Result", "Err")] + [x for x, st in K.aggregates(b, "ListenError")]
    through = set(errs)
    if owner == "Ipv4":
        for s in range(len(b.blocks)):
            if b.is_cleanup(s) or b.term(s)[0] != "switch" or not g.dominates(occ, s):
                continue
            info = K.compare_info(b, s)
            if info and info["op"] in ("Eq", "Ne"):
                oa, ob = dep.origins(b, info["a"]), dep.origins(b, info["b"])
                if (dep.has_param(oa, "upstream") or dep.has_param(ob, "upstream")) and (any(a[0] == "call" and a[1] and a[1].endswith("::get") for a in oa | ob)):
                    rel_t = K.relation_on(info, info["true"])
                    same = info["true"] if rel_t and rel_t[0] == "Eq" else info["false"]
                    through.add(same)
    if not g.all_paths_through(occ, g.returns, through):
        probs.append("the Occupied arm can return without refusing (no Err on some path)")
    return probs


def _check_demux(ctx, prog, b, owner, exact, forbidden, wildcard_keep, session_adt, hand_up):
    g = cfg(b)
    gets = []
    for bb, t, m in dashmap_calls(b):
        if m == "get" and dep.has_field(dep.origins(b, F.call_args(t)[0]), owner, "listen_bindings"):
            gets.append((bb, t))
    key = "U-LOOKUP:%s::demux" % owner
    if len(gets) != 2:
        # another arrangement of lookups: decide the two clauses on paths instead of on the familiar shape
        wild = [(bb, t) for bb, t in gets if any(a[0] == "named" and a[1].endswith("CURRENT_NETWORK") for a in dep.arg_origins(b, bb, 1, prog=prog))]
        exact_g = [(bb, t) for bb, t in gets if (bb, t) not in wild]
        ms = [x for x, st in K.aggregates(b, "DemuxError", "MissingSession")]
        probs = []
        if not wild or not exact_g:
            probs.append("the datagram is not looked up under both its exact destination and the wildcard address")
        else:
            for x in ms:
                if not g.all_paths_through(0, [x], [bb for bb, _t in wild]):
                    probs.append("a datagram can be refused with MissingSession without the wildcard binding (0.0.0.0, port) having been consulted: the application that bound the wildcard address no longer gets datagrams for ports nobody bound exactly")
                    break
            for wb, _wt in wild:
                if not any(g.dominates(eb_, wb) for eb_, _t in exact_g):
                    probs.append("the wildcard binding can be chosen without the exact (address, port) binding having been looked up first: an exact binding no longer always wins")
                    break
        ctx.bad("U-LOOKUP", key, b.span, "; ".join(probs) if probs else "expected two listen_bindings lookups (exact, then wildcard), found %d" % len(gets))
        return
    if g.dominates(gets[1][0], gets[0][0]) and not g.dominates(gets[0][0], gets[1][0]):
        gets = [gets[1], gets[0]]
    (b1, t1), (b2, t2) = gets
    probs = []
    if not g.dominates(b1, b2):
        probs.append("the two lookups are not ordered by dominance")
    k1 = dep.arg_origins(b, b1, 1, prog=prog)
    k2 = dep.arg_origins(b, b2, 1, prog=prog)
    for (o, f) in exact:
        if not dep.has_field(k1, o, f):
            probs.append("the first lookup key does not depend on %s.%s" % (o, f))
    for (o, f) in forbidden:
        if dep.has_field(k1, o, f):
            probs.append("the first lookup key depends on %s.%s (lookup must be by destination only)" % (o, f))
        if dep.has_field(k2, o, f):
            probs.append("the wildcard lookup key depends on %s.%s" % (o, f))
    if any(a[0] == "named" and a[1].endswith("CURRENT_NETWORK") for a in k1):
        probs.append("the first lookup already uses the wildcard address: an exact binding no longer wins")
    if not any(a[0] == "named" and a[1].endswith("CURRENT_NETWORK") for a in k2):
        probs.append("the second lookup key is not built from Ipv4Address::CURRENT_NETWORK")
    for (o, f) in wildcard_keep:
        if not dep.has_field(k2, o, f):
            probs.append("the wildcard lookup key does not keep %s.%s" % (o, f))
    if dep.has_field(k2, "Ipv4Header", "destination"):
        probs.append("the wildcard lookup key still depends on the destination address")
    # second lookup only on the None arm of the first
    d1 = F.call_dest(t1)
    sw = None
    for s in range(len(b.blocks)):
        if b.is_cleanup(s) or b.term(s)[0] != "switch":
            continue
        c = dep.switch_condition(b, s)
        if c and c["kind"] == "discr" and c["place"] == d1:
            sw = s
    if sw is None:
        probs.append("the result of the exact lookup is not matched")
    else:
        none_arm = K.skip_false_edges(b, dep.switch_target(b, sw, 0))
        if not g.dominates(none_arm, b2):
            probs.append("the wildcard lookup is not confined to the miss arm of the exact lookup")
        # ... and it is always made there: no way out of the miss arm that skips the wildcard binding
        elif not g.all_paths_through(none_arm, g.returns, [b2]):
            ret_path = g.path(none_arm, g.returns[0], removed=[b2]) if g.returns else None
            where = ""
            for x in (ret_path or []):
                if b.term(x)[0] == "switch":
                    where = " (decided at %s)" % K.loc_of_block(b, x)
            probs.append("when the exact binding is missing, %s::demux can return without consulting the wildcard binding (0.0.0.0)%s: the application that bound the wildcard address does not get the datagram" % (owner, where))
    (ctx.bad if probs else ctx.ok)("U-LOOKUP", key, F.call_loc(t1), "; ".join(probs) if probs else
        "exact key from the destination fields first; wildcard (CURRENT_NETWORK, same port/protocol) only on its miss arm")

    # U-SRC + upstream from the binding found
    sess = K.aggregates(b, session_adt)
    probs = []
    if len(sess) != 1:
        probs.append("expected one %s construction, found %d" % (session_adt, len(sess)))
    else:
        st = sess[0][1]
        pos = K.at_stmt(b, sess[0][0], st)
        up = dep.origins(b, K.agg_field_operand(st, "upstream"), prog=prog, at=pos)
        getbbs = {b1, b2}
        if not any(a[0] == "call" and a[2] in getbbs for a in up):
            probs.append("the upstream handed the datagram does not originate from the binding found")
        if dep.has_param(up, "caller") and False:
            pass
        fld = "endpoints" if owner == "Udp" else "addresses"
        ep = K.agg_field_operand(st, fld)
        rem = dep.origins(b, ep, prog=prog, path=("remote",), at=pos)
        loc = dep.origins(b, ep, prog=prog, path=("local",), at=pos)
        if owner == "Udp":
            want_r = [("Ipv4Header", "source"), ("UdpHeader", "source")]
            want_l = [("Ipv4Header", "destination"), ("UdpHeader", "destination")]
        else:
            want_r = [("Ipv4Header", "source")]
            want_l = [("Ipv4Header", "destination")]
        for (o, f) in want_r:
            if not dep.has_field(rem, o, f):
                probs.append("session.%s.remote does not originate from %s.%s (true source lost)" % (fld, o, f))
        for (o, f) in want_l:
            if dep.has_field(rem, o, f):
                probs.append("session.%s.remote depends on %s.%s" % (fld, o, f))
            if not dep.has_field(loc, o, f):
                probs.append("session.%s.local does not originate from %s.%s" % (fld, o, f))
        for (o, f) in want_r:
            if dep.has_field(loc, o, f):
                probs.append("session.%s.local depends on %s.%s" % (fld, o, f))
    (ctx.bad if probs else ctx.ok)("U-SRC", "U-SRC:%s::demux" % owner, b.span, "; ".join(probs) if probs else
        "session built from the binding found; remote = datagram source, local = datagram destination")

    # U-DROP: MissingSession is returned without any upward hand-off
    ms = [x for x, st in K.aggregates(b, "DemuxError", "MissingSession")]
    ups = K.calls_to(b, hand_up)
    probs = []
    if len(ms) < 1:
        probs.append("no DemuxError::MissingSession construction found")
    # every hand-off of the datagram is decided by this datagram's own binding lookup (exact, then wildcard)
    undecided = [(ub, ut) for ub, ut in ups if not g.dominates(b1, ub)]
    for ub, ut in undecided:
        probs.append("the datagram is handed upward at %s without consulting listen_bindings for its destination first (e.g. through a remembered session): an exact binding made later never takes over from the wildcard one" % F.call_loc(ut))
    if undecided:
        pass
    elif len(ups) != 1:
        probs.append("expected one upward hand-off (%s), found %d" % (hand_up, len(ups)))
    else:
        for x in ms:
            if g.reaches(x, ups[0][0]):
                probs.append("after DemuxError::MissingSession (bb%d) the datagram can still be handed upward" % x)
            if g.reaches(ups[0][0], x):
                probs.append("MissingSession is produced after the hand-off")
        # both lookups missed => MissingSession: hand-off must be unreachable when both get results are None
        if sw is not None:
            d2 = F.call_dest(t2)
            sw2 = None
            for s in range(len(b.blocks)):
                if b.is_cleanup(s) or b.term(s)[0] != "switch":
                    continue
                c = dep.switch_condition(b, s)
                if c and c["kind"] == "discr" and c["place"] == d2:
                    sw2 = s
            if sw2 is None:
                probs.append("the result of the wildcard lookup is not matched")
            else:
                none2 = K.skip_false_edges(b, dep.switch_target(b, sw2, 0))
                if g.reaches(none2, ups[0][0]) or none2 == ups[0][0]:
                    probs.append("with no binding at all the datagram is still handed upward")
                if not g.all_paths_through(none2, g.returns, ms):
                    probs.append("with no binding at all the demux does not return MissingSession")
    (ctx.bad if probs else ctx.ok)("U-DROP", "U-DROP:%s::demux" % owner, b.span, "; ".join(probs) if probs else
        "no binding => DemuxError::MissingSession, the hand-off is unreachable from the double-miss arm")


# the demultiplexing tables and what each must be keyed by: the identifying value itself, compared and hashed field by
# field (derived), so that two different bindings / connections can never share a key
KEYED = (("protocols::udp::Udp", "listen_bindings", ("utility::Endpoint",)),
         ("protocols::udp::Udp", "sessions", ("utility::Endpoints",)),
         ("protocols::tcp::Tcp", "listen_bindings", ("utility::Endpoint",)),
         ("protocols::tcp::Tcp", "sessions", ("utility::Endpoints",)),
         ("protocols::ipv4::Ipv4", "listen_bindings", ("ipv4_address::Ipv4Address", "ProtocolNumber")))


def u_key(ctx, prog):
    """U-KEY: the binding and session tables are keyed by the endpoint value(s) themselves, whose Eq and Hash are the
    derived field-wise ones.  A key computed from the endpoint (a packed integer, a string) identifies bindings only if
    the encoding is injective - which nothing here establishes - so it is reported."""
    n = 0
    for adt_name, field, want in KEYED:
        try:
            a = prog.adt(adt_name)
        except Exception:
            continue
        for f in a["variants"][0]["fields"]:
            if f["name"] != field:
                continue
            ty = F.tystr(a["_types"], f["ty"])
            n += 1
            m = ty[ty.index("<") + 1:] if "<" in ty else ty
            # key = the first type argument of the map
            depth, key = 0, ""
            for ch in m:
                if ch in "<(":
                    depth += 1
                elif ch in ">)":
                    depth -= 1
                if ch == "," and depth == 0:
                    break
                key += ch
            parts = [x.strip() for x in key.strip("() ").split(",")] if key.strip().startswith("(") else [key.strip()]
            ok = len(parts) == len(want) and all(p_.endswith(w) for p_, w in zip(parts, want))
            (ctx.ok if ok else ctx.bad)("U-KEY", "U-KEY:%s.%s" % (adt_name.rsplit("::", 1)[-1], field), a.get("span"),
                "keyed by %s" % key.strip() if ok else
                "%s.%s is keyed by %s, not by %s itself: two different endpoints share a binding whenever the computed key collides (the encoding is not shown to be injective)" % (
                    adt_name.rsplit("::", 1)[-1], field, key.strip(), " x ".join(want)))
    # the key types compare and hash field by field
    for tname in ("utility::Endpoint", "utility::Endpoints", "ipv4_address::Ipv4Address"):
        for tr in ("core::cmp::PartialEq", "core::hash::Hash"):
            impls = [b for b in prog.bodies.values() if b.kind == "method" and b.impl_trait == tr and b.self_ty is not None
                     and b.types[b.self_ty].get("k") == "adt" and b.types[b.self_ty]["d"].endswith(tname)]
            ok = bool(impls) and all(b.derived for b in impls)
            (ctx.ok if ok else ctx.bad)("U-KEY", "U-KEY:%s:%s" % (tname.rsplit("::", 1)[-1], tr.rsplit("::", 1)[-1]), impls[0].span if impls else None,
                "derived" if ok else "%s for %s is not the derived field-wise implementation: distinct endpoints may compare equal" % (tr.rsplit("::", 1)[-1], tname))
    ctx.require(n >= 4, "U-KEY: binding/session tables not found (%d)" % n)
