"""Rules on the circular comparison primitives (modular_cmp.rs) and on Tcb::is_seq_ok, decided on the symbolic
expression extracted from their MIR (ea/symx.py) and a finite abstraction of their operands.

Q-PRIM   mod_lt / mod_leq / mod_gt / mod_geq: the result is a boolean function of comparisons between a constant
         and a linear form p - q + k of the two parameters (so it is invariant under adding the same offset to both),
         and on every region of the circle delimited by the constants involved it equals the circular order
         (checked at every critical point; the band of width 2 around distance 2^31, where "before" and "after" are
         ambiguous, is a don't-care).
         mod_bounded(a, ab, b, bc, c): for each of the 2x2 ModCmp combinations the result is a boolean function of
         ordinary comparisons among exactly the three values a - [ab = Leq], b, c + [bc = Leq]; on all 13 weak
         orderings of three values it equals the strict cyclic order ("b lies strictly inside the circular interval"),
         which is invariant under rotation of the circle.
T-SEQTBL Tcb::is_seq_ok is the four-row table of RFC 9293 Table 6 as revised by draft-gont-tcpm-tcp-seq-validation
         (lower edge RCV.NXT - 1): decision on (SEG.LEN = 0, RCV.WND = 0), each leaf a combination of
         "strictly between" tests whose bounds are compared as linear forms.
"""
from .. import facts as F
from .. import symx as S
from ..cfg import cfg
from .. import dep
from . import common as K

PRIMS = "elvis_core::protocols::tcp::tcb::modular_cmp::"
HALF = 1 << 31
M32 = 1 << 32
CMP_OPS = ("Eq", "Ne", "Lt", "Le", "Gt", "Ge")


def _is_cmp(t):
    return t[0] == "bin" and t[1] in CMP_OPS


def _pair_form(l, pa, pb):
    """If the linear form is +-(pa - pb) + k return (sign, k) else None."""
    items = dict(l[0])
    if set(items) != {pa, pb}:
        return None
    if items[pa] == 1 and items[pb] == -1:
        return (1, l[1])
    if items[pa] == -1 and items[pb] == 1:
        return (-1, l[1])
    return None


IDEAL = {
    # e = (b - a) mod 2^32
    "mod_lt": lambda e: 1 <= e < HALF,
    "mod_leq": lambda e: e < HALF,
    "mod_gt": lambda e: e > HALF,
    "mod_geq": lambda e: e == 0 or e > HALF,
}


def check_two_place(ctx, prog, rule, name):
    b = prog.one("modular_cmp::" + name)
    key = "%s:%s" % (rule, name)
    try:
        t, ex = S.extract(prog, b, inline=(PRIMS + "mod_lt", PRIMS + "mod_leq", PRIMS + "mod_gt", PRIMS + "mod_geq"))
    except S.Unsupported as e:
        ctx.require(False, "%s: cannot extract %s symbolically (%s)" % (rule, name, e))
        return
    pa, pb = S.params_of(b)
    cmps = S.atoms(t, _is_cmp)
    if not cmps:
        ctx.bad(rule, key, b.span, "%s no longer compares anything: %s" % (name, S.term_str(t)))
        return
    crit = {0, 1, 2, 3, HALF - 3, HALF + 3, M32 - 3, M32 - 2, M32 - 1, 1 << 30, M32 - (1 << 30), 1 << 16, M32 - (1 << 16)}
    for c in cmps:
        sides = [c[2], c[3]]
        if c[1] in ("Eq", "Ne") and c[2][0] != "const" and c[3][0] != "const":
            # equality of two sequence expressions: invariant iff their difference is +-(a - b) + k
            la, lb = S.lin(c[2]), S.lin(c[3])
            co = dict(la[0])
            for a_, c_ in lb[0]:
                co[a_] = co.get(a_, 0) - c_
            diff = (tuple(sorted(((a_, c_) for a_, c_ in co.items() if c_), key=repr)), (la[1] - lb[1]) % M32)
            pf = _pair_form(diff, pa, pb)
            if pf is None:
                ctx.bad(rule, key, b.span, "%s tests %s, which is not a relation between its two operands" % (name, S.term_str(c)))
                return
            for d in (-1, 0, 1):
                crit.add((pf[0] * pf[1] + d) % M32)
            continue
        forms = []
        for s in sides:
            if s[0] == "const":
                forms.append(("k", s[1]))
            else:
                pf = _pair_form(S.lin(s), pa, pb)
                if pf is None:
                    ctx.bad(rule, key, b.span,
                            "%s compares %s, which is not a difference of its two operands: the result depends on absolute sequence values (not invariant under an ISN shift / wrap-around)" % (
                                name, S.lin_str(S.lin(s))))
                    return
                forms.append(("d", pf))
        kinds = sorted(f[0] for f in forms)
        if kinds == ["d", "d"] and c[1] in ("Eq", "Ne"):
            continue
        if kinds != ["d", "k"]:
            ctx.bad(rule, key, b.span, "%s: comparison %s is not (difference, constant)" % (name, S.term_str(c)))
            return
        kk = [f[1] for f in forms if f[0] == "k"][0]
        sg, off = [f[1] for f in forms if f[0] == "d"][0]
        # value of the form at e: sg*(a-b)+off = -sg*e + off  -> critical e where it equals kk+-1 or wraps
        for d in (-2, -1, 0, 1, 2):
            crit.add((-sg * (kk + d - off)) % M32)
            crit.add((-sg * (d - off)) % M32)

    def run(e):
        def val(x):
            l = S.lin(x)
            v = l[1]
            for a, co in l[0]:
                if a == pa:
                    pass          # a := 0
                elif a == pb:
                    v += co * e   # b := e
                else:
                    raise KeyError(a)
            return v % M32
        return bool(S.evaluate(t, val))

    ideal = IDEAL[name]
    bad = []
    checked = 0
    for e in sorted(crit):
        if HALF - 2 <= e <= HALF + 2:
            continue
        checked += 1
        try:
            got = run(e)
        except KeyError as ke:
            ctx.bad(rule, key, b.span, "%s depends on something other than its operands: %s" % (name, S.term_str(ke.args[0])))
            return
        if got != ideal(e):
            bad.append((e, got))
    if bad:
        e, got = bad[0]
        ctx.bad(rule, key, b.span,
                "%s(a, b) = %s is not the circular '%s': for b - a = %d (mod 2^32) it yields %s, expected %s (%d of %d regions differ)" % (
                    name, S.term_str(t), name[4:], e if e < HALF else e - M32, got, ideal(e), len(bad), checked))
    else:
        ctx.ok(rule, key, b.span,
               "%s(a, b) = %s: depends on a - b only and equals the circular order on all %d regions/critical points (outside the ambiguous band at distance 2^31)" % (
                   name, S.term_str(t), checked))


def _cyc(ra, rb, rc):
    return (ra < rb < rc) or (rb < rc < ra) or (rc < ra < rb)


def cyclic_lemma():
    """The strict cyclic order of three points is invariant under rotation: checked for every weak ordering and cut."""
    n = 0
    for ranks in S.weak_orderings(3):
        m = max(ranks) + 1
        for cut in range(m + 1):
            rot = tuple((r - cut) % (m + 1) for r in ranks)
            n += 1
            if _cyc(*ranks) != _cyc(*rot):
                return None
    return n


def check_bounded(ctx, prog, rule):
    b = prog.one("modular_cmp::mod_bounded")
    key = rule + ":mod_bounded"
    adt = prog.adt("modular_cmp::ModCmp")
    vs = {v["name"]: v.get("discr", i) for i, v in enumerate(adt["variants"])}
    ctx.require(set(vs) == {"Lt", "Leq"}, "%s: ModCmp variants changed: %s" % (rule, sorted(vs)))
    try:
        t, ex = S.extract(prog, b, inline=(PRIMS + "{impl#0}::offset",))
    except S.Unsupported as e:
        ctx.require(False, "%s: cannot extract mod_bounded symbolically (%s)" % (rule, e))
        return
    ps = S.params_of(b)
    ctx.require(len(ps) == 5, "%s: mod_bounded arity changed" % rule)
    pa, pab, pb, pbc, pc = ps
    orders = S.weak_orderings(3)
    total = 0
    for ab in ("Lt", "Leq"):
        for bc in ("Lt", "Leq"):
            va = ("variant", adt["key"], ab, vs[ab])
            vc = ("variant", adt["key"], bc, vs[bc])

            def f(x):
                if x == pab:
                    return va
                if x == pbc:
                    return vc
                return None
            tt = S.subst(t, f)
            want = {
                "a": ((((pa, 1),), (0 - (1 if ab == "Leq" else 0)) % M32)),
                "b": (((pb, 1),), 0),
                "c": (((pc, 1),), (1 if bc == "Leq" else 0)),
            }
            forms = {}
            for c in S.atoms(tt, _is_cmp):
                for s in (c[2], c[3]):
                    forms[S.lin(s)] = s
            extra = [l for l in forms if l not in want.values()]
            if extra:
                ctx.bad(rule, key, b.span,
                        "mod_bounded(a, %s, b, %s, c) compares %s; expected only a%s, b and c%s (the bound offsets of ModCmp)" % (
                            ab, bc, ", ".join(S.lin_str(l) for l in extra), " - 1" if ab == "Leq" else "", " + 1" if bc == "Leq" else ""))
                return
            rank_of = {}
            for ranks in orders:
                rank_of = {want["a"]: ranks[0], want["b"]: ranks[1], want["c"]: ranks[2]}

                def val(x, rank_of=rank_of):
                    return rank_of[S.lin(x)]
                try:
                    got = bool(S.evaluate(tt, val))
                except KeyError as ke:
                    ctx.bad(rule, key, b.span, "mod_bounded depends on %s besides ordinary comparisons of its operands" % S.term_str(ke.args[0]))
                    return
                total += 1
                if got != _cyc(*ranks):
                    rel = {0: "a'", 1: "b", 2: "c'"}
                    order = " ".join("%s=%d" % (rel[i], r) for i, r in enumerate(ranks))
                    ctx.bad(rule, key, b.span,
                            "mod_bounded(a, %s, b, %s, c) is not 'b strictly inside the circular interval (a', c')': for the ordering %s it yields %s, expected %s" % (
                                ab, bc, order, got, _cyc(*ranks)))
                    return
    lem = cyclic_lemma()
    ctx.require(lem is not None, "%s: rotation lemma failed (checker bug)" % rule)
    ctx.ok(rule, key, b.span,
           "mod_bounded(a, ab, b, bc, c) equals the strict cyclic order of (a - [ab=Leq], b, c + [bc=Leq]) on all %d (ModCmp pair, weak ordering) cases; the cyclic order is rotation invariant (%d rotations checked)" % (total, lem))


def check_prims(ctx, rule="Q-PRIM"):
    prog = ctx.prog()
    for name in ("mod_lt", "mod_leq", "mod_gt", "mod_geq"):
        check_two_place(ctx, prog, rule, name)
    check_bounded(ctx, prog, rule)
    ctx.floor(rule, 5)


# ---------------------------------------------------------------------------------------------- is_seq_ok
def _between(call):
    """mod_bounded(lo, cmpl, x, cmph, hi) -> ('between', lin(lo) - [Leq], lin(x), lin(hi) + [Leq]) or None."""
    if call[0] != "call" or not call[1].endswith("modular_cmp::mod_bounded") or len(call[2]) != 5:
        return None
    lo, cl, x, ch, hi = call[2]
    if cl[0] != "variant" or ch[0] != "variant":
        return None
    return ("between", S.lin_shift(S.lin(lo), -1 if cl[2] == "Leq" else 0), S.lin(x), S.lin_shift(S.lin(hi), 1 if ch[2] == "Leq" else 0))


def _leaf_set(t):
    """A leaf as (kind, frozenset of between-atoms): false | one | or."""
    if t == ("bool", False):
        return ("false", frozenset())
    if t == ("bool", True):
        return ("true", frozenset())
    bt = _between(t)
    if bt:
        return ("or", frozenset([bt]))
    if t[0] == "ite":
        # a || b  ==  if a {true} else {b}
        c, a, b = t[1], t[2], t[3]
        if a == ("bool", True):
            l, r = _leaf_set(c), _leaf_set(b)
            if l and r and l[0] in ("or", "false") and r[0] in ("or", "false"):
                return ("or", l[1] | r[1])
    if t[0] == "bin" and t[1] == "BitOr":
        l, r = _leaf_set(t[2]), _leaf_set(t[3])
        if l and r:
            return ("or", l[1] | r[1])
    return None


def _bt_str(bt):
    return "%s < %s < %s" % (S.lin_str(bt[1]), S.lin_str(bt[2]), S.lin_str(bt[3]))


def check_seq_ok(ctx, rule="T-SEQTBL"):
    prog = ctx.prog()
    b = prog.method("Tcb", "is_seq_ok")
    inwin = prog.method("Tcb", "is_in_rcv_window")
    try:
        t, ex = S.extract(prog, b, inline=(inwin.key,))
    except S.Unsupported as e:
        ctx.require(False, "%s: cannot extract is_seq_ok symbolically (%s)" % (rule, e))
        return
    names = [p[1] for p in S.params_of(b)]
    ctx.require(names == ["self", "data_len", "seq", "syn", "fin"], "%s: is_seq_ok parameters changed: %s" % (rule, names))
    P = {n: ("param", n) for n in names}
    NXT = ("field", ("field", P["self"], "rcv"), "nxt")
    WND = ("field", ("field", P["self"], "rcv"), "wnd")
    seglen = S.lin(("bin", "Add", ("bin", "Add", P["data_len"], P["fin"]), P["syn"]))
    wnd = S.lin(WND)

    def guard_kind(c):
        if c[0] == "bin" and c[1] in ("Eq", "Ne") and ("const", 0) in (c[2], c[3]):
            other = c[3] if c[2] == ("const", 0) else c[2]
            l = S.lin(other)
            if l == seglen:
                return ("len0", c[1] == "Eq")
            if l == wnd:
                return ("wnd0", c[1] == "Eq")
        return None

    lo = S.lin_shift(S.lin(NXT), -2)
    seq = S.lin(P["seq"])
    last = S.lin_shift((tuple(sorted(seq[0] + seglen[0], key=repr)), (seq[1] + seglen[1]) % M32), -1)
    hi_w = S.lin(("call", "wrapping_add", (NXT, WND)))
    hi_0 = S.lin_shift(S.lin(NXT), 1)
    W = lambda x: ("between", lo, x, hi_w)
    expected = {
        (True, True): ("or", frozenset([("between", lo, seq, hi_0)])),
        (True, False): ("or", frozenset([W(seq)])),
        (False, True): ("false", frozenset()),
        (False, False): ("or", frozenset([W(seq), W(last)])),
    }
    row_name = {(True, True): "SEG.LEN = 0, RCV.WND = 0", (True, False): "SEG.LEN = 0, RCV.WND > 0",
                (False, True): "SEG.LEN > 0, RCV.WND = 0", (False, False): "SEG.LEN > 0, RCV.WND > 0"}
    for (len0, wnd0), want in sorted(expected.items(), reverse=True):
        key = "%s:len%s:wnd%s" % (rule, "=0" if len0 else ">0", "=0" if wnd0 else ">0")

        def f(x):
            g = guard_kind(x)
            if g is None:
                return None
            kind, is_eq = g
            truth = len0 if kind == "len0" else wnd0
            return ("bool", truth if is_eq else not truth)
        leaf = S.subst(t, f)
        got = _leaf_set(leaf)
        if got is None:
            ctx.bad(rule, key, b.span,
                    "is_seq_ok, row %s: the result %s is not a combination of window tests on the segment (an extra condition or an unrecognised comparison decides acceptability)" % (
                        row_name[(len0, wnd0)], S.term_str(leaf)[:300]))
            continue
        if got[0] == "true":
            ctx.bad(rule, key, b.span, "is_seq_ok, row %s: every segment is acceptable" % row_name[(len0, wnd0)])
            continue
        if got == want:
            ctx.ok(rule, key, b.span, "is_seq_ok, row %s: %s" % (
                row_name[(len0, wnd0)], " or ".join(sorted(_bt_str(x) for x in got[1])) or "not acceptable"))
        else:
            ctx.bad(rule, key, b.span, "is_seq_ok, row %s: tests [%s], RFC 9293 Table 6 (revised lower edge RCV.NXT-1) requires [%s]" % (
                row_name[(len0, wnd0)], " or ".join(sorted(_bt_str(x) for x in got[1])) or "not acceptable",
                " or ".join(sorted(_bt_str(x) for x in want[1])) or "not acceptable"))
    ctx.floor(rule, 4)


# ---------------------------------------------------------------------------------------------- ACK processing
def _resolve(t):
    """Normalise reads through functional updates: field(with(b, f, v), f) -> v ; field(with(b, g, v), f) -> field(b, f);
    fields of the value returned by remove_acked_from_retransmission (which only prunes the retransmission queue) are
    the fields of its argument."""
    def f(x):
        if x[0] == "field":
            base = _resolve(x[1])
            while True:
                if base[0] == "with":
                    if base[2] == x[2]:
                        return _resolve(base[3])
                    base = base[1]
                    continue
                if base[0] == "upd" and base[1].rsplit("::", 1)[-1] in ("remove_acked_from_retransmission", "enqueue") and base[2] == 0 and x[2] != "outgoing":
                    base = _resolve(base[3][0])
                    continue
                break
            return ("field", base, x[2])
        return None
    return S.subst(t, f)


def check_ack_processing(ctx, rule="T-ACKEST"):
    """Tcb::ack_established_processing against RFC 9293 3.10.7.4 (ESTABLISHED): duplicate ACK (SEG.ACK =< SND.UNA)
    ignored; SEG.ACK > SND.NXT answered with an ACK and dropped; otherwise SND.UNA <- SEG.ACK, acknowledged segments
    leave the queue, and the send window is updated exactly when SND.WL1 < SEG.SEQ or (SND.WL1 = SEG.SEQ and
    SND.WL2 =< SEG.ACK). The extracted formula (comparators inlined) is evaluated on every combination of critical
    positions of SEG.ACK, SND.WL1, SND.WL2 for two bases (one across the 2^32 wrap) and compared with that table."""
    prog = ctx.prog()
    b = prog.method("Tcb", "ack_established_processing")
    inl = [k for k in prog.bodies if k.startswith(PRIMS)]
    try:
        ex = S.Extractor(prog, inl, effects=True, max_nodes=60000)
        t = ex.run(b, S.params_of(b))
    except S.Unsupported as e:
        ctx.require(False, "%s: cannot extract ack_established_processing (%s)" % (rule, e))
    SELF, SEG = S.params_of(b)
    snd = lambda f: ("field", ("field", SELF, "snd"), f)
    seg = lambda f: ("field", SEG, f)
    key = rule + ":ack_established_processing"
    bad = None
    n = 0

    def run(x, env):
        while True:
            if x[0] == "ite":
                c = S.concrete(_resolve(x[1]), env, 32)
                x = x[2] if c else x[3]
            elif x[0] == "switch":
                c = S.concrete(_resolve(x[1]), env, 32)
                c = int(c) if isinstance(c, bool) else c
                nx = None
                for v, y in x[2]:
                    if v == c:
                        nx = y
                x = nx if nx is not None else x[3]
            else:
                return x
    for base in (1000, M32 - 3):
        for win in (0, 10):
            una, nxt = base % M32, (base + win) % M32
            for da in (-1, 0, 1, win, win + 1):
                ack = (una + da) % M32
                for dw1 in (-1, 0, 1):
                  for seqv in (5000, 0, M32 - 1):            # SEG.SEQ in the middle of the space and on either side of the wrap
                    for dw2 in (-1, 0, 1):
                        env = {snd("una"): una, snd("nxt"): nxt, snd("wl1"): (seqv + dw1) % M32, snd("wl2"): (ack + dw2) % M32, snd("wnd"): 111,
                               seg("ack"): ack, seg("seq"): seqv, seg("wnd"): 222}
                        try:
                            leaf = run(t, env)
                        except (KeyError, S.Panics) as e:
                            ctx.require(False, "%s: the ACK processing cannot be evaluated (%r): no verdict" % (rule, e))
                        ret = leaf[1] if leaf[0] == "state" else leaf
                        st = dict(leaf[2]) if leaf[0] == "state" else {}
                        selft = st.get(SELF, SELF)
                        vals = {}
                        for f_ in ("una", "wnd", "wl1", "wl2"):
                            vals[f_] = S.concrete(_resolve(("field", ("field", selft, "snd"), f_)), env, 32)
                        sent = "enqueue" in S.term_str(selft)
                        pruned = "remove_acked_from_retransmission" in S.term_str(selft)
                        dist = (ack - una) % M32
                        if dist == 0 or dist > HALF:
                            want = ("dup", una, 111, env[snd("wl1")], env[snd("wl2")], False)
                        elif 0 < (ack - nxt) % M32 < HALF:
                            want = ("invalid", una, 111, env[snd("wl1")], env[snd("wl2")], True)
                        else:
                            upd = (0 < (seqv - env[snd("wl1")]) % M32 < HALF) or (env[snd("wl1")] == seqv and ((ack - env[snd("wl2")]) % M32 < HALF))
                            want = ("valid", ack, 222 if upd else 111, seqv if upd else env[snd("wl1")], ack if upd else env[snd("wl2")], False)
                        rname = ret[2] if ret[0] == "variant" else (ret[1].rsplit("::", 1)[-1] if ret[0] == "agg" else "?")
                        kind = "invalid" if rname == "InvalidAck" else "ok"
                        got = (vals["una"], vals["wnd"], vals["wl1"], vals["wl2"], sent)
                        n += 1
                        okk = got == want[1:] and (kind == "invalid") == (want[0] == "invalid") and (want[0] != "valid" or pruned)
                        if not okk and bad is None:
                            bad = (una, nxt, ack, env[snd("wl1")], env[snd("wl2")], seqv, want, got, rname, pruned)
    if bad:
        una, nxt, ack, wl1, wl2, seqv, want, got, rname, pruned = bad
        ctx.bad(rule, key, b.span,
                "ACK processing deviates from RFC 9293 3.10.7.4: with SND.UNA=%d SND.NXT=%d SEG.ACK=%d SND.WL1=%d SND.WL2=%d SEG.SEQ=%d the %s case applies (expected UNA=%d WND=%d WL1=%d WL2=%d, ACK sent: %s) but the code returns %s with UNA=%d WND=%d WL1=%d WL2=%d, ACK sent: %s%s" % (
                    una, nxt, ack, wl1, wl2, seqv, {"dup": "duplicate-ACK", "invalid": "ACK-of-unsent-data", "valid": "acceptable-ACK"}[want[0]],
                    want[1], want[2], want[3], want[4], want[5], rname, got[0], got[1], got[2], got[3], got[4],
                    "" if pruned or want[0] != "valid" else ", retransmission queue not pruned"))
    else:
        ctx.ok(rule, key, b.span, "duplicate / unsent / acceptable ACK handling and the window-update condition agree with RFC 9293 3.10.7.4 on all %d evaluated combinations (two bases, one across the 2^32 wrap)" % n)


# ---------------------------------------------------------------------------------------------- CLOSED / LISTEN
def _agg_fields(prog, t):
    """('agg', 'path::Adt::Adt' | 'path::Adt', (ops...)) -> {field name: term} using the ADT's declared field order."""
    if t[0] != "agg":
        return None
    name = t[1]
    for cand in (name, name.rsplit("::", 1)[0]):
        a = prog.adts.get(cand)
        if a is not None and a.get("kind") == "struct":
            fs = [f["name"] for f in a["variants"][0]["fields"]]
            if len(fs) == len(t[2]):
                return dict(zip(fs, t[2]))
    return None


def _builder_chain(t):
    """ack(rst(new(sp, dp, seq)), x) ... -> {'new': (sp, dp, seq), 'flags': {'rst', 'ack', 'syn', 'fin'}, 'ack': x, 'wnd': y}"""
    out = {"flags": set()}
    while t[0] == "call":
        nm = t[1].rsplit("::", 1)[-1]
        if nm in ("rst", "syn", "fin", "psh", "urg") and len(t[2]) == 1:
            out["flags"].add(nm)
            t = t[2][0]
        elif nm == "ack" and len(t[2]) == 2:
            out["flags"].add("ack")
            out["ack"] = t[2][1]
            t = t[2][0]
        elif nm == "wnd" and len(t[2]) == 2:
            out["wnd"] = t[2][1]
            t = t[2][0]
        elif nm == "new" and len(t[2]) == 3:
            out["new"] = t[2]
            return out
        elif nm == "header_builder" and len(t[2]) == 2:
            out["new"] = (None, None, t[2][1])
            out["of"] = t[2][0]
            return out
        elif nm in ("ok", "build", "map", "unwrap", "expect") and t[2]:
            t = t[2][0]
        else:
            return None
    return None


def check_closed_listen(ctx, rule_c="T-CLOSED", rule_l="T-LISTEN"):
    """segment_arrives_closed / segment_arrives_listen as formulas against RFC 9293 3.10.7.1 / 3.10.7.2."""
    prog = ctx.prog()
    # ---- CLOSED
    b = prog.one("protocols::tcp::tcb::segment_arrives_closed")
    try:
        t, _ = S.extract(prog, b, effects=True)
    except S.Unsupported as e:
        ctx.require(False, "%s: cannot extract segment_arrives_closed (%s)" % (rule_c, e))
    ps = S.params_of(b)
    SEG = ps[0]
    TLEN = ps[1]
    fl = lambda n: ("call", None, n)
    probs = []

    def flag_of(c):
        if c[0] == "call" and c[1].rsplit("::", 1)[-1] in ("rst", "ack", "syn", "fin") and c[2] and c[2][0][0] == "field" and c[2][0][2] == "ctl":
            return c[1].rsplit("::", 1)[-1]
        return None

    def leaves(x, conds):
        if x[0] == "ite":
            f = flag_of(x[1])
            if f is None:
                ctx.require(False, "%s: unrecognised condition %s" % (rule_c, S.term_str(x[1])[:80]))
            yield from leaves(x[2], dict(conds, **{f: True}))
            yield from leaves(x[3], dict(conds, **{f: False}))
        else:
            yield conds, x
    seen = set()
    for conds, leaf in leaves(t, {}):
        ret = leaf[1] if leaf[0] == "state" else leaf
        if conds.get("rst"):
            seen.add("rst")
            if not (ret[0] in ("variant", "agg") and "None" in str(ret[1:3])):
                probs.append("a RST arriving for a closed connection is answered (%s); it must be discarded" % S.term_str(ret)[:80])
            continue
        ch = _builder_chain(ret)
        if ch is None or "new" not in ch:
            probs.append("a segment to a closed connection is not answered with a reset (%s)" % S.term_str(ret)[:100])
            continue
        sp, dp, seqt = ch["new"]
        if sp != ("field", SEG, "dst_port") or dp != ("field", SEG, "src_port"):
            probs.append("the reset does not go back to the sender's port from the port it addressed")
        if conds.get("ack"):
            seen.add("ack")
            if ch["flags"] != {"rst"} or seqt != ("field", SEG, "ack"):
                probs.append("a segment with ACK to a closed connection must be answered <SEQ=SEG.ACK><CTL=RST>; found flags %s, SEQ=%s" % (sorted(ch["flags"]), S.term_str(seqt)))
        else:
            seen.add("noack")
            want_ack = S.lin(("call", "wrapping_add", (("field", SEG, "seq"), TLEN)))
            if ch["flags"] != {"rst", "ack"} or seqt != ("const", 0) or S.lin(ch.get("ack", ("const", -1))) != want_ack:
                probs.append("a segment without ACK to a closed connection must be answered <SEQ=0><ACK=SEG.SEQ+SEG.LEN><CTL=RST,ACK>; found flags %s, SEQ=%s, ACK=%s" % (
                    sorted(ch["flags"]), S.term_str(seqt), S.term_str(ch.get("ack", ("const", 0)))[:60]))
    if seen != {"rst", "ack", "noack"}:
        probs.append("the three cases RST / ACK / no ACK are not all distinguished (%s)" % sorted(seen))
    (ctx.bad if probs else ctx.ok)(rule_c, rule_c + ":segment_arrives_closed", b.span, "; ".join(sorted(set(probs))[:3]) if probs else
        "RST discarded; ACK -> <SEQ=SEG.ACK><RST>; otherwise <SEQ=0><ACK=SEG.SEQ+SEG.LEN><RST,ACK>, ports swapped")
    # ---- LISTEN
    b = prog.one("protocols::tcp::tcb::segment_arrives_listen")
    try:
        t, _ = S.extract(prog, b, effects=True)
    except S.Unsupported as e:
        ctx.require(False, "%s: cannot extract segment_arrives_listen (%s)" % (rule_l, e))
    names = [p_[1] for p_ in S.params_of(b)]
    P = dict(zip(names, S.params_of(b)))
    probs = []
    seen = set()

    def hdr(f):
        return lambda x: x[0] == "field" and x[2] == f and "into_inner" in S.term_str(x[1])
    for conds, leaf in leaves(t, {}):
        ret = leaf[1] if leaf[0] == "state" else leaf
        if conds.get("rst"):
            seen.add("rst")
            if "None" not in str(ret[1:3]):
                probs.append("a RST arriving in LISTEN is not ignored")
            continue
        if conds.get("ack"):
            seen.add("ack")
            ch = _builder_chain(ret)
            if ch is None or ch["flags"] != {"rst"} or not hdr("ack")(ch["new"][2]):
                probs.append("a segment with ACK arriving in LISTEN must be answered <SEQ=SEG.ACK><CTL=RST>")
            continue
        if conds.get("syn"):
            seen.add("syn")
            if not (ret[0] == "agg" and ret[1].endswith("Option::Some")):
                probs.append("a SYN arriving in LISTEN does not create a connection")
                continue
            s_ = S.term_str(ret)
            tcb = ret[2][0]
            snds = S.atoms(tcb, lambda x: x[0] == "agg" and x[1].rsplit("::", 1)[-1] == "SendSequenceSpace")
            rcvs = S.atoms(tcb, lambda x: x[0] == "agg" and x[1].rsplit("::", 1)[-1] == "ReceiveSequenceSpace")
            if not snds or not rcvs:
                probs.append("the new TCB's sequence spaces are not initialised from the SYN")
                continue
            sf, rf = _agg_fields(prog, snds[0]), _agg_fields(prog, rcvs[0])
            ISS = P.get("iss")
            if sf is None or rf is None or ISS is None:
                ctx.require(False, "%s: sequence space layout changed" % rule_l)
            if not hdr("seq")(rf["irs"]) or S.lin(rf["nxt"]) != S.lin_shift(S.lin(rf["irs"]), 1):
                probs.append("LISTEN + SYN: IRS / RCV.NXT are not SEG.SEQ / SEG.SEQ+1")
            if sf["iss"] != ISS or sf["una"] != ISS or S.lin(sf["nxt"]) != S.lin_shift(S.lin(ISS), 1):
                probs.append("LISTEN + SYN: SND.UNA / SND.NXT / ISS are not ISS / ISS+1 / ISS")
            enq = S.atoms(tcb, lambda x: x[0] == "upd" and x[1].rsplit("::", 1)[-1] == "enqueue")
            ch = _builder_chain(enq[0][3][1]) if enq else None
            if ch is None or ch["flags"] != {"syn", "ack"} or ch["new"][2] != ISS or S.lin(ch.get("ack", ("const", 0))) != S.lin_shift(S.lin(rf["irs"]), 1):
                probs.append("LISTEN + SYN must be answered <SEQ=ISS><ACK=SEG.SEQ+1><CTL=SYN,ACK>")
            if "SynReceived" not in s_:
                probs.append("LISTEN + SYN does not enter SYN-RECEIVED")
            continue
        seen.add("other")
        if "None" not in str(ret[1:3]):
            probs.append("a segment without SYN, ACK or RST arriving in LISTEN is not dropped")
    if not {"rst", "ack", "syn"} <= seen:
        probs.append("the cases RST / ACK / SYN are not all distinguished (%s)" % sorted(seen))
    (ctx.bad if probs else ctx.ok)(rule_l, rule_l + ":segment_arrives_listen", b.span, "; ".join(sorted(set(probs))[:3]) if probs else
        "RST ignored; ACK -> <SEQ=SEG.ACK><RST>; SYN -> SYN-RECEIVED with IRS=SEG.SEQ, RCV.NXT=SEG.SEQ+1, SND.UNA=ISS, SND.NXT=ISS+1 and <SEQ=ISS><ACK=RCV.NXT><SYN,ACK>; anything else dropped")


def check_close(ctx, rule="T-FIN"):
    """Tcb::close as a formula: whenever the state moves towards FIN-WAIT-1 / LAST-ACK, a segment <SEQ=SND.NXT><ACK=RCV.NXT>
    <CTL=FIN,ACK> is queued and SND.NXT advances by one (the FIN occupies one sequence number, which is what lets
    is_fin_acked / the peer's RCV.NXT agree with it)."""
    prog = ctx.prog()
    b = prog.method("Tcb", "close")
    try:
        t, _ = S.extract(prog, b, effects=True)
    except S.Unsupported as e:
        ctx.require(False, "%s: cannot extract Tcb::close (%s)" % (rule, e))
    SELF = S.params_of(b)[0]
    probs = []
    n = 0

    def leaves(x):
        if x[0] == "ite":
            yield from leaves(x[2]); yield from leaves(x[3])
        elif x[0] == "switch":
            for _v, y in x[2]:
                yield from leaves(y)
            yield from leaves(x[3])
        else:
            yield x
    for leaf in leaves(t):
        if leaf[0] != "state":
            continue
        st = dict(leaf[2])
        if SELF not in st:
            continue
        root, fs = S.with_fields(st[SELF])
        new_state = fs.get("state")
        if new_state is None:
            continue
        n += 1
        sname = new_state[2] if new_state[0] == "variant" else "?"
        enq = S.atoms(st[SELF], lambda x: x[0] == "upd" and x[1].rsplit("::", 1)[-1] == "enqueue")
        ch = _builder_chain(enq[0][3][1]) if enq else None
        OLD_NXT = ("field", ("field", SELF, "snd"), "nxt")
        if ch is None or not {"fin", "ack"} <= ch["flags"] or ch["new"][2] != OLD_NXT or ch.get("ack") != ("field", ("field", SELF, "rcv"), "nxt"):
            probs.append("close() -> %s does not queue <SEQ=SND.NXT><ACK=RCV.NXT><CTL=FIN,ACK>" % sname)
        snd = fs.get("snd")
        nx = None
        if snd is not None:
            _r, sf = S.with_fields(snd)
            nx = sf.get("nxt")
        if nx is None or S.lin(_resolve(nx)) != S.lin_shift(S.lin(OLD_NXT), 1):
            probs.append("close() -> %s does not advance SND.NXT by one for the FIN (SND.NXT' = %s)" % (sname, S.term_str(nx) if nx else "unchanged"))
    ctx.require(n >= 2, "%s: state-changing arms of Tcb::close not found" % rule)
    # RFC 9293 3.10.4: the CLOSE is "queued until all preceding SENDs have been segmentized".  Text handed to send() sits in
    # outgoing.text until segments() cuts it; a close() that neither looks at outgoing.text nor defers the FIN takes the
    # sequence number right after what was segmentised so far, and (segments() stops cutting once the state has left
    # ESTABLISHED / CLOSE-WAIT) the pending text is never sent: data submitted before the close does not reach the peer.
    pending = ("field", ("field", SELF, "outgoing"), "text")
    looks = bool(S.atoms(t, lambda x: x == pending))
    sg = prog.method("Tcb", "segments")
    (ctx.ok if looks else ctx.bad)(rule, rule + ":close:pending-text", b.span,
        "close() takes the text still waiting in outgoing.text into account" if looks else
        "close() queues the FIN at SND.NXT without regard to text still waiting in outgoing.text (send() followed by close() before the next segments()): that text is never segmentised afterwards, so data submitted before the close is not delivered before the peer sees the end of the stream")
    (ctx.bad if probs else ctx.ok)(rule, rule + ":Tcb::close", b.span, "; ".join(sorted(set(probs))[:3]) if probs else
        "every closing transition queues <SEQ=SND.NXT><ACK=RCV.NXT><FIN,ACK> and advances SND.NXT by one (%d arms)" % n)


def check_receive(ctx, rule="T-RECV"):
    """Tcb::receive as a formula over the connection state (RFC 9293 3.10.3): in ESTABLISHED, FIN-WAIT-1, FIN-WAIT-2 and
    CLOSE-WAIT ("RECEIVEs must be satisfied by data already on hand") the call hands over the buffered text; bytes that
    were accepted and acknowledged are otherwise never seen by the application."""
    prog = ctx.prog()
    b = prog.method("Tcb", "receive")
    try:
        t, _ = S.extract(prog, b, effects=True)
    except S.Unsupported as e:
        ctx.require(False, "%s: cannot extract Tcb::receive (%s)" % (rule, e))
    SELF = S.params_of(b)[0]
    st = prog.adt("tcp::tcb::state::State")
    disc = {v["name"]: int(v["discr"]) if v.get("discr") is not None else i for i, v in enumerate(st["variants"])}
    text = ("field", ("field", SELF, "incoming"), "text")
    probs, n = [], 0
    # ... and also once the peer's FIN has been processed (CLOSING, LAST-ACK, TIME-WAIT): text accepted before the FIN and
    # not read yet is still the application's (the pull-style receive() has no pending RECEIVE buffers it went into)
    for name in ("Established", "FinWait1", "FinWait2", "CloseWait", "Closing", "LastAck", "TimeWait"):
        ctx.require(name in disc, "%s: State::%s not found" % (rule, name))
        d = disc[name]
        r = S.subst(t, lambda x: ("const", d) if x == ("discr", ("field", SELF, "state")) else None)
        for _c, leaf in S.ok_paths(r, lambda x: True):
            if leaf[0] in ("unreachable", "never", "stop"):
                continue
            n += 1
            if not S.atoms(leaf, lambda y: y == text):
                probs.append("in %s receive() returns %s instead of the text buffered in incoming.text: data accepted before the peer's FIN is never delivered" % (
                    name, S.term_str(leaf)[:80]))
    ctx.require(n >= 7, "%s: receive() has no returning path for some state" % rule)
    (ctx.bad if probs else ctx.ok)(rule, "%s:Tcb::receive" % rule, b.span, "; ".join(probs[:2]) if probs else
        "receive() hands over incoming.text in every synchronised state, also after the peer's FIN")


def check_send(ctx, rule="T-SEND"):
    """Tcb::send as a formula over the connection state (RFC 9293 3.10.2): before and in ESTABLISHED the bytes are
    appended to the text waiting to be segmentised - after what is already there, unchanged."""
    prog = ctx.prog()
    b = prog.method("Tcb", "send")
    try:
        t, _ = S.extract(prog, b, effects=True)
    except S.Unsupported as e:
        ctx.require(False, "%s: cannot extract Tcb::send (%s)" % (rule, e))
    SELF, MSG = S.params_of(b)[0], S.params_of(b)[1]
    st = prog.adt("tcp::tcb::state::State")
    disc = {v["name"]: int(v["discr"]) if v.get("discr") is not None else i for i, v in enumerate(st["variants"])}
    text = ("field", ("field", SELF, "outgoing"), "text")
    probs, n = [], 0
    for name in ("SynSent", "SynReceived", "Established"):
        d = disc[name]
        r = S.subst(t, lambda x: ("const", d) if x == ("discr", ("field", SELF, "state")) else None)
        leaves = []

        def go(x):
            if x[0] == "ite":
                go(x[2]); go(x[3])
            elif x[0] == "switch":
                for _, y in x[2]:
                    go(y)
                go(x[3])
            else:
                leaves.append(x)
        go(r)
        for leaf in leaves:
            if leaf[0] in ("unreachable", "never", "stop"):
                continue
            n += 1
            fin = dict(leaf[2]).get(SELF) if leaf[0] == "state" else None
            new_text = None
            if fin is not None:
                og = S.with_fields(fin)[1].get("outgoing")
                if og is not None:
                    new_text = S.with_fields(og)[1].get("text")
            if new_text is None:
                probs.append("in %s send() leaves outgoing.text as it was: the bytes are dropped" % name)
            elif not (new_text[0] == "upd" and new_text[1].endswith("::concatenate") and new_text[3] == (text, MSG)):
                probs.append("in %s send() sets outgoing.text to %s, not to the old text followed by the message" % (name, S.term_str(new_text)[:100]))
    ctx.require(n >= 3, "%s: send() has no returning path for some state" % rule)
    (ctx.bad if probs else ctx.ok)(rule, "%s:Tcb::send" % rule, b.span, "; ".join(probs[:2]) if probs else
        "send() appends the message to outgoing.text in SYN-SENT, SYN-RECEIVED and ESTABLISHED")


def check_accept(ctx, rule="T-ACCEPT"):
    """The text-queueing step of process_segment as a formula (from the arm of the state match that accepts text to
    the append): RCV.NXT advances by exactly the number of octets appended to incoming.text (slice end - slice start),
    and the octets skipped at the front are measured from RCV.NXT - SEG.SEQ.  Acknowledging octets that were cut off
    loses them for good: the sender drops them from its retransmission queue."""
    prog = ctx.prog()
    b = prog.method("Tcb", "process_segment")
    g = cfg(b)
    sl = [(bb, t) for bb, t in K.calls(b) if (F.callee_key(t) or "").endswith("message::{impl#0}::slice")]
    cc = [(bb, t) for bb, t in K.calls(b) if (F.callee_key(t) or "").endswith("message::{impl#0}::concatenate")
          and dep.has_field(dep.arg_origins(b, bb, 0), "Incoming", "text")]
    ctx.require(len(cc) >= 1, "%s: no append to incoming.text in process_segment" % rule)
    probs, n = [], 0
    for cbb, ct in cc:
        # nearest enclosing match on self.state
        arm = None
        for s_ in g.dom_chain(cbb):
            if b.term(s_)[0] == "switch":
                c = dep.switch_condition(b, s_)
                if c and c["kind"] == "discr" and F.place_fields(c["place"]) and F.place_fields(c["place"])[-1][1] == "state":
                    arm = s_
                    break
        ctx.require(arm is not None, "%s: the append to incoming.text is not under a match on the state" % rule)
        starts = sorted({tg for _, tg in b.term(arm)[2] if g.dominates(tg, cbb)} | ({b.term(arm)[3]} if g.dominates(b.term(arm)[3], cbb) else set()))
        ctx.require(len(starts) == 1, "%s: cannot find the arm that appends to incoming.text" % rule)
        # which states take that arm: RFC 9293 3.10.7.4 (seventh, segment text) names ESTABLISHED, FIN-WAIT-1, FIN-WAIT-2
        st_adt = prog.adt("tcp::tcb::state::State")
        disc = {(int(v["discr"]) if v.get("discr") is not None else i): v["name"] for i, v in enumerate(st_adt["variants"])}
        listed = {val for val, tg in b.term(arm)[2]}
        takes = {disc[val] for val, tg in b.term(arm)[2] if tg == starts[0] and val in disc}
        if b.term(arm)[3] == starts[0]:
            takes |= {n for d_, n in disc.items() if d_ not in listed}
        missing = {"Established", "FinWait1", "FinWait2"} - takes
        if missing:
            probs.append("segment text is not queued in %s (RFC 9293 3.10.7.4: ESTABLISHED, FIN-WAIT-1 and FIN-WAIT-2 accept text - only our own direction is closed): RCV.NXT stops, the peer's data is never delivered and its FIN is never reached" % ", ".join(sorted(missing)))
        try:
            t, _ = S.extract_from(prog, b, starts[0], effects=True, stop={b.term(cbb)[4]})
        except S.Unsupported as e:
            ctx.require(False, "%s: cannot extract the text-queueing step (%s)" % (rule, e))
        SELF = ("local", 1)
        for conds, log, leaf in S.paths(t):
            pass
        for leaf in _all_leaves(t):
            if leaf[0] != "state" or leaf[1][0] != "stop":
                continue
            fin = dict(leaf[2]).get(SELF)
            if fin is None:
                continue
            root, fs = S.with_fields(fin)
            rcv = S.with_fields(fs["rcv"])[1] if "rcv" in fs else {}
            inc = S.with_fields(fs["incoming"])[1] if "incoming" in fs else {}
            new_text, new_nxt = inc.get("text"), rcv.get("nxt")
            if new_text is None:
                continue
            n += 1
            old_nxt = ("field", ("field", SELF, "rcv"), "nxt")
            adv = S.lin(("bin", "Sub", new_nxt, old_nxt)) if new_nxt is not None else S.lin(("const", 0))
            app = new_text[3][1] if new_text[0] == "upd" and new_text[1].endswith("::concatenate") and len(new_text[3]) == 2 else None
            if app is None:
                probs.append("incoming.text becomes %s, not the old text followed by the accepted octets" % S.term_str(new_text)[:100])
                continue
            if app[0] == "upd" and app[1].endswith("::slice") and len(app[3]) == 2 and app[3][1][0] == "agg" and len(app[3][1][2]) == 2:
                lo, hi = app[3][1][2]
                taken = S.lin(("bin", "Sub", hi, lo))
                if taken != adv:
                    probs.append("RCV.NXT advances by %s but %s octets are appended to incoming.text: octets that were cut off are acknowledged and never delivered (or delivered octets are not acknowledged)" % (
                        S.lin_str(adv), S.lin_str(taken)))
                # ... and never more than the receive buffer has room for: the count is min(.., RCV.WND - len(incoming.text))
                free = S.lin(("bin", "Sub", ("field", ("field", SELF, "rcv"), "wnd"), ("call", "len", (("field", ("field", SELF, "incoming"), "text"),))))
                def _is_free(x):
                    if x[0] == "cast":
                        return _is_free(x[1])
                    if x[0] == "bin" and x[1] == "Sub":
                        a, b_ = x[2], x[3]
                        while a[0] == "cast":
                            a = a[1]
                        while b_[0] == "cast":
                            b_ = b_[1]
                        return a == ("field", ("field", SELF, "rcv"), "wnd") and b_[0] == "call" and b_[1].endswith("::len") and b_[2] == (("field", ("field", SELF, "incoming"), "text"),)
                    return False
                bounded = False
                if len(taken[0]) == 1 and taken[0][0][1] == 1 and taken[1] == 0:
                    a0 = taken[0][0][0]
                    if a0[0] == "call" and a0[1].rsplit("::", 1)[-1] == "min" and len(a0[2]) == 2 and any(_is_free(y) for y in a0[2]):
                        bounded = True
                if not bounded:
                    probs.append("the octets appended to incoming.text (%s) are not limited to the free space RCV.WND - len(incoming.text): the buffer can grow beyond the window, and the next `rcv.wnd - incoming.text.len()` underflows" % S.lin_str(taken)[:120])
                if not S.atoms(lo, lambda y: y[0] == "call" and y[1].endswith("wrapping_sub") and S.atoms(y, lambda z: z == old_nxt)):
                    probs.append("the octets skipped at the front of the segment are not measured from RCV.NXT - SEG.SEQ")
            elif app[0] == "upd" and app[1].endswith("::remove_front"):
                probs.append("everything after the skipped prefix of the segment text is appended to incoming.text while RCV.NXT advances by %s: the part that does not fit the receive buffer is neither cut off nor acknowledged, the buffer grows beyond RCV.WND and the next `rcv.wnd - incoming.text.len()` underflows" % S.lin_str(adv)[:80])
            else:
                probs.append("the octets appended are %s: not a slice of the segment text" % S.term_str(app)[:100])
    ctx.require(n >= 1, "%s: no path appends to incoming.text" % rule)
    # every segment that reaches the text step is acknowledged there - also one that brings nothing new (an exact
    # duplicate whose ACK was lost): otherwise the peer retransmits it for ever
    enq = [bb for bb, t in K.calls(b) if (F.callee_key(t) or "").endswith("tcb::{impl#0}::enqueue")
           and dep.has_field(dep.arg_origins(b, bb, 1), "ReceiveSequenceSpace", "nxt") and dep.has_call(dep.arg_origins(b, bb, 1), "::ack")]
    for cbb, ct in cc:
        if not g.all_paths_through(cbb, g.returns, enq):
            probs.append("after queueing segment text process_segment can return without sending <ACK=RCV.NXT>: a duplicate of the last segment (its ACK was lost) is never acknowledged again and the sender retransmits for ever")
    (ctx.bad if probs else ctx.ok)(rule, "%s:process_segment" % rule, b.span, "; ".join(sorted(set(probs))[:2]) if probs else
        "RCV.NXT advances by slice end - slice start of the text appended; the skipped prefix is RCV.NXT - SEG.SEQ")


def _all_leaves(t):
    if t[0] == "ite":
        return _all_leaves(t[2]) + _all_leaves(t[3])
    if t[0] == "switch":
        out = []
        for _, y in t[2]:
            out += _all_leaves(y)
        return out + _all_leaves(t[3])
    return [t]
