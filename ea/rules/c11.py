"""C11 — IPv4 reassembly rebuilds exactly the datagrams that were fragmented (DESIGN.md §4 C11)."""
from .. import facts as F
from ..cfg import cfg
from .. import dep
from . import common as K

LEVEL = "other"
EXPLANATION = (
    "Structural rules on the reassembler: (B-KEY) BufId::from_header reads exactly source, destination, protocol and "
    "identification, BufId's Eq/Hash are derived, and every access to Reassembly.segments is keyed by from_header of "
    "the packet at hand or by the key handed back in Incomplete; (B-EPOCH) maybe_cull_segment removes only on the "
    "branch where the stored epoch equals the epoch the timer was armed with, every Incomplete outcome increments the "
    "epoch, and Ipv4Session::receive arms the timer with the epoch of that very outcome after sleeping the returned "
    "timeout; (B-IDEMP) storing a piece must be idempotent under repeated fragments. Decides non-mixing and the "
    "expiry discipline for all arrival orders; byte-exact contents and 'complete exactly when covered' are not decided.")
ASSUMPTIONS = []

SEG = "reassembly::segment::Segment"


def run(ctx):
    prog = ctx.prog()
    b_step(ctx, prog)
    b_flow(ctx, prog)
    # ---------------------------------------------------------------- B-KEY
    fh = prog.method("BufId", "from_header")
    aggs = K.aggregates(fh, "buf_id::BufId")
    probs = []
    want = {"src": "source", "dst": "destination", "protocol": "protocol", "identification": "identification"}
    if len(aggs) != 1:
        probs.append("BufId::from_header does not build exactly one BufId")
    else:
        st = aggs[0][1]
        fields = st[2][1]["fields"]
        if set(fields) != set(want):
            probs.append("BufId has fields %s, expected %s" % (sorted(fields), sorted(want)))
        for f in fields:
            o = dep.origins(fh, K.agg_field_operand(st, f), at=K.at_stmt(fh, aggs[0][0], st), through_calls=False)
            hf = {a[2] for a in o if a[0] == "field" and a[1].endswith("Ipv4Header")}
            if f in want and hf != {want[f]}:
                probs.append("BufId.%s is read from header.%s, expected header.%s" % (f, sorted(hf), want[f]))
    for tr in ("core::cmp::PartialEq", "core::hash::Hash", "core::cmp::Eq"):
        im = [i for i in prog.impls if i.get("trait") == tr and i["_types"][i["self_ty"]].get("d", "").endswith("buf_id::BufId")]
        if len(im) != 1 or not im[0]["derived"]:
            probs.append("%s for BufId is not derived (a hand-written impl may ignore a field)" % tr.rsplit("::", 1)[-1])
    (ctx.bad if probs else ctx.ok)("B-KEY", "B-KEY:BufId", fh.span, "; ".join(probs) if probs else
        "BufId = (source, destination, protocol, identification) with derived Eq/Hash")
    rp = prog.method("Reassembly", "receive_packet")
    mc = prog.method("Reassembly", "maybe_cull_segment")
    n = 0
    for b in prog.bodies.values():
        for bb, t in K.calls(b):
            ck = F.callee_key(t) or ""
            if not ck.startswith("std::collections::hash::map::") and not ck.startswith("hashbrown::"):
                continue
            m = ck.rsplit("::", 1)[-1]
            if m not in ("entry", "remove", "insert", "get", "get_mut", "contains_key", "remove_entry"):
                continue
            if len(F.call_args(t)) < 2 or not dep.has_field(dep.arg_origins(b, bb, 0, through_calls=False), "Reassembly", "segments"):
                continue
            n += 1
            ko = dep.arg_origins(b, bb, 1)
            if b.key == rp.key:
                ok = dep.has_call(ko, fh.key) and dep.has_param(ko, "header")
                why = "keyed by BufId::from_header(&header) of the packet at hand"
            elif b.key == mc.key:
                ok = dep.has_param(ko, "buf_id")
                why = "keyed by the BufId handed back in Incomplete"
            else:
                ok = False
                why = ""
            (ctx.ok if ok else ctx.bad)("B-KEY", "B-KEY:segments.%s@%s" % (m, b.key.rsplit("::", 1)[-1]), F.call_loc(t),
                why if ok else "Reassembly.segments is accessed (%s) in %s with a key that is not the packet's BufId" % (m, b.pretty))
    ctx.require(n >= 3, "B-KEY: only %d accesses of Reassembly.segments found" % n)

    # ---------------------------------------------------------------- B-EPOCH
    g = cfg(mc)
    rems = [(bb, t) for bb, t in K.calls(mc) if (F.callee_key(t) or "").rsplit("::", 1)[-1] in ("remove_entry", "remove")]
    probs = []
    if len(rems) != 1:
        probs.append("expected one removal in maybe_cull_segment, found %d" % len(rems))
    else:
        guard = None
        for s in g.dom_chain(rems[0][0]):
            if mc.term(s)[0] != "switch":
                continue
            info = K.compare_info(mc, s)
            if info and info["op"] in ("Eq", "Ne"):
                oa = dep.origins(mc, info["a"], at=K.at_term(mc, s))
                ob = dep.origins(mc, info["b"], at=K.at_term(mc, s))
                if (dep.has_field(oa, SEG, "epoch") and dep.has_param(ob, "epoch")) or (dep.has_field(ob, SEG, "epoch") and dep.has_param(oa, "epoch")):
                    rel = K.relation_on(info, info["true"])
                    eqb = info["true"] if rel and rel[0] == "Eq" else info["false"]
                    if g.dominates(eqb, rems[0][0]):
                        guard = s
        if guard is None:
            probs.append("the removal is not confined to the branch `stored epoch == armed epoch`: a datagram still receiving fragments can be discarded")
    (ctx.bad if probs else ctx.ok)("B-EPOCH", "B-EPOCH:maybe_cull_segment", mc.span, "; ".join(probs) if probs else
        "cull only when the stored epoch equals the epoch the timer was armed with")
    sr = prog.method("Segment", "receive_packet")   # reassembly segment
    sg = cfg(sr)
    nones = [bb for bb, st in K.aggregates(sr, "core::option::Option", "None") if st[1] == [0, []]]
    incs = [bb for bb, st in K.assigns_to_field(sr, SEG, ("epoch",))]
    probs = []
    if not nones:
        probs.append("no `None` (incomplete) outcome found")
    if not incs:
        probs.append("the epoch is never incremented")
    for nb in nones:
        if not any(sg.dominates(ib, nb) for ib in incs):
            probs.append("an incomplete outcome (bb%d) does not increment the epoch: an older timer can discard a datagram that just received a fragment" % nb)
    for bb, st in K.assigns_to_field(sr, SEG, ("epoch",)):
        o = set()
        for op in dep.rvalue_operands(st[2]):
            o |= dep.origins(sr, op, at=K.at_stmt(sr, bb, st))
        if not (dep.has_field(o, SEG, "epoch") and (1 in dep.consts_of(o))):
            probs.append("the epoch update is not an increment")
    (ctx.bad if probs else ctx.ok)("B-EPOCH", "B-EPOCH:Segment::receive_packet", sr.span, "; ".join(probs) if probs else
        "every incomplete outcome increments the epoch")
    # Reassembly::receive_packet hands back (timeout, buf_id, epoch) of that segment
    inc = K.aggregates(rp, "reassembly::ReceivePacketResult", "Incomplete")
    probs = []
    if len(inc) != 1:
        probs.append("expected one Incomplete construction")
    else:
        st = inc[0][1]
        ops = st[2][2]
        at = K.at_stmt(rp, inc[0][0], st)
        if not dep.has_field(dep.origins(rp, ops[2], at=at), SEG, "epoch"):
            probs.append("Incomplete does not carry the segment's current epoch")
        if not dep.has_call(dep.origins(rp, ops[1], at=at), fh.key):
            probs.append("Incomplete does not carry the packet's BufId")
        if not dep.has_field(dep.origins(rp, ops[0], at=at), SEG, "timeout_seconds"):
            probs.append("Incomplete does not carry the segment's timeout")
    (ctx.bad if probs else ctx.ok)("B-EPOCH", "B-EPOCH:Reassembly::receive_packet", rp.span, "; ".join(probs) if probs else
        "Incomplete(timeout, BufId, epoch) of the segment just updated")
    sess = prog.method("Ipv4Session", "receive")
    tasks = [prog.body(ck) for bb, ck in K.closure_creations(sess) if any(K.calls_to(prog.body(ck), mc.key))]
    probs = []
    if len(tasks) != 1:
        probs.append("expected one expiry task in Ipv4Session::receive, found %d" % len(tasks))
    else:
        tk = tasks[0]
        tg = cfg(tk)
        aps = K.await_points(tk)
        cull = K.calls_to(tk, mc.key)
        if len(aps) != 1 or "sleep" not in (K.awaited_future_type(tk, aps[0]) or "").lower():
            probs.append("the expiry task does not await exactly one sleep")
        elif not tg.dominates(aps[0]["ready_bb"], cull[0][0]):
            probs.append("maybe_cull_segment is not dominated by the completion of the sleep")
        else:
            sl = K.calls_to(tk, "tokio::time::sleep::sleep")
            if not sl or not any(a[0] == "upvar" and a[1] == "timeout" for a in dep.arg_origins(tk, sl[0][0], 0, through_calls=False)):
                probs.append("the expiry task does not sleep the returned timeout")
        for nm, i in (("buf_id", 1), ("epoch", 2)):
            o = dep.arg_origins(tk, cull[0][0], i, through_calls=False) if cull else set()
            if not any(a[0] == "upvar" and a[1] == nm for a in o):
                probs.append("maybe_cull_segment is not called with the %s of the Incomplete outcome" % nm)
        # captured values come from the Incomplete arm of this packet's result
        for bb, blk in enumerate(sess.blocks):
            for st in blk["s"]:
                if st[0] == "a" and st[2][0] == "agg" and st[2][1].get("d") == tk.key:
                    o = set()
                    for op in st[2][2]:
                        o |= dep.origins(sess, op, at=K.at_stmt(sess, bb, st))
                    if not dep.has_call(o, rp.key):
                        probs.append("the timer is not armed with the outcome of this packet's receive_packet")
    (ctx.bad if probs else ctx.ok)("B-EPOCH", "B-EPOCH:Ipv4Session::receive", sess.span, "; ".join(probs) if probs else
        "expiry task: sleep(timeout) then maybe_cull_segment(buf_id, epoch) of this packet's Incomplete outcome")

    # ---------------------------------------------------------------- B-IDEMP
    pushes = [(bb, t) for bb, t in K.calls(sr) if (F.callee_key(t) or "").endswith("::push") and dep.has_field(dep.arg_origins(sr, bb, 0), SEG, "fragments")]
    ctx.require(len(pushes) == 1, "Segment::receive_packet: expected one fragments.push, found %d" % len(pushes))
    pbb = pushes[0][0]
    guarded = False
    for s in sg.dom_chain(pbb):
        if sr.term(s)[0] == "switch":
            o = set()
            c = dep.switch_condition(sr, s)
            if c and c["kind"] == "call":
                for i in range(len(F.call_args(c["term"]))):
                    o |= dep.arg_origins(sr, c["call_bb"], i)
                if dep.has_field(o, SEG, "fragment_blocks") or dep.has_field(o, SEG, "fragments"):
                    guarded = True
    # alternative: the assembly places pieces by their offset (something other than the heap order reads Fragment.offset)
    placed = False
    fr_offset_readers = [b for b in prog.bodies.values() if b.key.startswith("elvis_core::protocols::ipv4::reassembly") and not b.derived and
                         any(("elvis_core::protocols::ipv4::reassembly::fragment::Fragment", "offset") in F.place_fields(st[2][1][1]) for blk in b.blocks for st in blk["s"]
                             if st[0] == "a" and st[2][0] == "use" and st[2][1][0] in ("cp", "mv"))]
    placed = any(b.name not in ("cmp", "eq", "partial_cmp", "new") for b in fr_offset_readers)
    ok = guarded or placed
    (ctx.ok if ok else ctx.bad)("B-IDEMP", "B-IDEMP:Segment::receive_packet", F.call_loc(pushes[0][1]),
        "a repeated fragment is %s" % ("filtered before it is stored" if guarded else "placed by its offset") if ok else
        "every arriving piece is pushed onto the heap unconditionally and the datagram is rebuilt by concatenating the heap: a fragment that arrives twice is concatenated twice (corrupted payload)")


def b_step(ctx, prog):
    """Segment::receive_packet reduced to a formula (up to the concatenation loop) and compared, path by path, with the
    bookkeeping of RFC 791's reassembly procedure: which blocks are marked, when the total length / the header are
    recorded, what the completion test looks at, and what happens when the datagram is not yet complete."""
    from .. import symx as S
    rp = prog.method("Segment", "receive_packet")
    pops = [bb for bb, t in K.calls(rp) if (F.callee_key(t) or "").endswith("::pop")]
    ctx.require(len(pops) == 1, "B-STEP: the concatenation loop of receive_packet was not found")
    try:
        # private helpers of the module (e.g. an extracted `data_octets(header)`) are part of the procedure
        helpers = [k for k, b_ in prog.bodies.items() if k.startswith("elvis_core::protocols::ipv4::reassembly::segment::") and b_.kind == "fn" and "::tests" not in k]
        ex = S.Extractor(prog, helpers, effects=True, max_nodes=80000)
        ex.stop = set(pops)
        ex._params = S.params_of(rp)
        t = ex._block(rp, 0, {i + 1: a for i, a in enumerate(S.params_of(rp))}, (), 0)
    except S.Unsupported as e:
        ctx.require(False, "B-STEP: receive_packet cannot be reduced to a formula (%s)" % e)
    SELF, H, B = S.params_of(rp)
    fld = lambda x, n: ("field", x, n)
    FO, TL, IHL = S.lin(fld(H, "fragment_offset")), S.lin(fld(H, "total_length")), fld(H, "ihl")
    IHL4 = S.lin(("bin", "Mul", IHL, ("const", 4)))

    def add(a, b, sg=1, k=0):
        co = dict(a[0])
        for t_, c_ in b[0]:
            co[t_] = co.get(t_, 0) + sg * c_
        return (tuple(sorted(((t_, c_) for t_, c_ in co.items() if c_), key=repr)), (a[1] + sg * b[1] + k) % S.M32)
    DATA = add(TL, IHL4, -1)                                     # TL - IHL*4
    ceil8 = lambda l: ((("divc", add(l, ((), 0), 1, 7), 8), 1),)   # (x + 7) / 8 as a linear form with one atom
    END = (tuple(sorted(FO[0] + ceil8(DATA), key=repr)), FO[1])
    FO8 = (tuple((a, c * 8) for a, c in FO[0]), FO[1] * 8 % S.M32)
    TDL_NEW = add(DATA, FO8)
    TDL_OLD = S.lin(fld(SELF, "total_data_length"))
    probs = []
    npaths = 0

    def paths(x, conds):
        if x[0] == "ite":
            yield from paths(x[2], conds + [(x[1], True)])
            yield from paths(x[3], conds + [(x[1], False)])
        else:
            yield conds, x
    for conds, leaf in paths(t, []):
        npaths += 1
        dup = last = fo0 = tdlnz = complete = None
        tdl_seen = comp_args = None
        for c, v in conds:
            if c[0] == "call" and c[1].rsplit("::", 1)[-1] == "any":
                dup = v
            elif c[0] == "call" and c[1].rsplit("::", 1)[-1] == "is_last_fragment" and c[2] == (fld(H, "flags"),):
                last = v
            elif c[0] == "call" and c[1].rsplit("::", 1)[-1] == "may_fragment":
                probs.append("the last-fragment test looks at DF instead of MF")
            elif c[0] == "bin" and c[1] in ("Eq", "Ne") and ("const", 0) in (c[2], c[3]) and S.lin(c[3] if c[2] == ("const", 0) else c[2]) == FO:
                fo0 = v if c[1] == "Eq" else not v
            elif c[0] == "bin" and c[1] in ("Eq", "Ne") and ("const", 0) in (c[2], c[3]):
                tdl_seen = S.lin(c[3] if c[2] == ("const", 0) else c[2])
                tdlnz = v if c[1] == "Ne" else not v
            elif c[0] == "call" and c[1].rsplit("::", 1)[-1] == "complete":
                complete = v
                comp_args = c[2]
            else:
                # RFC 791's procedure decides on MF, FO = 0, TDL != 0 and "all RCVBT bits set" only: anything else that
                # steers the step (a byte counter, a fragment count) changes when a datagram completes
                probs.append("receive_packet additionally decides on %s: RFC 791 completes a datagram exactly when TDL is known and every block up to it is marked - with another condition in the way (one that a repeated or overlapping fragment can throw off) a fully covered datagram may never be returned" % S.term_str(c)[:110])
        if leaf[0] != "state":
            probs.append("a path through receive_packet changes nothing (%s)" % S.term_str(leaf)[:60])
            continue
        st = dict(leaf[2])
        root, fs = S.with_fields(st.get(SELF, SELF))
        # (9) blocks marked
        fbk = fs.get("fragment_blocks")
        okb = fbk is not None and fbk[0] == "upd" and fbk[1].rsplit("::", 1)[-1] == "set_range" and fbk[3][0] == fld(SELF, "fragment_blocks") and \
            S.lin(fbk[3][1]) == FO and S.lin(fbk[3][2]) == END
        if not okb:
            probs.append("the received blocks are not marked as [FO, FO + (TL - IHL*4 + 7)/8): %s" % (S.term_str(fbk)[:200] if fbk else "not marked"))
        # (8) the piece is stored unless already present
        fr = fs.get("fragments")
        if dup is False:
            if not (fr is not None and fr[0] == "upd" and fr[1].rsplit("::", 1)[-1] == "push" and fr[3][0] == fld(SELF, "fragments") and fr[3][1][0] == "call"
                    and fr[3][1][2] == (B, fld(H, "fragment_offset"))):
                probs.append("a new piece is not stored as Fragment::new(body, fragment_offset)")
        elif dup is True and fr is not None:
            probs.append("a piece that is already stored is stored again")
        # (10) total data length
        tdl = fs.get("total_data_length")
        if last is True and (tdl is None or S.lin(tdl) != TDL_NEW):
            probs.append("on the last fragment the total data length is %s, RFC 791 prescribes TL - IHL*4 + FO*8" % (S.term_str(tdl) if tdl else "not recorded"))
        if last is False and tdl is not None:
            probs.append("the total data length is recorded from a fragment that is not the last one")
        cur = TDL_NEW if last else TDL_OLD
        # (11) header
        hd = fs.get("header")
        if fo0 is True and not (hd is not None and hd[0] == "agg" and hd[1].endswith("Option::Some") and hd[2] == (H,)):
            probs.append("the header of the fragment with offset 0 is not kept")
        if fo0 is False and hd is not None:
            probs.append("the header is taken from a fragment whose offset is not 0")
        # (12)/(13) completion test
        if tdl_seen is not None and tdl_seen != cur:
            probs.append("the completion test does not look at the current total data length")
        if comp_args is not None:
            want_n = (ceil8(cur), 0)
            if not (comp_args[0] == fbk and S.lin(comp_args[1]) == want_n):
                probs.append("completeness is tested as complete(%s) instead of all blocks 0..(TDL+7)/8 of the updated bitmap" % S.term_str(comp_args[1])[:120])
        done = leaf[1][0] == "stop" or (leaf[1][0] == "agg" and leaf[1][1].endswith("Option::Some"))
        if done:
            if not (tdlnz is True and complete is True):
                probs.append("a datagram is released although it is not known to be complete")
            named = dict(leaf[1][2]) if leaf[1][0] == "stop" and len(leaf[1]) > 2 else {}
            hloc = [v for n, v in named.items() if v[0] == "with"]
            okh = False
            for v in hloc:
                r2, f2 = S.with_fields(v)
                if set(f2) == {"total_length", "flags"} and f2["flags"][0] == "upd" and f2["flags"][1].rsplit("::", 1)[-1] == "set_is_last_fragment" and f2["flags"][3][1] == ("bool", True):
                    tlv = S.lin(f2["total_length"])
                    stored_ihl4 = S.lin(("bin", "Mul", ("field", r2, "ihl"), ("const", 4)))
                    okh = tlv == add(cur, stored_ihl4)
            if leaf[1][0] == "stop" and not okh:
                probs.append("the released header is not the stored header with TL = TDL + IHL*4 and MF cleared")
        else:
            if tdlnz is True and complete is True:
                probs.append("a complete datagram is not released")
            ep, to = fs.get("epoch"), fs.get("timeout_seconds")
            if not (ep is not None and ep[0] == "call" and ep[1].rsplit("::", 1)[-1] == "wrapping_add" and ep[2] == (fld(SELF, "epoch"), ("const", 1))):
                probs.append("an incomplete arrival does not advance the epoch by one")
            if not (to is not None and to[0] == "call" and to[1].rsplit("::", 1)[-1] == "max" and set(to[2]) == {fld(SELF, "timeout_seconds"), fld(H, "time_to_live")}):
                probs.append("an incomplete arrival does not raise the timer to max(timer, TTL)")
            if leaf[1] != ("variant", "core::option::Option", "None", 0) and not (leaf[1][0] in ("agg", "variant") and "None" in str(leaf[1][1:3])):
                probs.append("an incomplete arrival returns %s instead of None" % S.term_str(leaf[1])[:60])
    probs = sorted(set(probs))
    (ctx.bad if probs else ctx.ok)("B-STEP", "B-STEP:Segment::receive_packet", rp.span, "; ".join(probs[:4]) if probs else
        "RFC 791 steps (8)-(17) on all %d paths: blocks [FO, FO+(TL-IHL*4+7)/8) marked, TDL = TL-IHL*4+FO*8 on MF=0, header kept from FO=0, released iff TDL != 0 and blocks 0..(TDL+7)/8 complete with TL = TDL+IHL*4 and MF cleared, otherwise epoch+1 and timer = max(timer, TTL)" % npaths)


def b_flow(ctx, prog):
    """Reassembly::receive_packet as a formula: RFC 791 steps (1)-(7), (16), (18) - which buffer is touched and when
    it is released."""
    from .. import symx as S
    rp = prog.method("Reassembly", "receive_packet")
    try:
        ex = S.Extractor(prog, (), effects=True, max_nodes=60000)
        t = ex.run(rp, S.params_of(rp))
    except S.Unsupported as e:
        ctx.require(False, "B-FLOW: Reassembly::receive_packet cannot be reduced to a formula (%s)" % e)
    SELF, H, B = S.params_of(rp)
    SEGS = ("field", SELF, "segments")
    is_key = lambda x: x[0] == "call" and x[1].endswith("buf_id::{impl#0}::from_header") and x[2] == (H,)
    probs = []
    n = 0

    def paths(x, conds):
        if x[0] == "ite":
            yield from paths(x[2], conds + [(x[1], True)])
            yield from paths(x[3], conds + [(x[1], False)])
        elif x[0] == "switch":
            for v, y in x[2]:
                yield from paths(y, conds + [(x[1], ("eq", v))])
            if x[3][0] != "unreachable":
                yield from paths(x[3], conds + [(x[1], ("other",))])
        else:
            yield conds, x
    whole_seen = False
    for conds, leaf in paths(t, []):
        n += 1
        last = fo0 = None
        for c, v in conds:
            if c[0] == "call" and c[1].rsplit("::", 1)[-1] == "is_last_fragment":
                last = v
            elif c[0] == "bin" and c[1] in ("Eq", "Ne") and ("const", 0) in (c[2], c[3]) and S.lin(c[3] if c[2] == ("const", 0) else c[2]) == S.lin(("field", H, "fragment_offset")):
                fo0 = (v if c[1] == "Eq" else not v) if isinstance(v, bool) else None
        ret = leaf[1] if leaf[0] == "state" else leaf
        st = dict(leaf[2]) if leaf[0] == "state" else {}
        segs = None
        if SELF in st:
            _r, fs = S.with_fields(st[SELF])
            segs = fs.get("segments")
        kind = ret[1].rsplit("::", 1)[-1] if ret[0] == "agg" else "?"
        whole = last is True and fo0 is True
        if whole:
            whole_seen = True
            if not (kind == "Complete" and ret[2] == (H, B)):
                probs.append("an unfragmented datagram (FO = 0, MF = 0) is not passed on unchanged")
            if not (segs is not None and segs[0] == "upd" and segs[1].rsplit("::", 1)[-1] == "remove" and segs[3][0] == SEGS and is_key(segs[3][1])):
                probs.append("an unfragmented datagram is passed on without flushing the reassembly buffer of its BUFID (RFC 791 steps 3-4): fragments received before it still count towards a later completion and can be spliced into another datagram")
            continue
        if kind == "Complete":
            if not (segs is not None and segs[0] == "upd" and segs[1].rsplit("::", 1)[-1] == "remove" and is_key(segs[3][1])):
                probs.append("the reassembly resources are not released when a datagram completes (step 16)")
        elif kind == "Incomplete":
            if len(ret[2]) != 3 or not is_key(ret[2][1]):
                probs.append("Incomplete does not hand back the BUFID of the packet at hand")
            else:
                ep = ret[2][2]
                if not (ep[0] == "field" and ep[2] == "epoch" and ep[1][0] == "upd" and ep[1][1].rsplit("::", 1)[-1] == "receive_packet"):
                    probs.append("Incomplete does not carry the epoch of the buffer after this arrival")
                to = ret[2][0]
                if "timeout_seconds" not in S.term_str(to):
                    probs.append("Incomplete does not carry the buffer's timer")
            if segs is not None and segs[0] == "upd" and segs[1].rsplit("::", 1)[-1] == "remove":
                probs.append("the buffer of an incomplete datagram is released")
        else:
            probs.append("unexpected result %s" % S.term_str(ret)[:60])
        # the buffer used is the one keyed by this packet
        ent = [a for a in S.atoms(leaf, lambda x: x[0] == "call" and x[1].rsplit("::", 1)[-1] == "entry" and x[2] and x[2][0] == SEGS)]
        if not ent or not all(is_key(a[2][1]) for a in ent):
            probs.append("the reassembly buffer is not the one keyed by the packet's (source, destination, protocol, identification)")
    if not whole_seen:
        probs.append("no separate path for an unfragmented datagram (FO = 0, MF = 0)")
    probs = sorted(set(probs))
    (ctx.bad if probs else ctx.ok)("B-FLOW", "B-FLOW:Reassembly::receive_packet", rp.span, "; ".join(probs[:3]) if probs else
        "whole datagram: flush BUFID and pass on unchanged; fragment: buffer keyed by BUFID, released exactly on completion, Incomplete carries (timer, BUFID, epoch after this arrival) (%d paths)" % n)
