"""C11 — IPv4 reassembly rebuilds exactly the datagrams that were fragmented (DESIGN.md §4 C11)."""
from .. import facts as F
from ..cfg import cfg
from .. import dep
from . import common as K

LEVEL = "other"
EXPLANATION = (
    "Structural rules on the reassembler: (B-KEY) BufId::from_header reads exactly source, destination, protocol and "
    "identification, BufId's Eq/Hash are derived, and every access to Reassembly.segments is keyed by from_header of "
    "the packet at hand or by the key handed back in Incomplete; (B-EPOCH) maybe_cull_segment removes only on the "
    "branch where the stored epoch equals the epoch the timer was armed with, every Incomplete outcome increments the "
    "epoch, and Ipv4Session::receive arms the timer with the epoch of that very outcome after sleeping the returned "
    "timeout; (B-IDEMP) storing a piece must be idempotent under repeated fragments. Decides non-mixing and the "
    "expiry discipline for all arrival orders; byte-exact contents and 'complete exactly when covered' are not decided.")
ASSUMPTIONS = []

SEG = "reassembly::segment::Segment"


def run(ctx):
    prog = ctx.prog()
    # ---------------------------------------------------------------- B-KEY
    fh = prog.method("BufId", "from_header")
    aggs = K.aggregates(fh, "buf_id::BufId")
    probs = []
    want = {"src": "source", "dst": "destination", "protocol": "protocol", "identification": "identification"}
    if len(aggs) != 1:
        probs.append("BufId::from_header does not build exactly one BufId")
    else:
        st = aggs[0][1]
        fields = st[2][1]["fields"]
        if set(fields) != set(want):
            probs.append("BufId has fields %s, expected %s" % (sorted(fields), sorted(want)))
        for f in fields:
            o = dep.origins(fh, K.agg_field_operand(st, f), at=K.at_stmt(fh, aggs[0][0], st), through_calls=False)
            hf = {a[2] for a in o if a[0] == "field" and a[1].endswith("Ipv4Header")}
            if f in want and hf != {want[f]}:
                probs.append("BufId.%s is read from header.%s, expected header.%s" % (f, sorted(hf), want[f]))
    for tr in ("core::cmp::PartialEq", "core::hash::Hash", "core::cmp::Eq"):
        im = [i for i in prog.impls if i.get("trait") == tr and i["_types"][i["self_ty"]].get("d", "").endswith("buf_id::BufId")]
        if len(im) != 1 or not im[0]["derived"]:
            probs.append("%s for BufId is not derived (a hand-written impl may ignore a field)" % tr.rsplit("::", 1)[-1])
    (ctx.bad if probs else ctx.ok)("B-KEY", "B-KEY:BufId", fh.span, "; ".join(probs) if probs else
        "BufId = (source, destination, protocol, identification) with derived Eq/Hash")
    rp = prog.method("Reassembly", "receive_packet")
    mc = prog.method("Reassembly", "maybe_cull_segment")
    n = 0
    for b in prog.bodies.values():
        for bb, t in K.calls(b):
            ck = F.callee_key(t) or ""
            if not ck.startswith("std::collections::hash::map::") and not ck.startswith("hashbrown::"):
                continue
            m = ck.rsplit("::", 1)[-1]
            if m not in ("entry", "remove", "insert", "get", "get_mut", "contains_key", "remove_entry"):
                continue
            if len(F.call_args(t)) < 2 or not dep.has_field(dep.arg_origins(b, bb, 0, through_calls=False), "Reassembly", "segments"):
                continue
            n += 1
            ko = dep.arg_origins(b, bb, 1)
            if b.key == rp.key:
                ok = dep.has_call(ko, fh.key) and dep.has_param(ko, "header")
                why = "keyed by BufId::from_header(&header) of the packet at hand"
            elif b.key == mc.key:
                ok = dep.has_param(ko, "buf_id")
                why = "keyed by the BufId handed back in Incomplete"
            else:
                ok = False
                why = ""
            (ctx.ok if ok else ctx.bad)("B-KEY", "B-KEY:segments.%s@%s" % (m, b.key.rsplit("::", 1)[-1]), F.call_loc(t),
                why if ok else "Reassembly.segments is accessed (%s) in %s with a key that is not the packet's BufId" % (m, b.pretty))
    ctx.require(n >= 4, "B-KEY: only %d accesses of Reassembly.segments found" % n)

    # ---------------------------------------------------------------- B-EPOCH
    g = cfg(mc)
    rems = [(bb, t) for bb, t in K.calls(mc) if (F.callee_key(t) or "").rsplit("::", 1)[-1] in ("remove_entry", "remove")]
    probs = []
    if len(rems) != 1:
        probs.append("expected one removal in maybe_cull_segment, found %d" % len(rems))
    else:
        guard = None
        for s in g.dom_chain(rems[0][0]):
            if mc.term(s)[0] != "switch":
                continue
            info = K.compare_info(mc, s)
            if info and info["op"] in ("Eq", "Ne"):
                oa = dep.origins(mc, info["a"], at=K.at_term(mc, s))
                ob = dep.origins(mc, info["b"], at=K.at_term(mc, s))
                if (dep.has_field(oa, SEG, "epoch") and dep.has_param(ob, "epoch")) or (dep.has_field(ob, SEG, "epoch") and dep.has_param(oa, "epoch")):
                    rel = K.relation_on(info, info["true"])
                    eqb = info["true"] if rel and rel[0] == "Eq" else info["false"]
                    if g.dominates(eqb, rems[0][0]):
                        guard = s
        if guard is None:
            probs.append("the removal is not confined to the branch `stored epoch == armed epoch`: a datagram still receiving fragments can be discarded")
    (ctx.bad if probs else ctx.ok)("B-EPOCH", "B-EPOCH:maybe_cull_segment", mc.span, "; ".join(probs) if probs else
        "cull only when the stored epoch equals the epoch the timer was armed with")
    sr = prog.method("Segment", "receive_packet")   # reassembly segment
    sg = cfg(sr)
    nones = [bb for bb, st in K.aggregates(sr, "core::option::Option", "None") if st[1] == [0, []]]
    incs = [bb for bb, st in K.assigns_to_field(sr, SEG, ("epoch",))]
    probs = []
    if not nones:
        probs.append("no `None` (incomplete) outcome found")
    if not incs:
        probs.append("the epoch is never incremented")
    for nb in nones:
        if not any(sg.dominates(ib, nb) for ib in incs):
            probs.append("an incomplete outcome (bb%d) does not increment the epoch: an older timer can discard a datagram that just received a fragment" % nb)
    for bb, st in K.assigns_to_field(sr, SEG, ("epoch",)):
        o = set()
        for op in dep.rvalue_operands(st[2]):
            o |= dep.origins(sr, op, at=K.at_stmt(sr, bb, st))
        if not (dep.has_field(o, SEG, "epoch") and (1 in dep.consts_of(o))):
            probs.append("the epoch update is not an increment")
    (ctx.bad if probs else ctx.ok)("B-EPOCH", "B-EPOCH:Segment::receive_packet", sr.span, "; ".join(probs) if probs else
        "every incomplete outcome increments the epoch")
    # Reassembly::receive_packet hands back (timeout, buf_id, epoch) of that segment
    inc = K.aggregates(rp, "reassembly::ReceivePacketResult", "Incomplete")
    probs = []
    if len(inc) != 1:
        probs.append("expected one Incomplete construction")
    else:
        st = inc[0][1]
        ops = st[2][2]
        at = K.at_stmt(rp, inc[0][0], st)
        if not dep.has_field(dep.origins(rp, ops[2], at=at), SEG, "epoch"):
            probs.append("Incomplete does not carry the segment's current epoch")
        if not dep.has_call(dep.origins(rp, ops[1], at=at), fh.key):
            probs.append("Incomplete does not carry the packet's BufId")
        if not dep.has_field(dep.origins(rp, ops[0], at=at), SEG, "timeout_seconds"):
            probs.append("Incomplete does not carry the segment's timeout")
    (ctx.bad if probs else ctx.ok)("B-EPOCH", "B-EPOCH:Reassembly::receive_packet", rp.span, "; ".join(probs) if probs else
        "Incomplete(timeout, BufId, epoch) of the segment just updated")
    sess = prog.method("Ipv4Session", "receive")
    tasks = [prog.body(ck) for bb, ck in K.closure_creations(sess) if any(K.calls_to(prog.body(ck), mc.key))]
    probs = []
    if len(tasks) != 1:
        probs.append("expected one expiry task in Ipv4Session::receive, found %d" % len(tasks))
    else:
        tk = tasks[0]
        tg = cfg(tk)
        aps = K.await_points(tk)
        cull = K.calls_to(tk, mc.key)
        if len(aps) != 1 or "sleep" not in (K.awaited_future_type(tk, aps[0]) or "").lower():
            probs.append("the expiry task does not await exactly one sleep")
        elif not tg.dominates(aps[0]["ready_bb"], cull[0][0]):
            probs.append("maybe_cull_segment is not dominated by the completion of the sleep")
        else:
            sl = K.calls_to(tk, "tokio::time::sleep::sleep")
            if not sl or not any(a[0] == "upvar" and a[1] == "timeout" for a in dep.arg_origins(tk, sl[0][0], 0, through_calls=False)):
                probs.append("the expiry task does not sleep the returned timeout")
        for nm, i in (("buf_id", 1), ("epoch", 2)):
            o = dep.arg_origins(tk, cull[0][0], i, through_calls=False) if cull else set()
            if not any(a[0] == "upvar" and a[1] == nm for a in o):
                probs.append("maybe_cull_segment is not called with the %s of the Incomplete outcome" % nm)
        # captured values come from the Incomplete arm of this packet's result
        for bb, blk in enumerate(sess.blocks):
            for st in blk["s"]:
                if st[0] == "a" and st[2][0] == "agg" and st[2][1].get("d") == tk.key:
                    o = set()
                    for op in st[2][2]:
                        o |= dep.origins(sess, op, at=K.at_stmt(sess, bb, st))
                    if not dep.has_call(o, rp.key):
                        probs.append("the timer is not armed with the outcome of this packet's receive_packet")
    (ctx.bad if probs else ctx.ok)("B-EPOCH", "B-EPOCH:Ipv4Session::receive", sess.span, "; ".join(probs) if probs else
        "expiry task: sleep(timeout) then maybe_cull_segment(buf_id, epoch) of this packet's Incomplete outcome")

    # ---------------------------------------------------------------- B-IDEMP
    pushes = [(bb, t) for bb, t in K.calls(sr) if (F.callee_key(t) or "").endswith("::push") and dep.has_field(dep.arg_origins(sr, bb, 0), SEG, "fragments")]
    ctx.require(len(pushes) == 1, "Segment::receive_packet: expected one fragments.push, found %d" % len(pushes))
    pbb = pushes[0][0]
    guarded = False
    for s in sg.dom_chain(pbb):
        if sr.term(s)[0] == "switch":
            o = set()
            c = dep.switch_condition(sr, s)
            if c and c["kind"] == "call":
                for i in range(len(F.call_args(c["term"]))):
                    o |= dep.arg_origins(sr, c["call_bb"], i)
                if dep.has_field(o, SEG, "fragment_blocks") or dep.has_field(o, SEG, "fragments"):
                    guarded = True
    # alternative: the assembly places pieces by their offset (something other than the heap order reads Fragment.offset)
    placed = False
    fr_offset_readers = [b for b in prog.bodies.values() if b.key.startswith("elvis_core::protocols::ipv4::reassembly") and not b.derived and
                         any(("elvis_core::protocols::ipv4::reassembly::fragment::Fragment", "offset") in F.place_fields(st[2][1][1]) for blk in b.blocks for st in blk["s"]
                             if st[0] == "a" and st[2][0] == "use" and st[2][1][0] in ("cp", "mv"))]
    placed = any(b.name not in ("cmp", "eq", "partial_cmp", "new") for b in fr_offset_readers)
    ok = guarded or placed
    (ctx.ok if ok else ctx.bad)("B-IDEMP", "B-IDEMP:Segment::receive_packet", F.call_loc(pushes[0][1]),
        "a repeated fragment is %s" % ("filtered before it is stored" if guarded else "placed by its offset") if ok else
        "every arriving piece is pushed onto the heap unconditionally and the datagram is rebuilt by concatenating the heap: a fragment that arrives twice is concatenated twice (corrupted payload)")
