"""C20 — name resolution returns the registered address and caches it (DESIGN.md §4 C20)."""
from .. import facts as F
from ..cfg import cfg
from .. import dep
from . import common as K

LEVEL = "other"
EXPLANATION = (
    "Must-pass-through and data-dependence rules on the DNS client/server: in DnsClient::get_host_by_name every call "
    "from which the call graph reaches the wire (and the socket creation) is dominated by the cache-miss arm, the hit "
    "arm returns the cached value, the miss arm stores the answer before returning, and nothing ever removes a cache "
    "entry; (D-SOURCE) get_host_by_name reduced to a formula: every address it can return is get_mapping(self, name), the "
    "client's table entry of the name asked; DnsServer answers with the address looked up under the query's name and echoes the query's id and names. "
    "Decides the cache clause (no frame for a cached name) and the echo/lookup wiring for all inputs and schedules; "
    "does not decide that the right address arrives for all record sets and interleavings (runtime behaviour).")
ASSUMPTIONS = []

WRITE_METHODS = ("insert", "remove", "clear", "get_mut", "alter", "alter_all", "retain", "iter_mut", "remove_if", "entry", "try_entry")


def run(ctx):
    prog = ctx.prog()
    cg = ctx.cg()
    reach_wire = cg.can_reach([K.SEND_PCI, K.PCI_RECEIVE])
    gh = prog.coroutine_of(prog.method("DnsClient", "get_host_by_name"))
    g = cfg(gh)
    gms = K.calls_to(gh, "dns_client::{impl#0}::get_mapping")
    ctx.require(len(gms) >= 1, "get_host_by_name: no get_mapping call")
    first = [x for x in gms if all(g.dominates(x[0], y[0]) for y in gms)]
    ctx.require(len(first) == 1, "get_host_by_name: no dominating cache lookup")
    fbb, ft = first[0]
    probs = []
    ko = dep.arg_origins(gh, fbb, 1, prog=prog)
    if not any(a[0] == "upvar" and a[1] == "name" for a in ko):
        probs.append("the cache lookup key is not the requested name")
    # match on the result
    sw = None
    for s in range(len(gh.blocks)):
        if gh.is_cleanup(s) or gh.term(s)[0] != "switch":
            continue
        c = dep.switch_condition(gh, s)
        if c and c["kind"] == "discr" and c["place"] == F.call_dest(ft):
            sw = s
    if sw is None:
        ctx.bad("D-CACHE", "D-CACHE:get_host_by_name", gh.span, "the result of the cache lookup is not matched")
    else:
        hit = K.skip_false_edges(gh, dep.switch_target(gh, sw, 0))
        miss = K.skip_false_edges(gh, dep.switch_target(gh, sw, 1))
        sites = []
        for bb, t in K.calls(gh):
            tg = cg.targets_of_term(t)
            ck = F.callee_key(t) or ""
            if any(x in reach_wire for x in tg) or ck.endswith("socket_api::{impl#0}::new_socket") or "socket_api::socket::" in ck:
                sites.append((bb, t))
        for bb, ck in K.closure_creations(gh):
            if ck in reach_wire:
                sites.append((bb, None))
        if len(sites) < 3:
            probs.append("expected network-capable calls (new_socket/connect/send/recv) on the miss arm, found %d" % len(sites))
        for bb, t in sites:
            if not g.dominates(miss, bb):
                probs.append("network-capable call %s (bb%d, %s) is not confined to the cache-miss arm: a cached name can put a frame on the network" % (
                    K.short(F.callee_key(t) or "task") if t else "task creation", bb, K.loc_of_block(gh, bb)))
        # hit arm: returns the cached value, reaches return without the miss arm
        oks = K.aggregates(gh, "core::result::Result", "Ok")
        hit_oks = [(bb, st) for bb, st in oks if g.dominates(hit, bb) and st[2][1].get("a") == gh.local_ty(0).get("a")]
        if len(hit_oks) != 1:
            probs.append("the hit arm does not build exactly one Ok result")
        else:
            o = dep.origins(gh, st_operand(hit_oks[0][1]), at=K.at_stmt(gh, *hit_oks[0]), through_calls=False)
            if not any(a[0] == "call" and a[2] == fbb for a in o):
                probs.append("the hit arm does not return the value found in the cache")
        # miss arm: add_mapping before the Ok
        adds = K.calls_to(gh, "dns_client::{impl#0}::add_mapping")
        miss_oks = [(bb, st) for bb, st in oks if g.dominates(miss, bb) and st[2][1].get("a") == gh.local_ty(0).get("a")]
        if len(adds) != 1 or not g.dominates(miss, adds[0][0]):
            probs.append("the miss arm does not store the answer with add_mapping")
        else:
            for bb, st in miss_oks:
                if not g.dominates(adds[0][0], bb):
                    probs.append("the miss arm can return Ok before add_mapping stored the answer")
            ao = dep.arg_origins(gh, adds[0][0], 2, prog=prog)
            if not dep.has_call(ao, "dns_parsing::{impl#0}::from_bytes") or not dep.has_field(ao, "DnsResourceRecord", "rdata"):
                probs.append("the cached address does not originate from the decoded answer's rdata")
            no = dep.arg_origins(gh, adds[0][0], 1, prog=prog)
            if not dep.has_field(no, "DnsResourceRecord", "name"):
                probs.append("the cached name does not originate from the decoded answer's name")
        (ctx.bad if probs else ctx.ok)("D-CACHE", "D-CACHE:get_host_by_name", gh.span, "; ".join(probs) if probs else
            "%d network-capable calls, all confined to the cache-miss arm; hit arm returns the cached value; miss arm stores the answer before Ok" % len(sites))

    # cache table: only add_mapping writes, get_mapping reads under the given name
    am = prog.method("DnsClient", "add_mapping")
    gm = prog.method("DnsClient", "get_mapping")
    for owner, allowed in (("DnsClient", am.key), ("DnsServer", prog.method("DnsServer", "add_mapping").key)):
        n = 0
        for b in prog.bodies.values():
            for bb, t in K.calls(b):
                ck = F.callee_key(t) or ""
                if not ck.startswith("dashmap::") or "::mapref::" in ck:
                    continue
                m = ck.rsplit("::", 1)[-1]
                if m not in WRITE_METHODS:
                    continue
                if not dep.has_field(dep.arg_origins(b, bb, 0), owner, "name_to_ip"):
                    continue
                n += 1
                ok = b.key == allowed and m == "insert"
                if ok:
                    ko = dep.arg_origins(b, bb, 1, through_calls=False)
                    vo = dep.arg_origins(b, bb, 2, through_calls=False)
                    ok = dep.has_param(ko, "name") and dep.has_param(vo, "ip")
                why = "%s.name_to_ip is modified by DashMap::%s in %s: a resolved name may disappear from / change in the table" % (owner, m, b.pretty)
                if not ok and m == "insert" and b.name == "add_mapping":
                    kt = dep.arg_origins(b, bb, 1, through_calls=True)
                    via = sorted({a[1].rsplit("::", 1)[-1] for a in dep.arg_origins(b, bb, 1, through_calls=False) if a[0] == "call" and a[1]})
                    if dep.has_param(kt, "name") and via:
                        why = "%s.name_to_ip is keyed by %s(name), not by the name itself: distinct names share one entry, so a name can resolve to another name's address without a query" % (owner, "/".join(via))
                (ctx.ok if ok else ctx.bad)("D-TABLE", "D-TABLE:%s.name_to_ip.%s@%s" % (owner, m, b.key), F.call_loc(t),
                    "add_mapping inserts (name, ip)" if ok else why)
        ctx.require(n >= 1, "no writer of %s.name_to_ip found (anchor lost)" % owner)
    for owner, body, tbl_is_param in (("DnsClient", gm, False), ("DnsServer", prog.method("DnsServer", "get_mapping"), True)):
        gets = [(bb, t) for bb, t in K.calls(body) if (F.callee_key(t) or "").startswith("dashmap::") and (F.callee_key(t) or "").endswith("::get")]
        probs = []
        if len(gets) != 1:
            probs.append("expected one table lookup, found %d" % len(gets))
        else:
            ko = dep.arg_origins(body, gets[0][0], 1, through_calls=True)
            kd = dep.arg_origins(body, gets[0][0], 1, through_calls=False)
            if not dep.has_param(ko, "name") or dep.consts_of(ko):
                probs.append("the lookup key is not the `name` parameter")
            elif not dep.has_param(kd, "name"):
                via = sorted({a[1].rsplit("::", 1)[-1] for a in kd if a[0] == "call" and a[1]})
                probs.append("the table is looked up under %s(name), not under the name itself: distinct names share one entry" % "/".join(via))
            to = dep.arg_origins(body, gets[0][0], 0)
            if not (dep.has_param(to, "table") if tbl_is_param else dep.has_field(to, owner, "name_to_ip")):
                probs.append("the lookup is not on the name table")
            oks = K.aggregates(body, "core::result::Result", "Ok")
            if len(oks) != 1:
                probs.append("expected one Ok result")
            else:
                o = dep.origins(body, st_operand(oks[0][1]), at=K.at_stmt(body, *oks[0]))
                if not any(a[0] == "call" and a[2] == gets[0][0] for a in o) or dep.consts_of(o):
                    probs.append("the address returned is not the table entry")
        (ctx.bad if probs else ctx.ok)("D-TABLE", "D-TABLE:%s::get_mapping" % owner, body.span, "; ".join(probs) if probs else "get_mapping returns the entry stored under `name`")

    d_source(ctx, prog, gh)
    # D-NOTIME: the lookup waits for its reply; it does not give up by the clock (the property quantifies over arbitrary
    # frame delays: a correct reply that is merely late must still be returned and cached)
    clocks = [(bb, t) for bb, t in K.calls(gh) if (F.callee_key(t) or "").startswith("tokio::time::") and (F.callee_key(t) or "").rsplit("::", 1)[-1] in ("timeout", "timeout_at", "sleep", "sleep_until", "interval")]
    (ctx.bad if clocks else ctx.ok)("D-NOTIME", "D-NOTIME:get_host_by_name", F.call_loc(clocks[0][1]) if clocks else gh.span,
        "get_host_by_name bounds the wait for the reply with %s: a reply delayed beyond that (slow frames, ARP retries) makes the lookup fail and cache nothing although the server answered with the registered address" % K.short(F.callee_key(clocks[0][1])) if clocks else
        "the lookup does not give up by the clock")
    # ---------------------------------------------------------------- D-ECHO
    cr = prog.method("DnsServer", "create_response")
    probs = []
    hdr = K.calls_to(cr, "dns_parsing::{impl#1}::new", "DnsHeader::new")
    hdr = [(bb, t) for bb, t in K.calls(cr) if (F.callee(t) or {}).get("pretty", "").endswith("DnsHeader::new")]
    q = [(bb, t) for bb, t in K.calls(cr) if (F.callee(t) or {}).get("pretty", "").endswith("DnsQuestion::new")]
    an = [(bb, t) for bb, t in K.calls(cr) if (F.callee(t) or {}).get("pretty", "").endswith("DnsResourceRecord::new")]
    if len(hdr) != 1 or len(q) != 1 or len(an) != 1:
        probs.append("create_response does not build exactly one header, question and answer")
    else:
        o = dep.arg_origins(cr, hdr[0][0], 0, through_calls=False)
        if not (dep.has_field(o, "DnsHeader", "id") and dep.has_param(o, "query_msg")) or dep.has_call(o, "random") or any(a[0] in ("op", "const") for a in o):
            probs.append("the response id does not originate unmodified from the query's header.id")
        t = dep.arg_origins(cr, hdr[0][0], 1, through_calls=False)
        if not any(a[0] == "agg" and a[2] == "RESPONSE" for a in t):
            probs.append("the response header is not of type RESPONSE")
        o = dep.arg_origins(cr, q[0][0], 0, through_calls=False)
        if not (dep.has_field(o, "DnsQuestion", "qname") and dep.has_param(o, "query_msg")):
            probs.append("the response question name is not the query's qname")
        o = dep.arg_origins(cr, an[0][0], 0, through_calls=False)
        if not (dep.has_param(o, "query_msg") and (dep.has_field(o, "DnsResourceRecord", "name") or dep.has_field(o, "DnsQuestion", "qname"))):
            probs.append("the answer name does not originate from the query")
        o = dep.arg_origins(cr, an[0][0], 2, through_calls=False)
        if not dep.has_param(o, "requested_ip") or any(a[0] in ("op", "const") for a in o):
            probs.append("the answered address is not the `requested_ip` argument")
    (ctx.bad if probs else ctx.ok)("D-ECHO", "D-ECHO:create_response", cr.span, "; ".join(probs) if probs else "response id/question/answer name echo the query; rdata = requested_ip")
    rq = prog.coroutine_of(prog.method("DnsServer", "respond_to_query"))
    probs = []
    crc = K.calls_to(rq, cr.key)
    gmc = K.calls_to(rq, "dns_server::{impl#0}::get_mapping")
    if len(crc) != 1 or len(gmc) != 1:
        probs.append("respond_to_query: expected one get_mapping and one create_response")
    else:
        ao = dep.arg_origins(rq, crc[0][0], 1, through_calls=False)
        if not any(a[0] == "call" and a[2] == gmc[0][0] for a in ao):
            probs.append("the address answered does not originate from get_mapping(table, name)")
        no = dep.arg_origins(rq, gmc[0][0], 1)
        if not dep.has_call(no, "query_name") or not dep.has_call(no, "dns_parsing::{impl#0}::from_bytes"):
            probs.append("the name looked up is not the decoded query's name")
        to = dep.arg_origins(rq, gmc[0][0], 0, through_calls=False)
        if not any(a[0] == "upvar" and a[1] == "table" for a in to):
            probs.append("the lookup is not on the server's table")
        mo = dep.arg_origins(rq, crc[0][0], 0)
        if not dep.has_call(mo, "dns_parsing::{impl#0}::from_bytes"):
            probs.append("create_response is not given the decoded query")
        sends = K.calls_to(rq, "socket::{impl#0}::send")
        if len(sends) != 1 or not dep.has_call(dep.arg_origins(rq, sends[0][0], 1), cr.key):
            probs.append("the message sent is not the response built by create_response")
    (ctx.bad if probs else ctx.ok)("D-ECHO", "D-ECHO:respond_to_query", rq.span, "; ".join(probs) if probs else "answers create_response(query, get_mapping(table, query.name)) on the query's socket")
    # the server task gets a snapshot of the server's own table
    st = prog.coroutine_of(prog.method("DnsServer", "start", "Protocol"))
    tasks = [ck for bb, ck in K.closure_creations(st) if any(K.calls_to(prog.body(ck), "respond_to_query"))]
    okk = False
    if len(tasks) == 1:
        for bb, blk in enumerate(st.blocks):
            for s in blk["s"]:
                if s[0] == "a" and s[2][0] == "agg" and s[2][1].get("d") == tasks[0]:
                    o = set()
                    for op in s[2][2]:
                        o |= dep.origins(st, op, at=K.at_stmt(st, bb, s))
                    okk = dep.has_field(o, "DnsServer", "name_to_ip")
    (ctx.ok if okk else ctx.bad)("D-ECHO", "D-ECHO:DnsServer::start", st.span, "each query task is given self.name_to_ip" if okk else "query tasks are not given the server's own name table")


def d_source(ctx, prog, gh):
    """D-SOURCE: get_host_by_name reduced to a formula; every way it can return an address is a lookup of the name asked
    in the client's own table (which only ever holds answers of the server, D-TABLE).  An address manufactured any other
    way (parsed out of the name, a default, the previous answer) is not "the address registered for that name"."""
    from .. import symx as S
    try:
        ex = S.Extractor(prog, (), effects=True, max_nodes=400000)
        t = ex.run(gh, S.params_of(gh))
    except S.Unsupported as e:
        ctx.bad("D-SOURCE", "D-SOURCE:get_host_by_name", gh.span, "get_host_by_name cannot be reduced to a formula (%s)" % e)
        return
    def is_lookup(x):
        return x[0] == "call" and x[1].endswith("::get_mapping") and "dns_client" in x[1] and len(x[2]) == 2 and \
            S.atoms(x[2][0], lambda y: y[0] == "field" and y[2] == "self") and S.atoms(x[2][1], lambda y: y[0] == "field" and y[2] == "name")
    probs, n_ok = [], 0
    for conds, leaf in S.ok_paths(t, lambda x: True):
        if leaf[0] in ("unreachable", "never", "stop"):
            continue
        if leaf[0] == "agg" and leaf[1].endswith("Result::Err"):
            continue
        if leaf[0] == "call" and leaf[1].endswith("::from_residual"):
            continue
        if is_lookup(leaf):
            n_ok += 1
            continue
        if leaf[0] == "agg" and leaf[1].endswith("Result::Ok") and len(leaf[2]) == 1:
            v = leaf[2][0]
            if v[0] == "field" and v[1][0] == "downcast" and is_lookup(v[1][1]):
                n_ok += 1
                continue
            probs.append("returns Ok(%s): an address that is not looked up under the name asked in the client's table%s" % (
                S.term_str(v)[:160], " (computed from the name itself)" if S.atoms(v, lambda y: y[0] == "field" and y[2] == "name") else ""))
            continue
        probs.append("returns %s, which is neither an error nor the table entry of the name asked" % S.term_str(leaf)[:160])
    if n_ok < 2:
        probs.append("expected the cached and the freshly stored lookup to be returned, found %d lookup returns" % n_ok)
    # D-REPLY: whether a reply is taken is decided on the reply (and this lookup's own name / query), never on state of
    # the client that other lookups of the same machine change meanwhile
    is_resp = lambda x: x[0] == "await" and S.atoms(x[1], lambda y: y[0] == "call" and y[1].rsplit("::", 1)[-1] in ("recv_msg", "recv"))
    rprobs = []
    for conds, log, leaf in S.paths(t):
        for c, o in conds:
            if not S.atoms(c, is_resp):
                continue
            # a value obtained by an atomic read-modify-write (fetch_add, swap, ..) when the query was made is this
            # lookup's own; a plain read of a field of the client is whatever the latest lookup left there
            RMW = ("fetch_add", "fetch_sub", "swap", "compare_exchange", "fetch_update", "random")
            own = S.atoms(c, lambda y: y[0] == "call" and y[1].rsplit("::", 1)[-1] in RMW)
            c2 = S.subst(c, lambda y: ("opaque", "own") if y in own else None)
            shared = [y for y in S.atoms(c2, lambda y: y[0] == "field" and y[1][0] == "field" and y[1][2] == "self" and y[2] != "name_to_ip")]
            if shared:
                rprobs.append("whether the reply is taken depends on %s, client state shared by all lookups of the machine: with two lookups in flight a correct reply to the older one is refused (no address, nothing cached)" % S.term_str(shared[0])[:90])
    rprobs = sorted(set(rprobs))
    (ctx.bad if rprobs else ctx.ok)("D-REPLY", "D-REPLY:get_host_by_name", gh.span, rprobs[0] if rprobs else
        "every decision about a reply is a function of the reply itself")
    (ctx.bad if probs else ctx.ok)("D-SOURCE", "D-SOURCE:get_host_by_name", gh.span, "; ".join(sorted(set(probs))[:2]) if probs else
        "%d address-returning paths, each returns get_mapping(self, name)" % n_ok)


def st_operand(st):
    return st[2][2][0]
