"""C19 — a network description means what it says (DESIGN.md §4 C19)."""
from .. import facts as F
from ..cfg import cfg
from .. import dep
from . import common as K
from . import ndl

LEVEL = "other"
EXPLANATION = (
    "Structural rules on the NDL parser: (N-DUP) every insert into the argument map / network maps is dominated by the "
    "miss branch of contains_key on the same map and key, whose hit branch returns Err; (N-REQ) machine_parser returns "
    "Ok only on the branch where the list of still-required sections is empty and consumes a section only when it is "
    "still required (then removes it); (N-TAGS) the keywords accepted by get_type equal the strings DecType::from maps; "
    "(N-NEST) per parser level the set of accepted section types (decision table over DecType, derived from the "
    "switch/compare arms that do not return Err) equals the grammar table; (N-KEYS) the argument-key parser accepts every "
    "option name the generator reads; (N-NAME) the name -> address pass; (N-WIRE) the four application builders reduced to "
    "formulas: each slot of the Endpoint(s) and the message / count handed to the application is fed by the declared "
    "argument of that meaning (local_port -> local.port, to -> remote.address, ...). Decides the rejection sentence "
    "structurally; print/parse round-trip and the behaviour of the generated simulation are not decided.")
ASSUMPTIONS = ["nom's alt/tag_no_case accept exactly the listed keywords"]

NEST = {
    "ndl::parsing::parser::core_parser": {"Template", "Networks", "Machines"},
    "ndl::parsing::network_parser::networks_parser": {"Network"},
    "ndl::parsing::network_parser::network_parser": {"IP"},
    "ndl::parsing::machine_parser::machines_parser": {"Machine"},
    "ndl::parsing::machine_parser::machine_parser": {"Networks", "Protocols", "Applications"},
    "ndl::parsing::machine_parser::machine_networks_parser": {"Network"},
    "ndl::parsing::machine_parser::machine_protocols_parser": {"Protocol"},
    "ndl::parsing::machine_parser::machine_applications_parser": {"Application"},
}
DECTYPE = "elvis::ndl::parsing::parsing_data::DecType"


def err_blocks(body):
    return [bb for bb, st in K.aggregates(body, "core::result::Result", "Err") if st[2][1].get("a") == body.local_ty(0).get("a")] + \
           [bb for bb, st in K.aggregates(body, "core::result::Result", "Err")]


def run(ctx):
    n_keys(ctx)
    n_wire(ctx)
    n_table(ctx)
    prog = ctx.prog()

    # ---------------------------------------------------------------- N-DUP
    dup_sites = 0
    for key in ("ndl::parsing::parser_util::general_parser", "ndl::parsing::network_parser::networks_parser", "ndl::parsing::parser::core_parser"):
        b = prog.one(key)
        g = cfg(b)
        errs = set(err_blocks(b))
        for bb, t in K.calls(b):
            ck = F.callee_key(t) or ""
            if not (ck.startswith("std::collections::hash::map::") and ck.endswith("::insert")):
                continue
            dup_sites += 1
            mroot = ndl._root_local(b, F.call_args(t)[0])
            ko = dep.arg_origins(b, bb, 1)
            probs = []
            guard = None
            for s in g.dom_chain(bb) + [bb]:
                if b.term(s)[0] != "switch":
                    continue
                c = dep.switch_condition(b, s)
                if c and c["kind"] == "call" and (F.callee_key(c["term"]) or "").endswith("::contains_key"):
                    cm = ndl._root_local(b, F.call_args(c["term"])[0])
                    cko = dep.arg_origins(b, c["call_bb"], 1)
                    tr, fl = dep.bool_branches(b, s)
                    same_key = _same_key(b, F.call_args(c["term"])[1], c["call_bb"], F.call_args(t)[1], bb)
                    if cm == mroot and same_key and g.dominates(fl, bb):
                        guard = (s, tr, fl)
            if guard is None:
                probs.append("insert is not dominated by the miss branch of contains_key on the same map and key: a duplicate silently replaces the earlier entry")
            else:
                s, tr, fl = guard
                if not g.all_paths_through(tr, g.returns, errs) or g.reaches(tr, bb):
                    probs.append("the duplicate branch does not return an error")
            mname = b.local_name(mroot) if mroot is not None else None
            (ctx.bad if probs else ctx.ok)("N-DUP", "N-DUP:%s:%s" % (key.rsplit("::", 1)[-1], mname or "map"), F.call_loc(t), "; ".join(probs) if probs else
                "insert guarded by !contains_key(same key); duplicate => Err")
    ctx.floor("N-DUP", 3)

    # ---------------------------------------------------------------- N-REQ
    mp = prog.one("ndl::parsing::machine_parser::machine_parser")
    g = cfg(mp)
    probs = []
    req = None
    # the list of still-required sections: the one user-named Vec<DecType> local (whatever it is called)
    rc_ = [l for l, (tix, name, _u) in enumerate(mp.locals) if name and l > mp.argc and mp.local_tystr(l).startswith("alloc::vec::Vec<") and "DecType" in mp.local_tystr(l)]
    if len(rc_) == 1:
        req = rc_[0]
    if req is None:
        probs.append("local `req` (required sections) not found")
    else:
        def on_req(t, i=0):
            return ndl._root_local(mp, F.call_args(t)[i]) == req
        empt = [(bb, t) for bb, t in K.calls(mp) if (F.callee_key(t) or "").endswith("::is_empty") and on_req(t) and "Vec" in mp.tystr((F.callee(t).get("ra") or F.callee(t)["a"])[0]) or ((F.callee_key(t) or "").endswith("vec::{impl#1}::is_empty") and on_req(t))]
        empt = [(bb, t) for bb, t in K.calls(mp) if (F.callee_key(t) or "").endswith("::is_empty") and on_req(t)]
        cont = [(bb, t) for bb, t in K.calls(mp) if (F.callee_key(t) or "").endswith("::contains") and on_req(t)]
        rem = [(bb, t) for bb, t in K.calls(mp) if (F.callee_key(t) or "").endswith("::remove") and on_req(t)]
        oks = [bb for bb, st in K.aggregates(mp, "core::result::Result", "Ok") if st[2][1].get("a") == mp.local_ty(0).get("a")]
        if len(empt) != 1 or len(cont) != 1 or len(rem) != 1 or len(oks) != 1:
            probs.append("expected one req.is_empty(), req.contains(), req.remove() and one Ok result (found %d, %d, %d, %d)" % (len(empt), len(cont), len(rem), len(oks)))
        else:
            sw = F.call_target(empt[0][1])
            tr, fl = dep.bool_branches(mp, sw)
            if not g.dominates(tr, oks[0]) or g.reaches(fl, oks[0]):
                probs.append("machine_parser can return Ok while required sections are missing")
            if not g.all_paths_through(fl, g.returns, err_blocks(mp)):
                probs.append("missing sections do not lead to Err")
            csw = F.call_target(cont[0][1])
            ctr, cfl = dep.bool_branches(mp, csw)
            if not g.dominates(ctr, rem[0][0]):
                probs.append("req.remove is not confined to the branch where the section is still required")
            subs = [(bb, t) for bb, t in K.calls(mp) if (F.callee_key(t) or "").split("::")[-1] in ("machine_networks_parser", "machine_protocols_parser", "machine_applications_parser")]
            if len(subs) != 3:
                probs.append("expected the three sub-section parsers to be called once each")
            for bb, t in subs:
                if not g.dominates(ctr, bb) or not g.dominates(rem[0][0], bb):
                    probs.append("%s can run for a section that is not (or no longer) required" % (F.callee_key(t) or "").rsplit("::", 1)[-1])
            if not g.all_paths_through(cfl, g.returns, err_blocks(mp)) or any(g.reaches(cfl, bb) for bb, _ in subs):
                probs.append("a repeated or unknown section is not rejected")
            ko = dep.arg_origins(mp, cont[0][0], 1)
            if not dep.has_call(ko, "general_parser"):
                probs.append("the section type tested against `req` is not the one just parsed")
            # initial contents
            init = [st for bb, st in K.aggregates(mp, DECTYPE)]
            have = {st[2][1]["v"] for st in init}
            if not {"Networks", "Protocols", "Applications"} <= have:
                probs.append("`req` is not initialised with Networks, Protocols, Applications")
    (ctx.bad if probs else ctx.ok)("N-REQ", "N-REQ:machine_parser", mp.span, "; ".join(probs) if probs else
        "Ok only when req.is_empty(); a section is parsed only while still in req (then removed); otherwise Err")

    # ---------------------------------------------------------------- N-NAME
    # generator: the name -> address map that `to='<name>'` is resolved with. The key under which a machine's
    # application address is registered must be that machine's own name: every definition of the key variable lies
    # inside the loop over the machines (a value set before the loop is carried over from the previous machine)
    mg = prog.one("ndl::generating::machine_generator::machine_generator")
    mgc = cfg(mg)
    maps = [l for l, (tix, name, _u) in enumerate(mg.locals) if name and mg.local_tystr(l).startswith("std::collections::hash::map::HashMap<alloc::string::String, elvis_core::protocols::ipv4::ipv4_address::Ipv4Address")]
    ctx.require(len(maps) == 1, "N-NAME: the name -> address map of machine_generator not found (%d candidates)" % len(maps))
    ins = [(bb, t) for bb, t in K.calls(mg) if (F.callee_key(t) or "").startswith("std::collections::hash::map::") and (F.callee_key(t) or "").endswith("::insert") and ndl._root_local(mg, F.call_args(t)[0]) == maps[0]]
    ctx.require(len(ins) >= 1, "N-NAME: no insert into the name -> address map found")
    for bb, t in ins:
        probs = []
        ko = dep.arg_origins(mg, bb, 1, through_calls=False)
        keys = set()
        for a in ko:
            if a[0] == "call" and a[1] and a[1].endswith("::clone") and isinstance(a[2], int):
                r = ndl._root_local(mg, F.call_args(mg.term(a[2]))[0])
                if r is not None:
                    keys.add(r)
            if a[0] == "local":
                keys.add(a[1])
        keys = {k_ for k_ in keys if mg.local_tystr(k_).startswith("alloc::string::String") and mg.local_name(k_)}
        if len(keys) != 1:
            ctx.require(False, "N-NAME: the key of name_to_ip.insert is not one String variable (%s)" % sorted(keys))
        kl = keys.pop()
        if not mgc.in_loop(bb):
            probs.append("the registration is not inside the loop over the machines")
        defs = []
        for b2, blk in enumerate(mg.blocks):
            if blk["c"]:
                continue
            for st in blk["s"]:
                if st[0] == "a" and st[1] == [kl, []]:
                    defs.append((b2, st[3]))
            tt = blk["t"]
            if tt[0] == "call" and F.call_dest(tt) == [kl, []]:
                defs.append((b2, F.call_loc(tt)))
        outside = [loc for b2, loc in defs if not mgc.in_loop(b2)]
        if outside:
            probs.append("the name a machine's address is registered under (`%s`) is initialised once before the loop over the machines (%s): a machine without a name inherits the previous machine's name and replaces its address, so `to='<that name>'` reaches the wrong machine" % (mg.local_name(kl), outside[0]))
        (ctx.bad if probs else ctx.ok)("N-NAME", "N-NAME:name_to_ip.insert", F.call_loc(t), "; ".join(probs) if probs else
            "the key is (re)initialised for every machine inside the loop (%d definitions, all in the loop)" % len(defs))

    # ---------------------------------------------------------------- N-TAGS
    gt = prog.one("ndl::parsing::parser_util::get_type")
    tags = set()
    for bb, t in K.calls(gt):
        if "tag_no_case" in (F.callee_key(t) or ""):
            for a in F.call_args(t):
                c = F.op_const(a)
                if isinstance(c, dict) and "str" in c:
                    tags.add(c["str"].lower())
    df = prog.method("DecType", "from", "From")
    mapped = set()
    for blk in df.blocks:
        for st in blk["s"]:
            if st[0] == "a":
                for o in dep.rvalue_operands(st[2]):
                    c = F.op_const(o)
                    if isinstance(c, dict) and "str" in c and c["str"].islower() and " " not in c["str"]:
                        mapped.add(c["str"])
        t = blk["t"]
        if t[0] == "call":
            for a in F.call_args(t):
                c = F.op_const(a)
                if isinstance(c, dict) and "str" in c and " " not in c["str"]:
                    mapped.add(c["str"].lower())
    ctx.require(len(tags) >= 10 and len(mapped) >= 10, "N-TAGS: keyword tables not found (tags=%s mapped=%s)" % (sorted(tags), sorted(mapped)))
    panics = [bb for bb, t in K.calls(df) if any(x in (F.callee_key(t) or "") for x in ("panicking::panic", "unimplemented", "unreachable"))]
    for kw in sorted(tags | mapped):
        if kw in tags and kw in mapped:
            ctx.ok("N-TAGS", "N-TAGS:%s" % kw, gt.span, "keyword accepted by get_type and mapped by DecType::from")
        elif kw in tags:
            ctx.bad("N-TAGS", "N-TAGS:%s" % kw, gt.span, "get_type accepts the keyword %r but DecType::from has no mapping for it (falls into its panicking default arm)" % kw)
        else:
            ctx.ok("N-TAGS", "N-TAGS:%s(unreachable mapping)" % kw, df.span, "DecType::from maps %r which get_type never produces (harmless)" % kw)
    ctx.floor("N-TAGS", 10)

    # ---------------------------------------------------------------- N-NEST
    variants = [v["name"] for v in prog.adt("parsing_data::DecType")["variants"]]
    for key, want in NEST.items():
        b = prog.one(key)
        acc = accepted_types(prog, b, variants)
        loc = b.span
        if acc is None:
            ctx.bad("N-NEST", "N-NEST:%s" % key.rsplit("::", 1)[-1], loc, "no dispatch on the parsed section type found")
            continue
        ok = acc == want
        (ctx.ok if ok else ctx.bad)("N-NEST", "N-NEST:%s" % key.rsplit("::", 1)[-1], loc,
            "accepts exactly %s" % sorted(acc) if ok else "accepts %s, grammar allows %s here" % (sorted(acc), sorted(want)))
    ctx.floor("N-NEST", 8)


def accepted_types(prog, b, variants):
    """Set of DecType variants for which the parser does not go straight to an Err return."""
    g = cfg(b)
    errs = set(err_blocks(b))
    acc = None
    for s in range(len(b.blocks)):
        if b.is_cleanup(s) or b.term(s)[0] != "switch":
            continue
        c = dep.switch_condition(b, s)
        if c and c["kind"] == "discr":
            ty = _place_type(b, c["place"])
            if not ty.endswith("parsing_data::DecType"):
                continue
            o = dep.origins(b, c["place"], at=K.at_term(b, s))
            if not dep.has_call(o, "general_parser"):
                continue
            cur = set()
            for i, v in enumerate(variants):
                tg = K.skip_false_edges(b, dep.switch_target(b, s, i))
                if not g.all_paths_through(tg, g.returns, errs):
                    cur.add(v)
            acc = cur if acc is None else (acc & cur)
        info = K.compare_info(b, s)
        if info and info["op"] in ("Eq", "Ne") and "method" in info:
            at = K.at_term(b, s)
            oa = dep.origins(b, info["a"], at=at)
            ob = dep.origins(b, info["b"], at=at)
            consts = {a[2] for a in oa | ob if a[0] == "agg" and a[1].endswith("parsing_data::DecType")}
            if len(consts) == 1 and dep.has_call(oa | ob, "general_parser"):
                rel = K.relation_on(info, info["true"])
                eqb = info["true"] if rel and rel[0] == "Eq" else info["false"]
                neb = info["false"] if eqb == info["true"] else info["true"]
                cur = set()
                if not g.all_paths_through(eqb, g.returns, errs):
                    cur |= consts
                if not g.all_paths_through(neb, g.returns, errs):
                    cur |= set(variants) - consts
                acc = cur if acc is None else (acc & cur)
    return acc


def _place_type(body, pl):
    for e in reversed(pl[1]):
        if isinstance(e, list) and e[0] == "f":
            return body.tystr(e[4])
    return body.local_tystr(pl[0])


def _same_key(b, op1, bb1, op2, bb2):
    """Do the two key operands denote the same variable (contains_key(k) ... insert(k.to_string(), ..))?"""
    def root(op, bb):
        o = dep.origins(b, op, at=K.at_term(b, bb))
        return frozenset(a for a in o if a[0] in ("field", "param", "local") or (a[0] == "call" and a[1] and ("::get" in a[1] or "::next" in a[1])))
    r1, r2 = root(op1, bb1), root(op2, bb2)
    return bool(r1 & r2) and (r1 <= r2 or r2 <= r1 or bool(r1 & r2))


def _keydesc(o):
    calls = sorted({a[1].rsplit("::", 1)[-1] for a in o if a[0] == "call" and a[1]})
    return "+".join(calls[:3]) or "key"



def n_keys(ctx):
    """The grammar of argument keys must accept every key the generator looks up: the key parser of `arguments`
    (a nom combinator expression, read off the MIR as a term) is matched against each option name that
    ndl::generating reads (HashMap::get / contains_key arguments and the strings option names are compared with)."""
    from .. import symx as S
    prog = ctx.prog()
    ab = prog.one("ndl::parsing::parser_util::arguments")
    try:
        t, _ = S.extract(prog, ab)
    except S.Unsupported as e:
        ctx.require(False, "N-KEYS: cannot read the combinator expression of `arguments` (%s)" % e)
    pairs = S.atoms(t, lambda x: x[0] == "call" and x[1].rsplit("::", 1)[-1] == "separated_pair" and len(x[2]) == 3)
    ctx.require(len(pairs) == 1, "N-KEYS: key=value combinator (separated_pair) not found in `arguments`")
    keyp = pairs[0][2][0]
    # preceded(skip, key) / terminated(key, skip) wrappers around the key parser proper
    while keyp[0] == "call" and keyp[1].rsplit("::", 1)[-1] in ("preceded", "terminated", "context") and len(keyp[2]) == 2:
        nm = keyp[1].rsplit("::", 1)[-1]
        keyp = keyp[2][1] if nm in ("preceded", "context") else keyp[2][0]
    keys = set()
    for b in prog.bodies.values():
        if not b.key.startswith("elvis::ndl::generating"):
            continue
        for bb, tm in K.calls(b):
            ck = F.callee_key(tm) or ""
            nm = ck.rsplit("::", 1)[-1]
            args = F.call_args(tm)
            if ck.startswith("std::collections::hash::map::") and nm in ("get", "contains_key", "remove") and len(args) == 2:
                for a in dep.arg_origins(b, bb, 1, through_calls=False):
                    if a[0] == "const" and isinstance(a[1], str):
                        keys.add(a[1])
                c = F.op_const(args[1])
                if isinstance(c, dict) and "str" in c:
                    keys.add(c["str"])
                else:
                    r = dep.single_def_rvalue(b, F.op_place(args[1])[0]) if F.op_place(args[1]) is not None else None
                    if r is not None and r[1][0] == "use":
                        c2 = F.op_const(r[1][1])
                        if isinstance(c2, dict) and "str" in c2:
                            keys.add(c2["str"])
            if ck.endswith("str::traits::{impl#1}::eq") and b.key.endswith("machine_generator::machine_generator"):
                for a in args:
                    c = F.op_const(a)
                    if isinstance(c, dict) and "str" in c:
                        keys.add(c["str"])
    keys = {k for k in keys if k and " " not in k and len(k) < 40}
    ctx.require(len(keys) >= 10 and "auto-protocol" in keys and "name" in keys, "N-KEYS: option names read by the generator not found (%s)" % sorted(keys)[:8])

    def char_ok(fn_key, ch):
        fb = prog.bodies.get(fn_key)
        if fb is None:
            return None
        try:
            ft, _ = S.extract(prog, fb)
        except S.Unsupported:
            return None
        prm = S.params_of(fb)[0]

        def ev(x):
            if x == prm:
                return ch
            k = x[0]
            if k == "bool":
                return x[1]
            if k == "const":
                return x[1]
            if k == "cast":
                v = ev(x[1])
                return ord(v) if isinstance(v, str) else v
            if k == "ite":
                return ev(x[2]) if ev(x[1]) else ev(x[3])
            if k == "not":
                return not ev(x[1])
            if k == "bin" and x[1] in ("Eq", "Ne", "Lt", "Le", "Gt", "Ge", "BitOr", "BitAnd"):
                a, b_ = ev(x[2]), ev(x[3])
                a = ord(a) if isinstance(a, str) else a
                b_ = ord(b_) if isinstance(b_, str) else b_
                return {"Eq": a == b_, "Ne": a != b_, "Lt": a < b_, "Le": a <= b_, "Gt": a > b_, "Ge": a >= b_, "BitOr": a | b_, "BitAnd": a & b_}[x[1]]
            if k == "call":
                nm = x[1].rsplit("::", 1)[-1]
                a = [ev(y) for y in x[2]]
                c0 = a[0] if a else None
                c0 = chr(c0) if isinstance(c0, int) and nm.startswith("is_") and 0 <= c0 < 0x110000 else c0
                table = {"is_alphanumeric": lambda c: c.isalnum(), "is_alphabetic": lambda c: c.isalpha(), "is_ascii_alphanumeric": lambda c: c.isascii() and c.isalnum(),
                         "is_ascii_alphabetic": lambda c: c.isascii() and c.isalpha(), "is_numeric": lambda c: c.isnumeric(), "is_ascii_digit": lambda c: c in "0123456789",
                         "is_whitespace": lambda c: c.isspace(), "is_ascii_punctuation": lambda c: c.isascii() and not c.isalnum() and not c.isspace() and c.isprintable(),
                         "is_space": lambda c: c in " \t", "is_newline": lambda c: c == "\n", "is_ascii": lambda c: c.isascii(),
                         "is_alphanumeric_u8": lambda c: c.isalnum()}
                if nm in table and isinstance(c0, str):
                    return table[nm](c0)
            raise KeyError(x)
        try:
            return bool(ev(ft))
        except (KeyError, TypeError):
            return None
    probs = []
    nm = keyp[1].rsplit("::", 1)[-1] if keyp[0] == "call" else "?"
    verdict = "accepts"
    for kx in sorted(keys):
        if nm in ("take_until", "take_until1") and keyp[2] and keyp[2][0][0] == "str":
            if keyp[2][0][1] in kx:
                probs.append("option name %r contains the terminator %r" % (kx, keyp[2][0][1]))
        elif nm in ("take_while1", "take_while", "take_till", "take_till1") and keyp[2] and keyp[2][0][0] == "fn":
            for ch in kx:
                r = char_ok(keyp[2][0][1], ch)
                if r is None:
                    ctx.require(False, "N-KEYS: the key character class %s cannot be evaluated: no verdict" % keyp[2][0][1])
                acc = r if nm.startswith("take_while") else not r
                if not acc:
                    probs.append("the key grammar stops at %r, so the option %r that the generator reads (e.g. on [Machine]) can no longer be written: every description using it is rejected" % (ch, kx))
                    break
        elif nm in ("alphanumeric1", "alpha1"):
            if not (kx.isalnum() if nm == "alphanumeric1" else kx.isalpha()):
                probs.append("the key grammar (%s) cannot express the option %r that the generator reads" % (nm, kx))
        else:
            ctx.require(False, "N-KEYS: unrecognised key parser %s: no verdict" % S.term_str(keyp)[:80])
    (ctx.bad if probs else ctx.ok)("N-KEYS", "N-KEYS:arguments", ab.span, "; ".join(probs[:2]) if probs else
        "the key parser %s accepts all %d option names the generator reads (%s, ...)" % (S.term_str(keyp)[:50], len(keys), ", ".join(sorted(keys)[:5])))


# ---------------------------------------------------------------------------------------------------- N-WIRE
# Which declared argument fills which slot of the application that a builder returns.  The table is the meaning of the
# argument names themselves (local_port is the port of the local end, ...); confirmed by reading the four builders.
WIRE = {
    "send_message_builder": ("Endpoint", {"address": {"to"}, "port": {"port"}}),
    "capture_builder": ("Endpoint", {"address": {"ip"}, "port": {"port"}}),
    "forward_message_builder": ("Endpoints", {"local.address": {"ip"}, "local.port": {"local_port"}, "remote.address": {"to"}, "remote.port": {"remote_port"}}),
    "ping_pong_builder": ("Endpoints", {"local.address": {"ip"}, "local.port": {"local_port"}, "remote.address": {"to"}, "remote.port": {"remote_port"}}),
}
ARGS = {
    "send_message_builder": {("send_message", "new", 0): ({"message"}, True)},
    "capture_builder": {("capture", "new", 1): ({"message_count"}, False), ("capture", "new_msg", 1): ({"message"}, True),
                        ("capture", "build", 2): ({"message_count"}, False), ("capture", "build_msg", 2): ({"message"}, True)},
}
UTIL = "elvis_core::protocols::utility::"


def _option_keys(t):
    """The argument names whose values flow into term t: string keys of HashMap::get(app.options, "<key>")."""
    from .. import symx as S
    out = set()
    for c in S.atoms(t, lambda x: x[0] == "call" and x[1].endswith("::get") and len(x[2]) == 2 and x[2][1][0] == "str"
                     and x[2][0][0] == "field" and x[2][0][2] == "options"):
        out.add(c[2][1][1])
    return out


def n_wire(ctx):
    from .. import symx as S
    prog = ctx.prog()
    inline = tuple(b.key for b in prog.bodies.values() if b.kind == "method" and b.self_ty is not None
                   and prog_adt_name(b) in (UTIL + "Endpoint", UTIL + "Endpoints") and not b.derived and b.name in ("new", "reverse"))
    for fn, (adt, slots) in sorted(WIRE.items()):
        cands = [b for b in prog.bodies.values() if b.key.endswith("application_generator::" + fn)]
        ctx.require(len(cands) == 1, "builder %s not found" % fn)
        b = cands[0]
        try:
            ex = S.Extractor(prog, inline, effects=True, max_nodes=400000)
            t = ex.run(b, S.params_of(b))
        except S.Unsupported as e:
            ctx.bad("N-WIRE", "N-WIRE:%s" % fn, b.span, "the builder cannot be reduced to a formula (%s)" % e)
            continue
        aggs = set()
        for _c, leaf in S.ok_paths(t, lambda x: x[0] not in ("stop", "never", "unreachable")):
            for a in S.atoms(leaf, lambda x: x[0] == "agg" and x[1] == UTIL + adt + "::" + adt):
                aggs.add(a)
        probs = []
        if not aggs:
            probs.append("no %s value reaches the application returned" % adt)
        for a in sorted(aggs, key=repr):
            for slot, want in sorted(slots.items()):
                v = a
                for part in slot.split("."):
                    ak = v[1].rsplit("::", 1)[0] if v[0] == "agg" else None
                    names = [f["name"] for f in prog.adts[ak]["variants"][0]["fields"]] if ak in prog.adts else []
                    if part not in names:
                        v = None
                        break
                    v = v[2][names.index(part)]
                if v is None:
                    probs.append("%s.%s is not built field by field" % (adt, slot))
                    continue
                got = _option_keys(v)
                if got != want:
                    probs.append("%s.%s is filled from the argument%s %s, the description says %s" % (
                        adt, slot, "" if len(got) == 1 else "s", ", ".join("'%s'" % g for g in sorted(got)) or "(none)", ", ".join("'%s'" % g for g in sorted(want))))
        # the other declared arguments: (module of the constructor, constructor, argument position) -> argument name;
        # exact=False where the builder has a default when the argument is absent
        seen = 0
        for (mod, ctor, ix), (want, exact) in sorted(ARGS.get(fn, {}).items()):
            for _c, leaf in S.ok_paths(t, lambda x: x[0] not in ("stop", "never", "unreachable")):
                for c in S.atoms(leaf, lambda x: x[0] == "call" and ("::%s::" % mod) in x[1] and x[1].endswith("::" + ctor) and len(x[2]) > ix):
                    got = _option_keys(c[2][ix])
                    seen += 1
                    if (got != want) if exact else (not got <= want):
                        probs.append("argument %d of %s::%s is filled from %s, the description says %s" % (
                            ix, mod, ctor, ", ".join("'%s'" % g for g in sorted(got)) or "(none)", ", ".join("'%s'" % g for g in sorted(want))))
        ctx.require(seen >= len(ARGS.get(fn, {})), "N-WIRE: constructor calls of %s not found (%d)" % (fn, seen))
        probs = sorted(set(probs))
        (ctx.bad if probs else ctx.ok)("N-WIRE", "N-WIRE:%s" % fn, b.span, "; ".join(probs[:3]) if probs else
            "%d %s value(s): %s" % (len(aggs), adt, ", ".join("%s<-'%s'" % (k, "".join(v)) for k, v in sorted(slots.items()))))
    ctx.floor("N-WIRE", 4)


def prog_adt_name(b):
    st = b.types[b.self_ty]
    return st.get("d") if st.get("k") == "adt" else None


def n_table(ctx):
    """N-TABLE: the address table a machine's IPv4 is built from is complete when it is copied.  In machine_generator the
    per-machine IpTable is filled by the application builders (&mut ip_table) and handed to Ipv4::new by value
    (ip_table.clone()); a copy taken on a path that still leads to one of those fillings - without starting a new
    machine's table in between - lacks the machine's own addresses, and its sender cannot open a session."""
    prog = ctx.prog()
    cands = [b for b in prog.bodies.values() if b.key.endswith("machine_generator::machine_generator")]
    ctx.require(len(cands) == 1, "N-TABLE: machine_generator not found")
    b = cands[0]
    g = cfg(b)
    tabs = [l for l in range(b.argc + 1, len(b.locals)) if b.local_tystr(l).startswith("elvis_core::ip_table::IpTable<") and b.local_name(l)]
    ctx.require(len(tabs) == 1, "N-TABLE: expected one per-machine IpTable local in machine_generator, found %d" % len(tabs))
    tab = tabs[0]
    inits = [bb for bb, t in K.calls(b) if F.call_dest(t) == [tab, []]]
    copies, fills = [], []
    for bb, blk in enumerate(b.blocks):
        if blk["c"]:
            continue
        for st in blk["s"]:
            if st[0] == "a" and st[2][0] == "ref" and st[2][2][0] == tab and not [e for e in st[2][2][1] if e != "*"]:
                if st[2][1] != "shared":
                    fills.append(bb)           # &mut ip_table: handed to a builder that adds the machine's addresses
                elif blk["t"][0] == "call" and (F.callee_key(blk["t"]) or "").rsplit("::", 1)[-1] == "clone":
                    copies.append(bb)          # ip_table.clone(): the table some protocol is built from
    ctx.require(len(inits) >= 1 and len(copies) >= 1 and len(fills) >= 3, "N-TABLE: table init/copy/fill sites not found (%d, %d, %d)" % (len(inits), len(copies), len(fills)))
    probs = []
    for c in copies:
        late = [f for f in fills if g.reaches(c, f, removed=inits)]
        if late:
            probs.append("the table copied for Ipv4 at %s can still be filled afterwards (%s): that machine's IPv4 starts without the addresses its applications claim" % (
                K.loc_of_block(b, c), K.loc_of_block(b, late[0])))
    (ctx.bad if probs else ctx.ok)("N-TABLE", "N-TABLE:machine_generator", b.span, "; ".join(probs[:2]) if probs else
        "%d copies of the per-machine table, each taken after all %d fillings of that machine" % (len(copies), len(fills)))
