"""C09 — route lookup is longest-prefix match over consistent subnet arithmetic (DESIGN.md §4 C09)."""
from .. import facts as F
from ..cfg import cfg
from .. import dep
from . import common as K

LEVEL = "other"
EXPLANATION = (
    "Rules on IpTable/Obm/Ipv4Net, most of them decided on formulas extracted from MIR and a finite abstraction of "
    "their inputs: (R-ORDER) Ord for the table key, evaluated for all 33x33 pairs of mask lengths and the three "
    "relations of the ids, orders by mask length descending and then by network id; (R-FIRST) get_recipient walks the "
    "map forward and returns the value of the first network that contains the address, add() is BTreeMap::insert "
    "(replace) keyed by the network; (R-CTOR) Ipv4Mask values are built only in from_bitcount and Ipv4Net values only "
    "in new()/new_1(), with private fields; (R-MASK) from_bitcount(n) is the top-min(n,32)-bits mask for every n; "
    "(R-BITS) contains / broadcast / new are, bit position by bit position, (addr & mask) == id, id | !mask and "
    "ip & mask on every feasible combination of bits, which with contiguous masks means a network contains exactly "
    "id..=broadcast; (R-OVERLAP) overlaps equals 'the ranges intersect' on all orderings of the four bounds; (R-RANGE) "
    "a range converts to a network only when the network's range equals it; (R-ENDIAN) address <-> u32 conversions are "
    "big-endian both ways, so the derived byte-wise order is the numeric one. Together: lookup is longest-prefix match "
    "over self-consistent subnet arithmetic. (R-CIDR) cidr_to_ip is (address parsed from the text before the first '/', from_bitcount of the number after it) and from_cidr is Ipv4Net::new of that pair. Not decided: the std parsers themselves, and the completeness half of the range "
    "conversion (every aligned power-of-two block converts).")
ASSUMPTIONS = ["the derived Ord of Ipv4Mask/Ipv4Address is the numeric order of the wrapped u32 / bytes", "BTreeMap iterates in key order"]


def run(ctx):
    from . import netarith
    netarith.run(ctx)
    prog = ctx.prog()
    oc = prog.method("Obm", "cmp", "Ord")
    g = cfg(oc)
    # ---------------------------------------------------------------- R-ORDER (semantic: netarith.check_obm_order)
    netarith.check_obm_order(ctx, "R-ORDER")
    netarith.check_cidr(ctx, "R-CIDR")
    pc = prog.method("Obm", "partial_cmp", "PartialOrd")
    okk = len(K.calls_to(pc, oc.key)) == 1
    (ctx.ok if okk else ctx.bad)("R-ORDER", "R-ORDER:Obm::partial_cmp", pc.span, "partial_cmp delegates to cmp" if okk else "PartialOrd for Obm does not delegate to Ord::cmp")

    # ---------------------------------------------------------------- R-FIRST
    gr = prog.method("IpTable", "get_recipient")
    gg = cfg(gr)
    probs = []
    its = K.calls_to(gr, "ip_table::{impl#0}::iter")
    cont = K.calls_to(gr, "subnetting::{impl#7}::contains")
    revs = [(bb, t) for bb, t in K.calls(gr) if (F.callee_key(t) or "").rsplit("::", 1)[-1] in ("rev", "next_back", "rfind", "last", "max", "max_by_key", "min")]
    somes = [bb for bb, st in K.aggregates(gr, "core::option::Option", "Some") if st[1] == [0, []]]
    if len(its) != 1 or len(cont) != 1 or len(somes) != 1:
        probs.append("unexpected shape (iter=%d, contains=%d, Some=%d)" % (len(its), len(cont), len(somes)))
    else:
        if revs:
            probs.append("the table is not walked forward (%s)" % (F.callee_key(revs[0][1]) or "").rsplit("::", 1)[-1])
        nexts = [(bb, t) for bb, t in K.calls(gr) if (F.callee(t) or {}).get("fn", "").endswith("Iterator::next")]
        if len(nexts) != 1 or not gg.in_loop(cont[0][0]):
            probs.append("no forward loop over the entries")
        sw = F.call_target(cont[0][1])
        tr, fa = dep.bool_branches(gr, sw)
        if not gg.dominates(tr, somes[0]):
            probs.append("a value is returned for a network that does not contain the address")
        if gg.reaches(tr, cont[0][0]):
            probs.append("the walk continues after the first containing network (a later, shorter prefix can win)")
        ao = dep.arg_origins(gr, cont[0][0], 1, through_calls=False)
        if not dep.has_param(ao, "address"):
            probs.append("contains() is not asked about the looked-up address")
        so = dep.origins(gr, [0, []], at=K.at_term(gr, somes[0] if gr.term(somes[0])[0] != "goto" else somes[0]), through_calls=True)
        no = dep.arg_origins(gr, cont[0][0], 0)
        if not any(a[0] == "call" and a[2] == nexts[0][0] for a in no) if nexts else True:
            probs.append("contains() is not evaluated on the entry being visited")
    (ctx.bad if probs else ctx.ok)("R-FIRST", "R-FIRST:get_recipient", gr.span, "; ".join(probs) if probs else
        "forward walk, returns at the first network containing the address")
    it = prog.method("IpTable", "iter")
    bi = [(bb, t) for bb, t in K.calls(it) if (F.callee_key(t) or "").startswith("alloc::collections::btree::map::") and (F.callee_key(t) or "").endswith("::iter")]
    bad = [(bb, t) for bb, t in K.calls(it) if (F.callee_key(t) or "").rsplit("::", 1)[-1] in ("rev", "into_values", "values", "range")]
    okk = len(bi) == 1 and not bad and dep.has_field(dep.arg_origins(it, bi[0][0], 0), "IpTable", "table")
    (ctx.ok if okk else ctx.bad)("R-FIRST", "R-FIRST:IpTable::iter", it.span, "iter() = table.iter() in key order" if okk else "IpTable::iter no longer walks the BTreeMap in key order")
    ad = prog.method("IpTable", "add")
    ins = [(bb, t) for bb, t in K.calls(ad) if (F.callee_key(t) or "").startswith("alloc::collections::btree::map::") and (F.callee_key(t) or "").endswith("::insert")]
    okk = len(ins) == 1
    if okk:
        ko = dep.arg_origins(ad, ins[0][0], 1, through_calls=False)
        vo = dep.arg_origins(ad, ins[0][0], 2, through_calls=False)
        okk = dep.has_param(ko, "key") and dep.has_param(vo, "value") and any(a[0] == "agg" and a[1].endswith("ip_table::Obm") for a in ko)
    (ctx.ok if okk else ctx.bad)("R-FIRST", "R-FIRST:IpTable::add", ad.span, "add(net, v) = table.insert(Obm(net), v): adding twice replaces" if okk else "IpTable::add is no longer a keyed replace-insert")
    # the table is searched with its own key type: a keyed operation (get / remove / contains_key / entry / range) takes
    # an Obm, whose Ord is the order the map is laid out in.  Searching through a Borrow<Q> impl whose Q orders
    # differently walks the tree by the wrong order and misses entries that are there.
    for b in prog.bodies.values():
        for bb, t in K.calls(b):
            ck = F.callee_key(t) or ""
            nm = ck.rsplit("::", 1)[-1]
            if ck.startswith("alloc::collections::btree::map::") and nm in ("get", "remove", "contains_key", "get_mut", "remove_entry", "get_key_value") and len(F.call_args(t)) >= 2 \
                    and dep.has_field(dep.arg_origins(b, bb, 0, through_calls=False), "IpTable", "table"):
                pl = F.op_place(F.call_args(t)[1])
                kty = b.local_tystr(pl[0]) if pl is not None else "?"
                ok = kty.replace("&", "").strip().endswith("ip_table::Obm")
                (ctx.ok if ok else ctx.bad)("R-FIRST", "R-FIRST:table.%s-key@%s" % (nm, b.key.rsplit("::", 1)[-1]), F.call_loc(t),
                    "searched with an Obm key" if ok else "IpTable.table.%s is searched with a %s instead of the map's own key type Obm: the lookup follows %s's order, not the mask-length order the map is laid out in, and misses entries that are present" % (nm, kty.replace("&", ""), kty.replace("&", "").rsplit("::", 1)[-1]))
    borrows = [b for b in prog.bodies.values() if b.kind == "method" and b.impl_trait == "core::borrow::Borrow" and b.self_ty is not None
               and b.types[b.self_ty].get("k") == "adt" and b.types[b.self_ty]["d"].endswith("ip_table::Obm")]
    (ctx.bad if borrows else ctx.ok)("R-FIRST", "R-FIRST:Obm:Borrow", borrows[0].span if borrows else None,
        "Obm implements Borrow<_>: the borrowed form must order exactly like Obm (mask length first), which no other type here does" if borrows else "Obm has no Borrow impl: the map can only be searched in its own order")
    # who writes the table
    for b in prog.bodies.values():
        for bb, t in K.calls(b):
            ck = F.callee_key(t) or ""
            if ck.startswith("alloc::collections::btree::map::") and ck.rsplit("::", 1)[-1] in ("insert", "remove", "clear", "entry", "retain", "append", "pop_first", "pop_last", "get_mut", "iter_mut", "values_mut"):
                if len(F.call_args(t)) >= 1 and dep.has_field(dep.arg_origins(b, bb, 0, through_calls=False), "IpTable", "table"):
                    ok = b.key in (ad.key, prog.method("IpTable", "remove").key)
                    (ctx.ok if ok else ctx.bad)("R-FIRST", "R-FIRST:table.%s@%s" % (ck.rsplit("::", 1)[-1], b.key.rsplit("::", 1)[-1]), F.call_loc(t),
                        "table mutated by add/remove only" if ok else "IpTable.table is mutated in %s" % b.pretty)

    # ---------------------------------------------------------------- R-CTOR
    fb = prog.method("Ipv4Mask", "from_bitcount")
    new = prog.method("Ipv4Net", "new")
    new1 = prog.method("Ipv4Net", "new_1")
    n = 0
    for b in prog.bodies.values():
        for bb, st in K.aggregates(b, "subnetting::Ipv4Mask"):
            n += 1
            ok = b.key == fb.key or (b.derived and b.impl_trait == "core::clone::Clone")
            (ctx.ok if ok else ctx.bad)("R-CTOR", "R-CTOR:Ipv4Mask@%s" % b.key, st[3], "Ipv4Mask built in from_bitcount" if ok else "an Ipv4Mask is built outside from_bitcount in %s: non-contiguous masks become representable" % b.pretty)
        for bb, st in K.aggregates(b, "subnetting::Ipv4Net"):
            n += 1
            ok = b.key in (new.key, new1.key) or (b.derived and b.impl_trait == "core::clone::Clone")
            (ctx.ok if ok else ctx.bad)("R-CTOR", "R-CTOR:Ipv4Net@%s" % b.key, st[3], "Ipv4Net built in new/new_1" if ok else "an Ipv4Net is built outside new/new_1 in %s: its id may not be masked" % b.pretty)
    ctx.require(n >= 5, "R-CTOR: only %d constructions found" % n)
    # (the stored id / mask of new() and new_1() are decided semantically by netarith: R-BITS:new, R-BITS:new_1)
    for adt, fields in (("subnetting::Ipv4Net", None), ("subnetting::Ipv4Mask", None), ("ip_table::IpTable", None)):
        a = prog.adt(adt)
        for f in a["variants"][0]["fields"]:
            ok = "Public" not in f["vis"]
            (ctx.ok if ok else ctx.bad)("R-CTOR", "R-CTOR:vis:%s.%s" % (adt.rsplit("::", 1)[-1], f["name"]), a["span"],
                "field is private" if ok else "%s.%s is public: invariants can be broken from outside" % (adt, f["name"]))
    # (the value of from_bitcount is decided semantically by netarith: R-MASK)
