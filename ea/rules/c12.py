"""C12 — TCP behaviour is independent of absolute sequence numbers: unit discipline (DESIGN.md §3/R7, §4 C12)."""
from .. import facts as F
from .. import dep
from . import common as K

LEVEL = "proof"
EXPLANATION = (
    "Dimension (unit) discipline for sequence numbers over every body of the TCP modules except the comparison "
    "primitives: a value is sequence-typed if it originates from SND.{UNA,NXT,WL1,WL2,ISS}, RCV.{IRS,NXT}, "
    "SEG.{SEQ,ACK}, from wrapping_add/sub(seq, len) or from a parameter/return that some call site feeds with a "
    "sequence-typed value (interprocedural fixpoint). Sequence-typed operands may only be consumed by wrapping_add / "
    "wrapping_sub, the circular comparators mod_lt/leq/gt/geq/mod_bounded, ==/!=, moves, header-builder arguments and "
    "formatting; any ordinary ordering or arithmetic operator (MIR Lt/Le/Gt/Ge/Add/Sub/Mul/Div/Rem, PartialOrd/Ord "
    "methods, checked/saturating/overflowing arithmetic) applied to one is a violation. Shifting an ISN then commutes "
    "with every operation applied to sequence values. (Q-PRIM) The five comparator primitives themselves are decided on "
    "the formula extracted from their MIR: mod_lt/leq/gt/geq depend on their operands only through a - b and equal the "
    "circular order on every region delimited by the constants they compare against (the band of width 2 at distance "
    "2^31 is a don't-care); mod_bounded equals, on all 13 weak orderings of its three offset-adjusted operands and all "
    "four ModCmp pairs, the strict cyclic order, which is rotation invariant. Not decided: trace equality across ISN "
    "pairs as such (the discipline is the structural reason for it); sequence distances of 2^31 and more.")
ASSUMPTIONS = ["u32::wrapping_add / wrapping_sub are addition and subtraction modulo 2^32"]
TRUSTED = []
TECHNIQUE = "static analysis: interprocedural unit/dimension typing of sequence-number values over rustc MIR"

SEQ_FIELDS = {
    ("SendSequenceSpace", "una"), ("SendSequenceSpace", "nxt"), ("SendSequenceSpace", "wl1"), ("SendSequenceSpace", "wl2"), ("SendSequenceSpace", "iss"),
    ("ReceiveSequenceSpace", "irs"), ("ReceiveSequenceSpace", "nxt"), ("TcpHeader", "seq"), ("TcpHeader", "ack"),
    ("TcpHeaderBuilder", "seq"), ("TcpHeaderBuilder", "ack"),
}
SCOPE = "elvis_core::protocols::tcp"
PRIMS = "elvis_core::protocols::tcp::tcb::modular_cmp"
BAD_BIN = {"Lt", "Le", "Gt", "Ge", "Add", "AddWithOverflow", "Sub", "SubWithOverflow", "Mul", "MulWithOverflow", "Div", "Rem", "Shl", "Shr", "AddUnchecked", "SubUnchecked"}
CIRCULAR = ("wrapping_add", "wrapping_sub")
BAD_METHODS = ("checked_add", "checked_sub", "saturating_add", "saturating_sub", "overflowing_add", "overflowing_sub", "abs_diff",
               "PartialOrd::lt", "PartialOrd::le", "PartialOrd::gt", "PartialOrd::ge", "PartialOrd::partial_cmp", "Ord::cmp", "Ord::max", "Ord::min", "Ord::clamp",
               "wrapping_mul", "wrapping_div", "pow")


def in_scope(k):
    return k.startswith(SCOPE) and not k.startswith(PRIMS)


def is_seq_field(pl):
    fs = F.place_fields(pl)
    if not fs:
        return False
    owner, name = fs[-1]
    return (owner.rsplit("::", 1)[-1], name) in SEQ_FIELDS


class Typing:
    def __init__(self, prog):
        self.prog = prog
        self.bodies = {k: b for k, b in prog.bodies.items() if k.startswith(SCOPE)}
        self.seq_params = set()     # (body key, param index)
        self.seq_returns = set()    # body key
        self.seq_locals = {k: set() for k in self.bodies}
        self.upvars = set()         # (closure key, upvar name)
        changed = True
        n = 0
        while changed and n < 30:
            changed = False
            n += 1
            for k, b in self.bodies.items():
                if self._body(b):
                    changed = True
        self.iterations = n

    def op_is_seq(self, b, op):
        if op[0] not in ("cp", "mv"):
            return False
        pl = op[1]
        if is_seq_field(pl):
            return True
        if F.place_fields(pl):
            fs = F.place_fields(pl)
            if fs[-1][0] == b.key and (b.key, fs[-1][1]) in self.upvars:
                return True
            # tuple element of an overflow pair: (x op y).0
            if len(pl[1]) == 1 and fs[-1][0] == "tuple":
                return pl[0] in self.seq_locals[b.key]
            return False
        if any(e == "*" for e in pl[1]) and not F.place_fields(pl):
            return pl[0] in self.seq_locals[b.key]
        return pl[0] in self.seq_locals[b.key]

    def _body(self, b):
        ch = False
        sl = self.seq_locals[b.key]
        for i in range(1, b.argc + 1):
            if (b.key, i) in self.seq_params and i not in sl:
                sl.add(i)
                ch = True
        for bb, blk in enumerate(b.blocks):
            if blk["c"]:
                continue
            for st in blk["s"]:
                if st[0] != "a":
                    continue
                pl, rv = st[1], st[2]
                val_seq = False
                if rv[0] == "use":
                    val_seq = self.op_is_seq(b, rv[1])
                elif rv[0] == "cast" and rv[1] == "IntToInt":
                    val_seq = self.op_is_seq(b, rv[2])
                elif rv[0] == "ref":
                    val_seq = is_seq_field(rv[2]) or (not rv[2][1] and rv[2][0] in sl)
                elif rv[0] == "agg" and rv[1]["k"] in ("closure", "coroutine"):
                    # captured sequence values
                    ck = rv[1]["d"]
                    cb = self.prog.bodies.get(ck)
                    if cb is not None:
                        names = _upvar_names(cb)
                        for j, o in enumerate(rv[2]):
                            if self.op_is_seq(b, o) and j < len(names) and (ck, names[j]) not in self.upvars:
                                self.upvars.add((ck, names[j]))
                                ch = True
                if val_seq and not pl[1] and pl[0] not in sl:
                    sl.add(pl[0])
                    ch = True
            t = blk["t"]
            if t[0] != "call":
                continue
            ck = F.callee_key(t) or ""
            args = F.call_args(t)
            d = F.call_dest(t)
            name = ck.rsplit("::", 1)[-1]
            res_seq = False
            if name in CIRCULAR and len(args) == 2:
                a, c = self.op_is_seq(b, args[0]), self.op_is_seq(b, args[1])
                res_seq = (a and not c) or (name == "wrapping_add" and c and not a)
            elif any(ck.endswith(s) for s in dep.TRANSPARENT) and args:
                res_seq = self.op_is_seq(b, args[0])
            if ck in self.bodies:
                for j, a in enumerate(args):
                    if self.op_is_seq(b, a) and (ck, j + 1) not in self.seq_params:
                        self.seq_params.add((ck, j + 1))
                        ch = True
                if ck in self.seq_returns:
                    res_seq = True
            if res_seq and not d[1] and d[0] not in sl:
                sl.add(d[0])
                ch = True
        # return typing
        if 0 in sl and b.key not in self.seq_returns:
            self.seq_returns.add(b.key)
            ch = True
        return ch


def _upvar_names(cb):
    # captured variable names in field order from the closure body's debug info
    names = {}
    for nm, pl in cb.debug_places:
        for e in pl[1]:
            if isinstance(e, list) and e[0] == "f" and e[2] == cb.key:
                names[e[1]] = e[3]
    return [names.get(i, "upvar%d" % i) for i in range((max(names) + 1) if names else 0)]


def run(ctx):
    prog = ctx.prog()
    from . import seqprims
    seqprims.check_prims(ctx, "Q-PRIM")
    ty = Typing(prog)
    circ = 0
    cmpc = 0
    eqc = 0
    nseq = sum(len(v) for v in ty.seq_locals.values())
    for k, b in sorted(ty.bodies.items()):
        if not in_scope(k) or b.derived:
            continue
        for bb, blk in enumerate(b.blocks):
            if blk["c"]:
                continue
            for st in blk["s"]:
                if st[0] != "a" or st[2][0] != "bin":
                    continue
                op, a, c = st[2][1], st[2][2], st[2][3]
                sa, sc = ty.op_is_seq(b, a), ty.op_is_seq(b, c)
                if not (sa or sc):
                    continue
                if op in ("Eq", "Ne"):
                    eqc += 1
                    continue
                if op in BAD_BIN or True:
                    ctx.bad("Q-SEQ", "Q-SEQ:%s:%s" % (k, op), st[3],
                            "ordinary operator %s applied to a sequence number (%s) in %s: the result depends on absolute sequence values and breaks at wrap-around; use wrapping_*/mod_* instead" % (
                                op, " and ".join(F.place_str(b, F.op_place(x)) for x, s in ((a, sa), (c, sc)) if s and F.op_place(x)), b.pretty))
            t = blk["t"]
            if t[0] != "call":
                continue
            ck = F.callee_key(t) or ""
            decl = (F.callee(t) or {}).get("fn", "")
            args = F.call_args(t)
            seqargs = [j for j, a in enumerate(args) if ty.op_is_seq(b, a)]
            if not seqargs:
                continue
            name = ck.rsplit("::", 1)[-1]
            if name in CIRCULAR:
                if len(seqargs) == 2 and name == "wrapping_add":
                    ctx.bad("Q-SEQ", "Q-SEQ:%s:wrapping_add(seq,seq)" % k, F.call_loc(t), "two absolute sequence numbers are added in %s" % b.pretty)
                else:
                    circ += 1
                continue
            if ck.startswith(PRIMS):
                cmpc += 1
                continue
            if any(decl.endswith(m) or ck.endswith("::" + m) for m in BAD_METHODS) and not ck.startswith(SCOPE):
                ctx.bad("Q-SEQ", "Q-SEQ:%s:%s" % (k, name), F.call_loc(t),
                        "%s applied to a sequence number in %s: not invariant under shifting the ISN" % (name, b.pretty))
    # Ord for Segment (the reordering heap) is the reversed circular order: decided semantically (shared with C01)
    from . import c01
    c01.check_heap_order(ctx, "Q-HEAPORD")
    seg_eq = prog.method("Segment", "eq", "PartialEq")
    ctx.ok("Q-SEQ", "Q-SEQ:discipline", "elvis-core/src/protocols/tcp",
           "%d sequence-typed locals over %d bodies; consumers: %d wrapping_add/sub, %d circular comparator calls, %d ==/!=; no ordinary operator touches a sequence number" % (
               nseq, sum(1 for k in ty.bodies if in_scope(k)), circ, cmpc, eqc))
    ctx.require(circ >= 15 and cmpc >= 10, "Q-SEQ: too few circular consumers found (wrapping=%d, comparators=%d): sequence typing lost its anchors" % (circ, cmpc))
    ctx.extra["q_seq"] = {"sequence_typed_locals": nseq, "wrapping_consumers": circ, "comparator_calls": cmpc, "eq_ne": eqc, "typing_iterations": ty.iterations,
                          "seq_params": sorted("%s#%d" % (K.short(k), i) for k, i in ty.seq_params)[:60]}
