"""C18 — with checksums enabled, emitted checksums are valid and corruption is caught: coverage agreement (DESIGN.md §4 C18)."""
from collections import Counter

from .. import facts as F
from ..cfg import cfg
from .. import dep, wire
from . import common as K
from . import c08

LEVEL = "other"
EXPLANATION = (
    "Analysed on the facts of the `compute_checksum` build configuration. (K-COVER) for IPv4, UDP and TCP the multiset "
    "of quantities added to the checksum accumulator (header fields by wire position, pseudo-header source / "
    "destination / zero+protocol / length, payload) is extracted from the builder and from the parser; both must be "
    "equal and equal to the RFC 791 / 768 / 9293 coverage table (every header position except the checksum itself; UDP "
    "length counted twice; protocol numbers 17 and 6). (K-FLOW) the emitted checksum field is Checksum::as_u16 of that "
    "accumulator, and every parser returns Ok only on the branch where the received and the computed checksum are equal, "
    "the other branch returning the Checksum error. (K-CFG) every Checksum method has the same name and arity in both "
    "configurations and a non-trivial body with the feature on. Not decided: the end-around-carry arithmetic, odd-length "
    "padding values, the 0xffff/0x0000 representation choice of as_u16, detection of bit flips (value-level).")
ASSUMPTIONS = ["Checksum::add_u8/add_u16/add_u32/accumulate_remainder implement RFC 1071 addition (arithmetic not checked)"]

CS = "utility::{impl#0}::"
ALIAS = {
    "ipv4": {"payload_length": "total_length", "flags": "flags", "fragment_offset": "fragment_offset"},
    "udp": {"text": "payload", "packet": "payload", "text_len": "length", "packet_len": "length", "source_address": "src_addr", "destination_address": "dst_addr",
            "source_port": "source", "destination_port": "destination"},
    "tcp": {"text": "payload", "packet": "payload", "text_len": "length", "packet_len": "length", "src_address": "src_addr", "dst_address": "dst_addr"},
}
RFC_COVER = {
    "ipv4": Counter(["ihl", "type_of_service", "total_length", "identification", "flags", "fragment_offset", "time_to_live", "protocol", "source", "destination"]),
    "udp": Counter(["src_addr", "dst_addr", "const0", "const17", "length", "length", "source", "destination", "payload"]),
    "tcp": Counter(["src_addr", "dst_addr", "const0", "const6", "length", "src_port", "dst_port", "seq", "ack", "data_offset", "ctl", "wnd", "urg", "payload"]),
}
IGNORE = {"self", "0", "message", "header"}


def contributions(ctx, prog, body, proto, reads=None):
    """Counter of tokens added to the accumulator in `body`; also the accumulator local."""
    cnt = Counter()
    acc = None
    sites = []
    unknown = []
    read_fields = {}
    if reads:
        for r in reads:
            read_fields[r["bb"]] = [f.split(".", 1)[1] for f in r["fields"]]
    for bb in wire.rpo(body):
        if body.is_cleanup(bb):
            continue
        t = body.term(bb)
        if t[0] != "call":
            continue
        ck = F.callee_key(t) or ""
        m = ck.rsplit("::", 1)[-1]
        if not (ck.endswith("utility::{impl#0}::" + m) and m in ("add_u8", "add_u16", "add_u32", "accumulate_remainder")):
            continue
        from .ndl import _root_local
        a0 = _root_local(body, F.call_args(t)[0])
        acc = a0 if acc is None else acc
        at = (bb, len(body.stmts(bb)))
        if m == "accumulate_remainder":
            # whatever is left in the byte iterator: the payload (everything after the header bytes already consumed)
            r = _root_local(body, F.call_args(t)[1])
            nm = body.local_name(r) if r is not None else None
            if nm in ("text", "packet", "payload", "bytes"):
                cnt["payload"] += 1
            else:
                unknown.append((F.call_loc(t), "accumulate_remainder(%s)" % nm))
            sites.append(bb)
            continue
        for arg in F.call_args(t)[1:]:
            v = F.const_int(dep.resolve_copy(body, arg))
            if v is not None:
                cnt["const%d" % v] += 1
                continue
            toks = set()
            o = dep.origins(body, arg, at=at, prog=prog,
                            stop_at_call=["::next_u8", "::next_u16_be", "::next_u32_be", "::next_u48_be", "::next_ipv4addr", "::next_n"])
            for a in o:
                if a[0] == "call" and a[2] in read_fields:
                    toks |= set(read_fields[a[2]])
                elif a[0] == "field" and not a[1].startswith(("core::", "alloc::", "tuple")) and a[2] not in IGNORE:
                    toks.add(ALIAS[proto].get(a[2], a[2]))
                elif a[0] == "param" and a[2] and a[2] not in IGNORE:
                    toks.add(ALIAS[proto].get(a[2], a[2]))
                elif a[0] == "named" and a[1].endswith("BASE_HEADER_WORDS"):
                    toks.add("data_offset")
                elif a[0] == "named" and a[1].endswith("BASE_WORDS"):
                    toks.add("ihl")
            toks -= {"checksum"}
            if not toks:
                unknown.append((F.call_loc(t), dep.tree_str(dep.expr_tree(body, arg, 8))))
            for tk in toks:
                cnt[tk] += 1
        sites.append(bb)
    return cnt, acc, sites, unknown


def run(ctx):
    prog = ctx.prog("checksum")
    pairs = {
        "ipv4": (prog.method("Ipv4HeaderBuilder", "build"), prog.method("Ipv4Header", "from_bytes")),
        "udp": (prog.one("protocols::udp::udp_parsing::build_udp_header"), prog.method("UdpHeader", "from_bytes_ipv4")),
        "tcp": (prog.method("TcpHeaderBuilder", "build"), prog.method("TcpHeader", "from_bytes")),
    }
    cover = {}
    for proto, (eb, db) in pairs.items():
        reads = wire.decoder_trace(prog, db)
        # attribute the unattributed checksum read like C08 does
        ce, acc_e, se, ue = contributions(ctx, prog, eb, proto)
        cd, acc_d, sd, ud = contributions(ctx, prog, db, proto, reads)
        ctx.require(len(se) >= 4 and len(sd) >= 4, "K-COVER:%s: accumulator contributions not found (enc %d, dec %d)" % (proto, len(se), len(sd)))
        ctx.require(not ue and not ud, "K-COVER:%s: contributions with unrecognised operands %s (rename? update the alias table)" % (proto, (ue + ud)[:3]))
        want = RFC_COVER[proto]
        cover[proto] = {"builder": dict(ce), "parser": dict(cd)}
        probs = []
        if ce != cd:
            probs.append("builder covers %s but parser covers %s" % (_diff(ce, cd), _diff(cd, ce)))
        for side, c in (("builder", ce), ("parser", cd)):
            if c != want:
                probs.append("%s coverage differs from the RFC table: extra %s, missing %s" % (side, _diff(c, want), _diff(want, c)))
        (ctx.bad if probs else ctx.ok)("K-COVER", "K-COVER:%s" % proto, eb.span, "; ".join(probs[:3]) if probs else
            "builder and parser both cover %s" % ", ".join("%s%s" % (k, "x%d" % v if v > 1 else "") for k, v in sorted(want.items())))

        # ------------------------------------------------------------ K-FLOW
        probs = []
        # encoder: the emitted checksum originates from as_u16 of the accumulator
        asu = K.calls_to(eb, "utility::{impl#0}::as_u16")
        if len(asu) != 1:
            probs.append("builder calls Checksum::as_u16 %d times, expected 1" % len(asu))
        else:
            from .ndl import _root_local
            if _root_local(eb, F.call_args(asu[0][1])[0]) != acc_e:
                probs.append("as_u16 is not taken from the accumulator that received the contributions")
            ge = cfg(eb)
            late = [bb for bb in se if ge.reaches(asu[0][0], bb)]
            if late:
                probs.append("contributions are added after the checksum value was taken")
            # flows into the emitted bytes / header field
            used = False
            for bb, t in K.calls(eb):
                if bb == asu[0][0]:
                    continue
                for i in range(len(F.call_args(t))):
                    if any(a[0] == "call" and a[2] == asu[0][0] for a in dep.arg_origins(eb, bb, i, through_calls=True)):
                        used = True
            for bb, st in K.assigns_to_field(eb, "TcpHeader", ("checksum",)):
                o = set()
                for op in dep.rvalue_operands(st[2]):
                    o |= dep.origins(eb, op, at=K.at_stmt(eb, bb, st))
                if any(a[0] == "call" and a[2] == asu[0][0] for a in o):
                    used = True
            if not used:
                probs.append("the value of as_u16 does not flow into the emitted header")
        # decoder: Ok only where received == computed
        gd = cfg(db)
        asd = K.calls_to(db, "utility::{impl#0}::as_u16")
        oks = [bb for bb, st in K.aggregates(db, "core::result::Result", "Ok") if st[2][1].get("a") == db.local_ty(0).get("a")]
        if len(asd) != 1 or not oks:
            probs.append("parser: as_u16 / Ok result not found")
        else:
            guard = None
            for s in range(len(db.blocks)):
                if db.is_cleanup(s) or db.term(s)[0] != "switch":
                    continue
                info = K.compare_info(db, s)
                if not info or info["op"] not in ("Eq", "Ne"):
                    continue
                at = K.at_term(db, s)
                stop = ["::next_u8", "::next_u16_be", "::next_u32_be", "::next_n", "::accumulate_remainder", "::add_u8", "::add_u16", "::add_u32"]
                oa = dep.origins(db, info["a"], at=at, stop_at_call=stop)
                ob = dep.origins(db, info["b"], at=at, stop_at_call=stop)
                comp_a = any(a[0] == "call" and a[2] == asd[0][0] for a in oa)
                comp_b = any(a[0] == "call" and a[2] == asd[0][0] for a in ob)
                read_a = any(a[0] == "call" and a[1] and a[1].endswith("next_u16_be") for a in oa)
                read_b = any(a[0] == "call" and a[1] and a[1].endswith("next_u16_be") for a in ob)
                if (comp_a and read_b and not comp_b) or (comp_b and read_a and not comp_a):
                    rel = K.relation_on(info, info["true"])
                    eqb = info["true"] if rel and rel[0] == "Eq" else info["false"]
                    neb = info["false"] if eqb == info["true"] else info["true"]
                    guard = (s, eqb, neb)
            if guard is None:
                probs.append("parser does not compare the received checksum with the computed one")
            else:
                s, eqb, neb = guard
                for ob_ in oks:
                    if not gd.dominates(eqb, ob_):
                        probs.append("parser can return Ok without the checksums being equal")
                errs = [bb for bb, st in K.aggregates(db, "ParseError", "Checksum")]
                if not errs or not gd.all_paths_through(neb, gd.returns, errs):
                    probs.append("a checksum mismatch does not lead to the Checksum error")
                late = [bb for bb in sd if gd.reaches(asd[0][0], bb)]
                if late:
                    probs.append("parser adds contributions after computing the checksum")
        (ctx.bad if probs else ctx.ok)("K-FLOW", "K-FLOW:%s" % proto, db.span, "; ".join(probs) if probs else
            "emitted field = as_u16(accumulator); parser returns Ok only if received == computed, else Err(Checksum)")
    ctx.extra["coverage_sets"] = cover

    # ---------------------------------------------------------------- K-CFG
    dprog = ctx.prog("default")
    names = ("new", "add_u8", "add_u16", "add_u32", "accumulate_remainder", "as_u16")
    for n in names:
        on = [b for k, b in prog.bodies.items() if k.endswith("protocols::utility::{impl#0}::" + n)]
        off = [b for k, b in dprog.bodies.items() if k.endswith("protocols::utility::{impl#0}::" + n)]
        probs = []
        if len(on) != 1 or len(off) != 1:
            probs.append("Checksum::%s exists %d time(s) with the feature and %d without" % (n, len(on), len(off)))
        else:
            if on[0].argc != off[0].argc:
                probs.append("arity differs between configurations (%d vs %d)" % (on[0].argc, off[0].argc))
            if n in ("add_u16", "accumulate_remainder", "as_u16"):
                real = any(st[0] == "a" and st[2][0] in ("bin", "un") for blk in on[0].blocks for st in blk["s"]) or any(blk["t"][0] == "call" for blk in on[0].blocks)
                if not real:
                    probs.append("the feature-on body of Checksum::%s is still a no-op" % n)
        (ctx.bad if probs else ctx.ok)("K-CFG", "K-CFG:Checksum::%s" % n, on[0].span if on else "utility.rs", "; ".join(probs) if probs else
            "same name and arity in both configurations; real body with the feature on")
    # add_u16 really accumulates into self.0
    au = [b for k, b in prog.bodies.items() if k.endswith("protocols::utility::{impl#0}::add_u16")][0]
    w = K.assigns_to_field(au, "utility::Checksum", ("0",))
    okk = len(w) >= 1 and any(dep.has_param(dep.origins(au, dep.rvalue_operands(st[2])[0], at=K.at_stmt(au, bb, st)), "value") for bb, st in w if dep.rvalue_operands(st[2]))
    (ctx.ok if okk else ctx.bad)("K-CFG", "K-CFG:add_u16-accumulates", au.span, "add_u16 folds `value` into the accumulator" if okk else "add_u16 does not fold its argument into the accumulator")


def _diff(a, b):
    d = a - b
    return sorted(d.elements()) if d else "nothing"
