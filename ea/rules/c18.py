"""C18 — with checksums enabled, emitted checksums are valid and corruption is caught: coverage agreement (DESIGN.md §4 C18)."""
from collections import Counter

from .. import facts as F
from ..cfg import cfg
from .. import dep, wire
from . import common as K
from . import c08

LEVEL = "other"
EXPLANATION = (
    "Analysed on the facts of the `compute_checksum` build configuration. (K-COVER) for IPv4, UDP and TCP the multiset "
    "of quantities added to the checksum accumulator (header fields by wire position, pseudo-header source / "
    "destination / zero+protocol / length, payload) is extracted from the builder and from the parser; both must be "
    "equal and equal to the RFC 791 / 768 / 9293 coverage table (every header position except the checksum itself; UDP "
    "length counted twice; protocol numbers 17 and 6). (K-FLOW) the emitted checksum field is Checksum::as_u16 of that "
    "accumulator, and every parser returns Ok only on the branch where the received and the computed checksum are equal, "
    "the other branch returning the Checksum error. (K-CFG) every Checksum method has the same name and arity in both "
    "configurations and a non-trivial body with the feature on. (K-ARITH) the accumulator arithmetic is decided on extracted formulas: add_u16 equals one's-complement addition with end-around carry on every region/boundary point of (accumulator, value), add_u8/add_u32 feed big-endian words in wire order, as_u16 is the complement of the sum. Not decided: odd-length "
    "padding values, the 0xffff/0x0000 representation choice of as_u16, detection of bit flips (value-level).")
ASSUMPTIONS = ["Checksum::add_u8/add_u16/add_u32/accumulate_remainder implement RFC 1071 addition (arithmetic not checked)"]

CS = "utility::{impl#0}::"
ALIAS = {
    "ipv4": {"payload_length": "total_length", "flags": "flags", "fragment_offset": "fragment_offset"},
    "udp": {"text": "payload", "packet": "payload", "text_len": "length", "packet_len": "length", "source_address": "src_addr", "destination_address": "dst_addr",
            "source_port": "source", "destination_port": "destination"},
    "tcp": {"text": "payload", "packet": "payload", "text_len": "length", "packet_len": "length", "src_address": "src_addr", "dst_address": "dst_addr"},
}
RFC_COVER = {
    "ipv4": Counter(["ihl", "type_of_service", "total_length", "identification", "flags", "fragment_offset", "time_to_live", "protocol", "source", "destination"]),
    "udp": Counter(["src_addr", "dst_addr", "const0", "const17", "length", "length", "source", "destination", "payload"]),
    "tcp": Counter(["src_addr", "dst_addr", "const0", "const6", "length", "src_port", "dst_port", "seq", "ack", "data_offset", "ctl", "wnd", "urg", "payload"]),
}
IGNORE = {"self", "0", "message", "header"}


def contributions(ctx, prog, body, proto, reads=None):
    """Counter of tokens added to the accumulator in `body`; also the accumulator local."""
    cnt = Counter()
    acc = None
    sites = []
    unknown = []
    read_fields = {}
    if reads:
        for r in reads:
            read_fields[r["bb"]] = [f.split(".", 1)[1] for f in r["fields"]]
    for bb in wire.rpo(body):
        if body.is_cleanup(bb):
            continue
        t = body.term(bb)
        if t[0] != "call":
            continue
        ck = F.callee_key(t) or ""
        m = ck.rsplit("::", 1)[-1]
        if not (ck.endswith("utility::{impl#0}::" + m) and m in ("add_u8", "add_u16", "add_u32", "accumulate_remainder")):
            continue
        from .ndl import _root_local
        a0 = _root_local(body, F.call_args(t)[0])
        acc = a0 if acc is None else acc
        at = (bb, len(body.stmts(bb)))
        if m == "accumulate_remainder":
            # whatever is left in the byte iterator: the payload (everything after the header bytes already consumed)
            r = _root_local(body, F.call_args(t)[1])
            nm = body.local_name(r) if r is not None else None
            if nm in ("text", "packet", "payload", "bytes"):
                cnt["payload"] += 1
            else:
                unknown.append((F.call_loc(t), "accumulate_remainder(%s)" % nm))
            sites.append(bb)
            continue
        for arg in F.call_args(t)[1:]:
            v = F.const_int(dep.resolve_copy(body, arg))
            if v is not None:
                cnt["const%d" % v] += 1
                continue
            toks = set()
            o = dep.origins(body, arg, at=at, prog=prog,
                            stop_at_call=["::next_u8", "::next_u16_be", "::next_u32_be", "::next_u48_be", "::next_ipv4addr", "::next_n"])
            for a in o:
                if a[0] == "call" and a[2] in read_fields:
                    toks |= set(read_fields[a[2]])
                elif a[0] == "field" and not a[1].startswith(("core::", "alloc::", "tuple")) and a[2] not in IGNORE:
                    toks.add(ALIAS[proto].get(a[2], a[2]))
                elif a[0] == "param" and a[2] and a[2] not in IGNORE:
                    toks.add(ALIAS[proto].get(a[2], a[2]))
                elif a[0] == "named" and a[1].endswith("BASE_HEADER_WORDS"):
                    toks.add("data_offset")
                elif a[0] == "named" and a[1].endswith("BASE_WORDS"):
                    toks.add("ihl")
            toks -= {"checksum"}
            if not toks:
                unknown.append((F.call_loc(t), dep.tree_str(dep.expr_tree(body, arg, 8))))
            for tk in toks:
                cnt[tk] += 1
        sites.append(bb)
    return cnt, acc, sites, unknown


def k_frozen(ctx, prog):
    """K-FROZEN: a header's checksum is computed once, when the builder makes it; serialize() writes the stored value.
    So nothing outside the codec module may rewrite a field of a built TcpHeader / UdpHeader that the checksum covers -
    the segment would go out with a checksum that no longer verifies."""
    n = 0
    for adt, mod, allowed in (("tcp_parsing::TcpHeader", "elvis_core::protocols::tcp::tcp_parsing", ()),
                              ("udp_parsing::UdpHeader", "elvis_core::protocols::udp::udp_parsing", ())):
        # (an Ipv4Header is re-encoded through Ipv4Header::serialize -> builder, which recomputes its checksum: no rule)
        for b in prog.bodies.values():
            if b.key.startswith(mod) or "::tests::" in b.key or b.key.rsplit("::", 1)[-1].startswith("test_"):
                continue
            for bb, st in K.assigns_to_field(b, adt) + K.mut_borrows_of_field(b, adt):
                fld = F.place_fields(st[1] if st[0] == "a" and st[2][0] != "ref" else st[2][2])
                name = fld[-1][1] if fld else "?"
                if name == "checksum":
                    continue
                # only headers on their way out matter: those held by the retransmission queue (Outgoing.retransmit /
                # Transmit.segment); a received header may be edited freely
                pl = st[1] if st[0] == "a" and st[2][0] != "ref" else st[2][2]
                owners = [o for o, _f in F.place_fields(pl)]
                base_o = dep.origins(b, ["cp", [pl[0], []]], at=K.at_stmt(b, bb, st))
                outgoing = any(o.endswith("outgoing::Transmit") or o.endswith("outgoing::Outgoing") for o in owners) or \
                    dep.has_field(base_o, "Outgoing", "retransmit") or dep.has_field(base_o, "Transmit", "segment")
                if not outgoing:
                    continue
                n += 1
                ok = any(b.key.startswith(a) for a in allowed)
                (ctx.ok if ok else ctx.bad)("K-FROZEN", "K-FROZEN:%s.%s@%s" % (adt.rsplit("::", 1)[-1], name, b.key), st[3],
                    "re-encoded through serialize(), which recomputes the checksum" if ok else
                    "%s rewrites %s.%s of a header that was already built: its stored checksum is not recomputed, so the segment is emitted with a checksum that does not verify" % (b.pretty, adt.rsplit("::", 1)[-1], name))
    ctx.ok("K-FROZEN", "K-FROZEN:scan", None, "%d writes of built headers outside the codec modules examined" % n)


def run(ctx):
    prog = ctx.prog("checksum")
    k_frozen(ctx, prog)
    pairs = {
        "ipv4": (prog.method("Ipv4HeaderBuilder", "build"), prog.method("Ipv4Header", "from_bytes")),
        "udp": (prog.one("protocols::udp::udp_parsing::build_udp_header"), prog.method("UdpHeader", "from_bytes_ipv4")),
        "tcp": (prog.method("TcpHeaderBuilder", "build"), prog.method("TcpHeader", "from_bytes")),
    }
    cover = {}
    for proto, (eb, db) in pairs.items():
        reads = wire.decoder_trace(prog, db)
        # attribute the unattributed checksum read like C08 does
        ce, acc_e, se, ue = contributions(ctx, prog, eb, proto)
        cd, acc_d, sd, ud = contributions(ctx, prog, db, proto, reads)
        ctx.require(len(se) >= 4 and len(sd) >= 4, "K-COVER:%s: accumulator contributions not found (enc %d, dec %d)" % (proto, len(se), len(sd)))
        ctx.require(not ue and not ud, "K-COVER:%s: contributions with unrecognised operands %s (rename? update the alias table)" % (proto, (ue + ud)[:3]))
        want = RFC_COVER[proto]
        cover[proto] = {"builder": dict(ce), "parser": dict(cd)}
        probs = []
        if ce != cd:
            probs.append("builder covers %s but parser covers %s" % (_diff(ce, cd), _diff(cd, ce)))
        for side, c in (("builder", ce), ("parser", cd)):
            if c != want:
                probs.append("%s coverage differs from the RFC table: extra %s, missing %s" % (side, _diff(c, want), _diff(want, c)))
        (ctx.bad if probs else ctx.ok)("K-COVER", "K-COVER:%s" % proto, eb.span, "; ".join(probs[:3]) if probs else
            "builder and parser both cover %s" % ", ".join("%s%s" % (k, "x%d" % v if v > 1 else "") for k, v in sorted(want.items())))

        # ------------------------------------------------------------ K-FLOW
        probs = []
        # encoder: the emitted checksum originates from as_u16 of the accumulator
        asu = K.calls_to(eb, "utility::{impl#0}::as_u16")
        if len(asu) != 1:
            probs.append("builder calls Checksum::as_u16 %d times, expected 1" % len(asu))
        else:
            from .ndl import _root_local
            if _root_local(eb, F.call_args(asu[0][1])[0]) != acc_e:
                probs.append("as_u16 is not taken from the accumulator that received the contributions")
            ge = cfg(eb)
            late = [bb for bb in se if ge.reaches(asu[0][0], bb)]
            if late:
                probs.append("contributions are added after the checksum value was taken")
            # flows into the emitted bytes / header field
            used = False
            for bb, t in K.calls(eb):
                if bb == asu[0][0]:
                    continue
                for i in range(len(F.call_args(t))):
                    if any(a[0] == "call" and a[2] == asu[0][0] for a in dep.arg_origins(eb, bb, i, through_calls=True)):
                        used = True
            for bb, st in K.assigns_to_field(eb, "TcpHeader", ("checksum",)):
                o = set()
                for op in dep.rvalue_operands(st[2]):
                    o |= dep.origins(eb, op, at=K.at_stmt(eb, bb, st))
                if any(a[0] == "call" and a[2] == asu[0][0] for a in o):
                    used = True
            # ... or is the `checksum` field of a struct literal
            for bb, st in K.aggregates(eb, "TcpHeader"):
                try:
                    op = K.agg_field_operand(st, "checksum")
                except Exception:
                    op = None
                if op is not None and any(a[0] == "call" and a[2] == asu[0][0] for a in dep.origins(eb, op, at=K.at_stmt(eb, bb, st))):
                    used = True
            if not used:
                probs.append("the value of as_u16 does not flow into the emitted header")
        # decoder: Ok only where received == computed
        gd = cfg(db)
        asd = K.calls_to(db, "utility::{impl#0}::as_u16")
        oks = [bb for bb, st in K.aggregates(db, "core::result::Result", "Ok") if st[2][1].get("a") == db.local_ty(0).get("a")]
        if len(asd) != 1 or not oks:
            probs.append("parser: as_u16 / Ok result not found")
        else:
            guard = None
            for s in range(len(db.blocks)):
                if db.is_cleanup(s) or db.term(s)[0] != "switch":
                    continue
                info = K.compare_info(db, s)
                if not info or info["op"] not in ("Eq", "Ne"):
                    continue
                at = K.at_term(db, s)
                stop = ["::next_u8", "::next_u16_be", "::next_u32_be", "::next_n", "::accumulate_remainder", "::add_u8", "::add_u16", "::add_u32"]
                oa = dep.origins(db, info["a"], at=at, stop_at_call=stop)
                ob = dep.origins(db, info["b"], at=at, stop_at_call=stop)
                comp_a = any(a[0] == "call" and a[2] == asd[0][0] for a in oa)
                comp_b = any(a[0] == "call" and a[2] == asd[0][0] for a in ob)
                read_a = any(a[0] == "call" and a[1] and a[1].endswith("next_u16_be") for a in oa)
                read_b = any(a[0] == "call" and a[1] and a[1].endswith("next_u16_be") for a in ob)
                if (comp_a and read_b and not comp_b) or (comp_b and read_a and not comp_a):
                    rel = K.relation_on(info, info["true"])
                    eqb = info["true"] if rel and rel[0] == "Eq" else info["false"]
                    neb = info["false"] if eqb == info["true"] else info["true"]
                    guard = (s, eqb, neb)
            if guard is None:
                probs.append("parser does not compare the received checksum with the computed one")
            else:
                s, eqb, neb = guard
                for ob_ in oks:
                    if not gd.dominates(eqb, ob_):
                        probs.append("parser can return Ok without the checksums being equal")
                errs = [bb for bb, st in K.aggregates(db, "ParseError", "Checksum")]
                if not errs or not gd.all_paths_through(neb, gd.returns, errs):
                    probs.append("a checksum mismatch does not lead to the Checksum error")
                late = [bb for bb in sd if gd.reaches(asd[0][0], bb)]
                if late:
                    probs.append("parser adds contributions after computing the checksum")
        (ctx.bad if probs else ctx.ok)("K-FLOW", "K-FLOW:%s" % proto, db.span, "; ".join(probs) if probs else
            "emitted field = as_u16(accumulator); parser returns Ok only if received == computed, else Err(Checksum)")
    ctx.extra["coverage_sets"] = cover

    # ---------------------------------------------------------------- K-ARITH
    k_arith(ctx, prog)

    # ---------------------------------------------------------------- K-CFG
    dprog = ctx.prog("default")
    names = ("new", "add_u8", "add_u16", "add_u32", "accumulate_remainder", "as_u16")
    for n in names:
        on = [b for k, b in prog.bodies.items() if k.endswith("protocols::utility::{impl#0}::" + n)]
        off = [b for k, b in dprog.bodies.items() if k.endswith("protocols::utility::{impl#0}::" + n)]
        probs = []
        if len(on) != 1 or len(off) != 1:
            probs.append("Checksum::%s exists %d time(s) with the feature and %d without" % (n, len(on), len(off)))
        else:
            if on[0].argc != off[0].argc:
                probs.append("arity differs between configurations (%d vs %d)" % (on[0].argc, off[0].argc))
            if n in ("add_u16", "accumulate_remainder", "as_u16"):
                real = any(st[0] == "a" and st[2][0] in ("bin", "un") for blk in on[0].blocks for st in blk["s"]) or any(blk["t"][0] == "call" for blk in on[0].blocks)
                if not real:
                    probs.append("the feature-on body of Checksum::%s is still a no-op" % n)
        (ctx.bad if probs else ctx.ok)("K-CFG", "K-CFG:Checksum::%s" % n, on[0].span if on else "utility.rs", "; ".join(probs) if probs else
            "same name and arity in both configurations; real body with the feature on")
    # add_u16 really accumulates into self.0
    au = [b for k, b in prog.bodies.items() if k.endswith("protocols::utility::{impl#0}::add_u16")][0]
    w = K.assigns_to_field(au, "utility::Checksum", ("0",))
    okk = len(w) >= 1 and any(dep.has_param(dep.origins(au, dep.rvalue_operands(st[2])[0], at=K.at_stmt(au, bb, st)), "value") for bb, st in w if dep.rvalue_operands(st[2]))
    (ctx.ok if okk else ctx.bad)("K-CFG", "K-CFG:add_u16-accumulates", au.span, "add_u16 folds `value` into the accumulator" if okk else "add_u16 does not fold its argument into the accumulator")


def _diff(a, b):
    d = a - b
    return sorted(d.elements()) if d else "nothing"



from ..symx import INT_WIDTH as S_INT_WIDTH, width_of as _width_of


def _w(t):
    """Width the operand is computed in: the outermost cast decides, otherwise u16 (the accumulator's type)."""
    if t[0] == "cast" and len(t) > 2:
        return S_INT_WIDTH.get(t[2], 16)
    if t[0] == "bin":
        return max(_w(t[2]), _w(t[3]))
    if t[0] == "not":
        return _w(t[1])
    return 16


def _eval16(t, env):
    """Evaluate an extracted u16 formula (leaves bound by env)."""
    M = 1 << 16
    if t in env:
        return env[t]
    k = t[0]
    if k == "const":
        return t[1]
    if k == "bool":
        return int(t[1])
    if k == "cast":
        v = _eval16(t[1], env)
        w = S_INT_WIDTH.get(t[2]) if len(t) > 2 else None
        return v % (1 << w) if w and isinstance(v, int) else v
    if k == "not":
        return (~_eval16(t[1], env)) % (1 << _w(t[1]))
    if k == "pair":
        return (_eval16(t[1], env), _eval16(t[2], env))
    if k == "field" and t[2] in ("0", "1"):
        v = _eval16(t[1], env)
        return v[int(t[2])] if isinstance(v, tuple) else v
    if k == "call":
        nm = t[1].rsplit("::", 1)[-1]
        a = [_eval16(x, env) for x in t[2]]
        if nm == "overflowing_add" and len(a) == 2:
            return ((a[0] + a[1]) % M, int(a[0] + a[1] >= M))
        if nm == "wrapping_add" and len(a) == 2:
            return (a[0] + a[1]) % M
        if nm == "checked_add" and len(a) == 2:
            raise KeyError(t)
    if k == "bin":
        a, b = _eval16(t[2], env), _eval16(t[3], env)
        op = t[1]
        if op in ("Add", "Sub", "Mul"):
            r = {"Add": a + b, "Sub": a - b, "Mul": a * b}[op]
            w = max(_w(t[2]), _w(t[3]))
            if not 0 <= r < (1 << w):
                raise OverflowError("%s overflows u%d (%d)" % (op, w, r))
            return r
        if op in ("BitAnd", "BitOr", "BitXor"):
            return {"BitAnd": a & b, "BitOr": a | b, "BitXor": a ^ b}[op]
        if op in ("Shr", "Shl"):
            return ((a >> b) if op == "Shr" else (a << b)) % (1 << 32)
        if op in ("Eq", "Ne", "Lt", "Le", "Gt", "Ge"):
            return int({"Eq": a == b, "Ne": a != b, "Lt": a < b, "Le": a <= b, "Gt": a > b, "Ge": a >= b}[op])
    if k == "ite":
        return _eval16(t[2], env) if _eval16(t[1], env) else _eval16(t[3], env)
    if k == "switch":
        c = _eval16(t[1], env)
        for v, x in t[2]:
            if v == c:
                return _eval16(x, env)
        return _eval16(t[3], env)
    raise KeyError(t)


def _consts_in(t, out):
    if isinstance(t, tuple):
        if t and t[0] == "const":
            out.add(t[1])
        for x in t[1:]:
            if isinstance(x, tuple):
                _consts_in(x, out)


def k_arith(ctx, prog):
    """The accumulator arithmetic (RFC 1071), decided on the extracted formulas: add_u16 is one's-complement addition
    (end-around carry) on every region of (accumulator, value) delimited by the carry boundary and the constants in
    the formula; add_u8 / add_u32 feed big-endian 16-bit words in wire order; as_u16 is the complement (the two
    representations of zero are interchangeable)."""
    from .. import symx as S
    M = 1 << 16
    au = prog.method("Checksum", "add_u16")
    SELF = ("param", "self")
    try:
        t, _ = S.extract(prog, au, effects=True)
    except S.Unsupported as e:
        ctx.require(False, "K-ARITH: cannot extract Checksum::add_u16 (%s)" % e)
    new0 = None
    if t[0] == "state":
        for p_, v in t[2]:
            if p_ == SELF:
                root, fs = S.with_fields(v)
                if root == SELF and set(fs) == {"0"}:
                    new0 = fs["0"]
    if new0 is None:
        ctx.bad("K-ARITH", "K-ARITH:add_u16", au.span, "add_u16 does not update the accumulator: %s" % S.term_str(t)[:160])
    else:
        cs = {0, 1, 2, 0x7fff, 0x8000, 0xfffe, 0xffff, 0x00ff, 0x0100, 0x1234}
        _consts_in(new0, cs)
        cs = {c % M for c in cs} | {(c + d) % M for c in cs for d in (-1, 1)}
        pts = {(a, b) for a in cs for b in cs} | {(a, (M - a + d) % M) for a in cs for d in (-2, -1, 0, 1)} | {(a, (M - 1 - a + d) % M) for a in cs for d in (-1, 0, 1)}
        ACC, VAL = ("field", SELF, "0"), ("param", "value")
        bad = None
        for a, b in sorted(pts):
            want = (a + b) % M + (1 if a + b >= M else 0)
            try:
                got = _eval16(new0, {ACC: a, VAL: b})
            except OverflowError as e:
                bad = (a, b, "panics (%s)" % e, want)
                break
            except KeyError as e:
                ctx.require(False, "K-ARITH: add_u16 uses an operation the evaluator does not model: %s" % S.term_str(e.args[0])[:100])
            if got != want:
                bad = (a, b, "0x%04x" % got, want)
                break
        if bad:
            ctx.bad("K-ARITH", "K-ARITH:add_u16", au.span, "add_u16: accumulator 0x%04x + value 0x%04x gives %s, one's-complement addition (end-around carry) gives 0x%04x" % bad)
        else:
            ctx.ok("K-ARITH", "K-ARITH:add_u16", au.span, "accumulator' = %s  ==  one's-complement sum on all %d region/boundary points" % (S.term_str(new0), len(pts)))
    # add_u8 / add_u32: word assembly
    a8 = prog.method("Checksum", "add_u8")
    a32 = prog.method("Checksum", "add_u32")
    try:
        t8, _ = S.extract(prog, a8, effects=True)
        t32, _ = S.extract(prog, a32, effects=True)
    except S.Unsupported as e:
        ctx.require(False, "K-ARITH: cannot extract add_u8/add_u32 (%s)" % e)
    A, B_ = ("param", "a"), ("param", "b")
    ps = S.params_of(a8)
    want8 = ("upd", au.key, 0, (SELF, ("call", "core::num::{impl#7}::from_be_bytes", (("agg", "array", (ps[1], ps[2])),))))
    got8 = dict(t8[2]).get(SELF) if t8[0] == "state" else None
    ok8 = got8 is not None and got8[0] == "upd" and got8[1] == au.key and got8[3][0] == SELF and got8[3][1][0] == "call" and \
        got8[3][1][1].rsplit("::", 1)[-1] == "from_be_bytes" and got8[3][1][2] and got8[3][1][2][0][0] == "agg" and got8[3][1][2][0][2] == (ps[1], ps[2])
    (ctx.ok if ok8 else ctx.bad)("K-ARITH", "K-ARITH:add_u8", a8.span,
        "add_u8(a, b) = add_u16(big-endian word a:b)" if ok8 else "add_u8(a, b) = %s, expected add_u16(u16::from_be_bytes([a, b]))" % S.term_str(got8 if got8 is not None else t8)[:160])
    V = S.params_of(a32)[1]
    ix = lambda i: ("index", V, ("const", i))
    want32 = ("upd", a8.key, 0, (("upd", a8.key, 0, (SELF, ix(0), ix(1))), ix(2), ix(3)))
    got32 = dict(t32[2]).get(SELF) if t32[0] == "state" else None
    ok32 = got32 == want32
    (ctx.ok if ok32 else ctx.bad)("K-ARITH", "K-ARITH:add_u32", a32.span,
        "add_u32(v) = add_u8(v[0], v[1]); add_u8(v[2], v[3])" if ok32 else "add_u32(v) = %s, expected the two big-endian words v[0]:v[1], v[2]:v[3] in that order" % S.term_str(got32 if got32 is not None else t32)[:200])
    # as_u16
    asu = prog.method("Checksum", "as_u16")
    try:
        ta, _ = S.extract(prog, asu)
    except S.Unsupported as e:
        ctx.require(False, "K-ARITH: cannot extract as_u16 (%s)" % e)
    cs = {0, 1, 2, 0x7fff, 0x8000, 0xfffe, 0xffff, 0x1234}
    _consts_in(ta, cs)
    cs = {c % M for c in cs} | {(c + d) % M for c in cs for d in (-1, 1)}
    bad = None
    for sum_ in sorted(cs):
        try:
            got = _eval16(ta, {("field", SELF, "0"): sum_})
        except (KeyError, OverflowError) as e:
            ctx.require(False, "K-ARITH: as_u16 cannot be evaluated (%r)" % (e,))
        want = (~sum_) % M
        if got != want and not (want in (0, 0xffff) and got in (0, 0xffff)):
            bad = (sum_, got, want)
            break
    (ctx.bad if bad else ctx.ok)("K-ARITH", "K-ARITH:as_u16", asu.span,
        "as_u16: for the sum 0x%04x the emitted checksum is 0x%04x, the one's complement is 0x%04x" % bad if bad else
        "as_u16 = %s: the one's complement of the sum (0x0000 and 0xffff both denote zero)" % S.term_str(ta))
    ctx.floor("K-ARITH", 4)
    # every other writer of the accumulator must be a congruence-preserving reduction (a "fold") of one wider sum
    adt = prog.adt("utility::Checksum")
    for b in prog.bodies.values():
        if b.key in (au.key,) or b.derived or "::tests" in b.key:
            continue
        ws = [(bb, st) for bb, st in K.assigns_to_field(b, "utility::Checksum", ("0",))]
        for bb, st in ws:
            key = "K-ARITH:fold@%s" % b.key.rsplit("::", 1)[-1]
            # start at the highest dominator of the write from which no loop is reachable (the loop-free tail)
            bg = cfg(b)
            start = bb
            for d_ in bg.dom_chain(bb):
                if any(bg.in_loop(x) for x in bg.reachable_from(d_)):
                    break
                start = d_
            try:
                t, _ = S.extract_from(prog, b, start)
            except S.Unsupported as e:
                ctx.require(False, "K-ARITH: writer of the accumulator in %s cannot be reduced to a formula (%s)" % (b.pretty, e))
            val = None
            if t[0] == "state":
                for p_, v in t[2]:
                    root, fs = S.with_fields(v) if v[0] == "with" else (None, {})
                    if "0" in fs:
                        val = fs["0"]
            leaves = S.atoms(val, lambda x: x[0] == "local") if val is not None else []
            if val is None or len(leaves) != 1:
                ctx.require(False, "K-ARITH: unrecognised update of the checksum accumulator in %s (%s): no verdict" % (b.pretty, S.term_str(val) if val else "?"))
            leaf = leaves[0]
            w = S.INT_WIDTH.get(b.local_tystr(leaf[1]), 32)
            cs = {0, 1, 0xfffe, 0xffff, 0x10000, 0x10001, 0x1fffd, 0x1fffe, 0x1ffff, 0x20000, 0x2fffd, 0xfffe0001, 0xffff0000, 0xfffeffff, 0xffffffff, 0x12345678}
            _consts_in(val, cs)
            cs = sorted({c % (1 << w) for c in cs} | {(c + d) % (1 << w) for c in cs for d in (-1, 1)})
            bad = None
            for x in cs:
                try:
                    got = int(S.concrete(val, {leaf: x}, w))
                except S.Panics as e:
                    bad = (x, "panics (%s)" % e)
                    break
                except KeyError as e:
                    ctx.require(False, "K-ARITH: fold in %s uses an operation the evaluator does not model (%s)" % (b.pretty, S.term_str(e.args[0])[:80]))
                if not (0 <= got < M and got % 0xffff == x % 0xffff and (got != 0 or x == 0)):
                    bad = (x, "0x%04x" % got)
                    break
            if bad:
                ctx.bad("K-ARITH", key, st[3], "%s reduces the wide sum 0x%x to %s, which is not its one's-complement value 0x%04x: a carry out of the fold is dropped (fold until no carry remains)" % (
                    b.pretty.rsplit("::", 1)[-1], bad[0], bad[1], (bad[0] % 0xffff) or (0xffff if bad[0] else 0)))
            else:
                ctx.ok("K-ARITH", key, st[3], "accumulator := %s is a one's-complement reduction of the wide sum (all %d critical points)" % (S.term_str(val), len(cs)))
