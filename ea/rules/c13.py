"""C13 — start barrier and exit status (DESIGN.md §4 C13)."""
from .. import facts as F
from ..cfg import cfg
from .. import dep
from . import common as K

LEVEL = "other"
EXPLANATION = (
    "Static must-pass-through analysis on the pre-transform MIR of every impl of Protocol::start in both crates: "
    "every call (or closure/task creation) from which the call graph reaches the wire (PciSession::send_pci / "
    "PciSession::receive) must be dominated by the Ready edge of the poll of tokio Barrier::wait, and every normal "
    "return passes through that edge exactly once. Plus structural rules on run_internet (receiver before spawn, barrier "
    "sized by the protocol counts, timeout wrapper; the timed-out status comes either from one timer task that sleeps the "
    "timeout and then requests TimedOut, or from the wait itself under tokio::time::timeout while run_internet keeps a "
    "Shutdown handle alive; (I-FIRST) only the first shutdown request is broadcast). Decides the barrier sentence for all schedules; does not decide "
    "the numeric timing of the timeout nor which of several racing shutdown requests is first.")
ASSUMPTIONS = [
    "user-supplied closures stored in fields (OnReceive callbacks, hooks) are not invoked before the barrier",
    "virtual calls are expanded to every workspace impl of the trait method (over-approximation)",
]


def wire_reaching(ctx):
    cg = ctx.cg()
    sinks = [K.SEND_PCI, K.PCI_RECEIVE]
    for s in sinks:
        ctx.prog().body(s)
    return cg.can_reach(sinks), sinks


def run(ctx):
    prog = ctx.prog()
    cg = ctx.cg()
    reach_wire, sinks = wire_reaching(ctx)

    # ---------------------------------------------------------------- I-BARRIER
    impls = K.start_impls(prog)
    ctx.floor("I-BARRIER", 34)
    for wrapper, co, kids in impls:
        loc = wrapper.span
        if co is None:
            ctx.bad("I-BARRIER", "I-BARRIER:%s" % wrapper.key, loc,
                    "impl of Protocol::start is not the async_trait shape fn{Box::pin(coroutine)} (%d coroutine children)" % len(kids))
            continue
        g = cfg(co)
        aps = K.await_points(co)
        barrier = [a for a in aps if a["callee"] == K.BARRIER_WAIT_POLL]
        key = "I-BARRIER:%s" % wrapper.key
        if not barrier:
            ctx.bad("I-BARRIER", key, loc, "start never awaits the initialisation barrier (the barrier is sized to the number of protocols, so the simulation hangs or starts early)")
            continue
        ready = [a["ready_bb"] for a in barrier]
        problems = []
        # (a) every send-capable site is dominated by a barrier Ready edge
        sites = []
        for bb, t in K.calls(co):
            tg = cg.targets_of_term(t)
            hit = [x for x in tg if x in reach_wire]
            if hit:
                sites.append((bb, F.call_loc(t), F.callee_key(t), hit[0]))
        for bb, ck in K.closure_creations(co):
            if ck in reach_wire:
                sites.append((bb, K.loc_of_block(co, bb), "creation of " + ck, ck))
        for bb, sloc, what, first in sites:
            if not any(g.dominates(r, bb) for r in ready):
                path = cg.path(first, sinks) or [first]
                problems.append("send-capable %s (bb%d, %s) is not dominated by the completion of Barrier::wait; path to the wire: %s" % (
                    K.short(what), bb, sloc, " -> ".join(K.short(p) for p in path)))
        # (b) every construction of the `Ok` return value is behind the barrier (error returns via
        #     `?`/`return Err` before the barrier are not constrained: they abort the whole run)
        ret_args = co.local_ty(0).get("a")
        oks = [bb for bb, blk in enumerate(co.blocks) if not blk["c"] for st in blk["s"]
               if st[0] == "a" and st[2][0] == "agg" and st[2][1].get("d") == "core::result::Result"
               and st[2][1].get("v") == "Ok" and st[2][1].get("a") == ret_args]
        if not oks:
            problems.append("no `Ok` return value is constructed (anchor lost)")
        for bb in oks:
            if not any(g.dominates(r, bb) for r in ready):
                problems.append("`Ok(())` (bb%d, %s) can be returned without passing Barrier::wait" % (bb, K.loc_of_block(co, bb)))
        # (c) awaited at most once per path
        for a in barrier:
            for b2 in barrier:
                if g.reaches(a["ready_bb"], b2["poll_bb"]):
                    problems.append("Barrier::wait can be awaited more than once on a path (bb%d -> bb%d)" % (a["ready_bb"], b2["poll_bb"]))
        if problems:
            ctx.bad("I-BARRIER", key, loc, "; ".join(problems), {"sites": [s[1] for s in sites]})
        else:
            ctx.ok("I-BARRIER", key, loc, "%d send-capable sites, all dominated by the barrier; every Ok return passes it once" % len(sites))

    # ---------------------------------------------------------------- I-SPAWN-ALL: Machine::start starts every protocol
    ms = prog.body("elvis_core::machine::{impl#0}::start::{closure#0}")
    vstart = [(bb, t) for bb, t in K.calls(prog.body("elvis_core::machine::{impl#0}::start::{closure#0}::{closure#0}"))
              if (F.callee(t) or {}).get("fn") == K.PROTOCOL_START]
    it = K.calls_to(ms, "machine::{impl#0}::iter")
    g = cfg(ms)
    creations = [bb for bb, ck in K.closure_creations(ms) if ck.endswith("start::{closure#0}::{closure#0}")]
    spawns = [(bb, t) for bb, t in K.calls(ms) if (F.callee(t) or {}).get("pretty", "").startswith("tokio::task::JoinSet") and F.callee(t)["pretty"].endswith("::spawn")]
    okk = bool(vstart) and bool(it) and creations and spawns and all(g.in_loop(bb) for bb in creations) and all(g.in_loop(bb) for bb, _ in spawns)
    (ctx.ok if okk else ctx.bad)("I-SIZE", "I-SIZE:Machine::start", ms.span,
        "Machine::start iterates Machine::iter() and spawns one task per protocol calling dyn Protocol::start" if okk else
        "Machine::start no longer spawns one Protocol::start per element of Machine::iter()")

    # ---------------------------------------------------------------- I-SIZE / I-RECV / run_internet
    ri = prog.body("elvis_core::internet::run_internet::{closure#0}")
    g = cfg(ri)
    bn = K.calls_to(ri, "tokio::sync::barrier::{impl#0}::new")
    ctx.require(len(bn) == 1, "run_internet: expected exactly one Barrier::new, found %d" % len(bn))
    at = dep.origins(ri, F.call_args(bn[0][1])[0])
    has_sum = dep.has_call(at, "Iterator::sum") or any(a[0] == "call" and a[1] and a[1].endswith("::sum") for a in at)
    # the mapped closure must call Machine::protocol_count
    mapc = [b for b in prog.children(ri) if any(K.calls_to(b, "machine::{impl#0}::protocol_count"))]
    has_machines = dep.has_field(at, ri.key, "machines") or any(a[0] == "upvar" and a[1] == "machines" for a in at) or dep.has_param(at, "machines")
    okk = has_sum and bool(mapc) and any(a[0] == "agg" and a[1] == mapc[0].key for a in at) if mapc else False
    # exactly the sum: no arithmetic, constants or other calls between the sum and Barrier::new
    allowed_calls = ("Iterator::map", "Iterator::sum", "slice::{impl#0}::iter", "::deref", "::into_iter", "::as_ref", "::len")
    extra = [a for a in at if a[0] in ("op", "const", "cast") or (a[0] == "call" and not any(a[1].endswith(s) for s in allowed_calls))]
    okk = okk and has_machines and not extra
    if mapc:
        mb = mapc[0]
        ro = dep.origins(mb, [0, []])
        okk = okk and not any(a[0] in ("op", "const") for a in ro)
    (ctx.ok if okk else ctx.bad)("I-SIZE", "I-SIZE:run_internet", F.call_loc(bn[0][1]),
        "Barrier::new(n): n originates from sum over machines of Machine::protocol_count()" if okk else
        "Barrier::new(n): n does not originate from the sum of Machine::protocol_count() over the machines (origins: %s)" % sorted(a for a in at if a[0] in ("call", "const", "agg"))[:8])
    pc = prog.body("elvis_core::machine::{impl#0}::protocol_count")
    at = set()
    for bb, blk in enumerate(pc.blocks):
        for st in blk["s"]:
            if st[0] == "a" and st[1] == [0, []]:
                at |= dep.origins(pc, st[2][1]) if st[2][0] == "use" else set()
        if blk["t"][0] == "call" and F.call_dest(blk["t"]) == [0, []]:
            at |= dep.origins(pc, [0, []])
    okk = dep.has_field(at, "Machine", "protocols") and any(a[0] == "call" and a[1].endswith("::len") for a in at) and not any(a[0] == "op" for a in at)
    (ctx.ok if okk else ctx.bad)("I-SIZE", "I-SIZE:protocol_count", pc.span,
        "protocol_count() = self.protocols.len() (the map Machine::iter walks)" if okk else "protocol_count() is no longer exactly self.protocols.len()")

    # I-RECV: the receiver exists before any machine is started
    rc = K.calls_to(ri, "shutdown::{impl#0}::receiver")
    spawn_starts = [(bb, t) for bb, t in K.calls_to(ri, "machine::{impl#0}::start")]
    ctx.require(len(rc) >= 1 and len(spawn_starts) >= 1, "run_internet: anchors receiver()/Machine::start not found")
    okk = all(any(g.dominates(rbb, sbb) and rbb != sbb for rbb, _ in rc) for sbb, _ in spawn_starts)
    # the timer task must also come after the receiver
    timer = [bb for bb, ck in K.closure_creations(ri) if any(K.calls_to(prog.body(ck), "shut_down_with_status"))]
    okk2 = all(any(g.dominates(rbb, tb) for rbb, _ in rc) for tb in timer)
    (ctx.ok if okk and okk2 else ctx.bad)("I-RECV", "I-RECV:run_internet", F.call_loc(rc[0][1]),
        "shutdown.receiver() dominates every Machine::start and the timeout task" if okk and okk2 else
        "a machine (or the timeout task) can be started before the shutdown receiver exists: an early shutdown request is lost")
    # get_status returns on the first Ok
    gs = prog.body("elvis_core::internet::get_status::{closure#0}")
    recv = [a for a in K.await_points(gs) if "broadcast" in a["callee"] and "recv" in a["callee"]]
    ctx.require(len(recv) == 1, "get_status: expected one awaited broadcast recv, found %d" % len(recv))
    # the Ready value is matched; the Ok arm must reach return without passing the poll again
    gg = cfg(gs)
    ok_ret = gg.all_paths_through(recv[0]["ready_bb"], [recv[0]["poll_bb"]], _lagged_blocks(gs))
    (ctx.ok if ok_ret else ctx.bad)("I-RECV", "I-RECV:get_status", gs.span,
        "get_status polls recv again only on RecvError::Lagged; Ok(status) and Closed return" if ok_ret else
        "get_status may loop after an Ok(status) or Closed result (first request no longer wins)")

    # ---------------------------------------------------------------- I-FIRST
    # "the status of the first shutdown request": the channel is bounded and get_status skips Lagged, so the first
    # request must be the only one ever broadcast: every notify.send is dominated by the winning arm of an atomic
    # test-and-set of the Shutdown's flag (and the flag is released only when that send failed)
    sends = []
    for b in prog.bodies.values():
        for bb, t in K.calls(b):
            ck = F.callee_key(t) or ""
            if ck.startswith("tokio::sync::broadcast::") and ck.rsplit("::", 1)[-1] == "send" and dep.has_field(dep.arg_origins(b, bb, 0), "Shutdown", "notify"):
                sends.append((b, bb, t))
    ctx.require(len(sends) >= 1, "I-FIRST: no broadcast send on Shutdown.notify found")
    for b, bb, t in sends:
        bg = cfg(b)
        won = None
        for s_ in bg.dom_chain(bb):
            if b.term(s_)[0] != "switch":
                continue
            c = dep.switch_condition(b, s_)
            if not (c and c["kind"] == "call"):
                continue
            ck = F.callee_key(c["term"]) or ""
            nm = ck.rsplit("::", 1)[-1]
            if "atomic" not in ck or nm not in ("swap", "compare_exchange", "fetch_or", "compare_exchange_weak"):
                continue
            if not dep.has_field(dep.arg_origins(b, c["call_bb"], 0), "Shutdown", "requested"):
                continue
            tr, fa = dep.bool_branches(b, s_)
            # swap(true)/fetch_or(true) return the previous value: the request is first on the `false` arm
            if nm in ("swap", "fetch_or") and F.const_int(F.call_args(c["term"])[1]) == 1 and bg.dominates(fa, bb) and not bg.dominates(tr, bb):
                won = s_
        key = "I-FIRST:send@%s" % b.key.rsplit("::", 1)[-1]
        if won is None:
            ctx.bad("I-FIRST", key, F.call_loc(t),
                    "a shutdown status is broadcast in %s without first winning the `requested` flag: later requests also enter the bounded channel and, once it overflows before run_internet polls it, a later status is returned instead of the first" % b.pretty)
        else:
            ctx.ok("I-FIRST", key, F.call_loc(t), "broadcast only on the arm where requested.swap(true) returned false: at most one status is ever in the channel")
    # the flag is only ever cleared where the send failed
    for b in prog.bodies.values():
        for bb, t in K.calls(b):
            ck = F.callee_key(t) or ""
            if "atomic" in ck and ck.rsplit("::", 1)[-1] == "store" and dep.has_field(dep.arg_origins(b, bb, 0), "Shutdown", "requested"):
                bg = cfg(b)
                sb = [x for x in sends if x[0] is b]
                okk = F.const_int(F.call_args(t)[1]) == 0 and any(bg.dominates(sbb, bb) for _b, sbb, _t in sb) and _on_err_arm(b, bg, bb, sb)
                (ctx.ok if okk else ctx.bad)("I-FIRST", "I-FIRST:release@%s" % b.key.rsplit("::", 1)[-1], F.call_loc(t),
                    "the flag is released only when the broadcast failed (nobody listening yet)" if okk else
                    "the first-request flag is cleared outside the failed-send arm: a later request can be broadcast after the first")

    # ---------------------------------------------------------------- I-TIMEOUT
    rt = prog.body("elvis_core::internet::run_internet_with_timeout::{closure#0}")
    aps = K.await_points(rt)
    probs = []
    if len(aps) != 1:
        probs.append("expected exactly one await, found %d" % len(aps))
    else:
        ty = K.awaited_future_type(rt, aps[0]) or ""
        if "tokio::time::timeout::Timeout" not in ty and "Timeout<" not in ty:
            probs.append("the awaited future is %s, not tokio::time::Timeout<_>" % ty)
    to = K.calls_to(rt, "tokio::time::timeout::timeout")
    if len(to) != 1:
        probs.append("expected one tokio::time::timeout call")
    else:
        a = dep.origins(rt, F.call_args(to[0][1])[0])
        if not (any(x[0] == "upvar" and x[1] == "duration" for x in a) or dep.has_param(a, "duration")):
            probs.append("timeout duration does not originate from the `duration` parameter")
        if not any(x[0] == "call" and x[1] and "from_secs" in x[1] for x in a) or 1 not in dep.consts_of(a):
            probs.append("timeout is not duration + from_secs(1)")
        fut = dep.origins(rt, F.call_args(to[0][1])[1])
        if not any(x[0] == "call" and x[1] and x[1].endswith("internet::run_internet") for x in fut):
            probs.append("the future under the timeout is not run_internet(..)")
    # Err(elapsed) -> TimedOut
    tagg = [st for blk in rt.blocks if not blk["c"] for st in blk["s"] if st[0] == "a" and st[2][0] == "agg" and st[2][1].get("d", "").endswith("shutdown::ExitStatus")]
    if not any(st[2][1]["v"] == "TimedOut" for st in tagg) or any(st[2][1]["v"] != "TimedOut" for st in tagg):
        probs.append("the elapsed arm does not yield exactly ExitStatus::TimedOut")
    (ctx.bad if probs else ctx.ok)("I-TIMEOUT", "I-TIMEOUT:run_internet_with_timeout", rt.span,
        "; ".join(probs) if probs else "run_internet polled only under tokio::time::timeout(duration + 1s); elapsed maps to TimedOut")
    # timer task: sleep(duration) then shut_down_with_status(TimedOut)
    probs = []
    if len(timer) == 0:
        # the other way of producing the timed-out status: the wait itself under tokio::time::timeout(duration, ..)
        probs += _timeout_wrapper_form(prog, ri)
    elif len(timer) != 1:
        probs.append("expected one timeout task in run_internet, found %d" % len(timer))
    else:
        tk = [prog.body(ck) for bb, ck in K.closure_creations(ri) if any(K.calls_to(prog.body(ck), "shut_down_with_status"))][0]
        aps = K.await_points(tk)
        sd = K.calls_to(tk, "shut_down_with_status")
        if len(aps) != 1 or "sleep" not in (K.awaited_future_type(tk, aps[0]) or "").lower():
            probs.append("timer task does not await exactly one tokio Sleep")
        elif not all(cfg(tk).dominates(aps[0]["ready_bb"], bb) for bb, _ in sd):
            probs.append("shut_down_with_status is not dominated by the completion of sleep(duration)")
        sl = K.calls_to(tk, "tokio::time::sleep::sleep")
        if sl:
            a = dep.origins(tk, F.call_args(sl[0][1])[0])
            if not any(x[0] == "upvar" and x[1] == "duration" for x in a) or any(x[0] == "op" for x in a):
                probs.append("sleep duration is not the unmodified timeout")
        for bb, t in sd:
            a = dep.origins(tk, F.call_args(t)[1])
            if not any(x[0] == "agg" and x[2] == "TimedOut" for x in a):
                probs.append("timer task does not send ExitStatus::TimedOut")
        # the task is created on the Some(duration) arm only: trivially by construction (uses `duration`)
    # no way out of run_internet that hands back a status of its own making: what it returns was received on the
    # shutdown channel (or is the wrapper's TimedOut)
    own = [(bb, st) for bb, st in K.aggregates(ri, "shutdown::ExitStatus") if st[2][1].get("v") != "TimedOut"]
    for bb, st in own:
        probs.append("run_internet returns ExitStatus::%s of its own making at %s: on that path a run that was given a timeout ends without the timed-out status (and before the timeout)" % (st[2][1].get("v"), st[3]))
    (ctx.bad if probs else ctx.ok)("I-TIMEOUT", "I-TIMEOUT:timer-task", ri.span,
        "; ".join(probs) if probs else "timer task: sleep(duration) completes before shut_down_with_status(TimedOut)")


def _timeout_wrapper_form(prog, ri):
    """run_internet without a timer task: accepted when the wait runs under tokio::time::timeout(<the timeout>, ..), the
    elapsed case yields TimedOut, and a Shutdown handle that run_internet never gives away stays alive meanwhile (otherwise
    the broadcast channel closes as soon as every start() has returned and the run reports Exited long before the timeout)."""
    probs = []
    to = K.calls_to(ri, "tokio::time::timeout::timeout")
    if len(to) != 1:
        return ["no timer task and no tokio::time::timeout in run_internet: nothing produces the timed-out status"]
    a = dep.origins(ri, F.call_args(to[0][1])[0])
    if not (dep.has_param(a, "timeout") or any(x[0] == "upvar" and x[1] == "timeout" for x in a)) or any(x[0] == "op" for x in a):
        probs.append("the duration given to tokio::time::timeout is not the unmodified timeout")
    tagg = [st for blk in ri.blocks if not blk["c"] for st in blk["s"] if st[0] == "a" and st[2][0] == "agg" and st[2][1].get("d", "").endswith("shutdown::ExitStatus")]
    if not any(st[2][1]["v"] == "TimedOut" for st in tagg):
        probs.append("the elapsed case does not yield ExitStatus::TimedOut")
    owned = [l for l in range(len(ri.locals)) if "shutdown::Shutdown" in ri.local_tystr(l) and not ri.local_tystr(l).startswith(("&", "*"))
             and "closure" not in ri.local_tystr(l) and "Receiver" not in ri.local_tystr(l)]
    moved = set()

    def ops(x):
        if isinstance(x, list):
            if len(x) == 2 and x[0] == "mv" and isinstance(x[1], list) and len(x[1]) == 2 and not x[1][1] and isinstance(x[1][0], int):
                moved.add(x[1][0])
            for y in x:
                ops(y)
        elif isinstance(x, dict):
            for y in x.values():
                ops(y)
    for blk in ri.blocks:
        if blk["c"]:
            continue
        for st in blk["s"]:
            ops(st)
        ops(blk["t"])
    assigned = set()
    for blk in ri.blocks:
        if blk["c"]:
            continue
        for st in blk["s"]:
            if st[0] == "a" and not st[1][1]:
                assigned.add(st[1][0])
        d = F.call_dest(blk["t"]) if blk["t"][0] == "call" else None
        if d and not d[1]:
            assigned.add(d[0])
    g = cfg(ri)
    early = {blk["t"][1][0] for bb, blk in enumerate(ri.blocks) if not blk["c"] and blk["t"][0] == "drop" and not blk["t"][1][1] and g.dominates(bb, to[0][0])}
    kept = [l for l in owned if l in assigned and l not in moved and l not in early]
    if not kept:
        probs.append("no timer task holds a Shutdown handle and run_internet keeps none while it waits: once every start() has "
                     "returned the channel is closed and the run reports Exited at once instead of TimedOut at the timeout")
    return probs


def _lagged_blocks(gs):
    """Blocks of get_status reached only when the recv result is Err(RecvError::Lagged(_))."""
    out = []
    for bb, blk in enumerate(gs.blocks):
        for st in blk["s"]:
            pass
    # identify by downcast projections to `Lagged` in statements/places, or switch on the RecvError discriminant
    for bb, blk in enumerate(gs.blocks):
        if blk["c"]:
            continue
        t = blk["t"]
        if t[0] == "switch":
            c = dep.switch_condition(gs, bb)
            if c and c["kind"] == "discr":
                ty = _place_ty(gs, c["place"])
                if "RecvError" in ty:
                    # RecvError { Closed = 0, Lagged(u64) = 1 }
                    out.append(dep.switch_target(gs, bb, 1))
    return out


def _place_ty(body, pl):
    # type of the place after projections: take the last field projection's type or the local type
    for e in reversed(pl[1]):
        if isinstance(e, list) and e[0] == "f":
            return body.tystr(e[4])
    return body.local_tystr(pl[0])



def _on_err_arm(b, bg, bb, sends):
    """bb lies on the Err arm of the match on the result of one of the sends."""
    for _b, sbb, t in sends:
        d = F.call_dest(t)
        for s_ in bg.dom_chain(bb):
            if b.term(s_)[0] != "switch":
                continue
            c = dep.switch_condition(b, s_)
            if c and c["kind"] == "discr" and c["place"][0] == d[0]:
                err = K.skip_false_edges(b, dep.switch_target(b, s_, 1))
                if bg.dominates(err, bb):
                    return True
    return False
