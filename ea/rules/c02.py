"""C02 — socket I/O across the full stack is intact, ordered and bounded (DESIGN.md §4 C02)."""
from .. import facts as F
from ..cfg import cfg
from .. import dep
from . import common as K

LEVEL = "other"
EXPLANATION = (
    "Structural rules on the socket layer: (S-RUNTIME) no call of a tokio API whose behaviour depends on the runtime flavour or worker count (block_in_place, block_on, spawn_local, ...) outside the program's entry point; (S-ORDER) on the write path (Socket::send, every Session::send of the "
    "socket/TCP layers) the hand-off of a write — the call to the next Session::send or the channel send that carries "
    "Instruction::Outgoing to the TCB task — never sits inside a closure/async block handed to tokio::spawn, and the TCB "
    "task consumes instructions from a FIFO channel: enqueue order = program order for every runtime flavour; "
    "(S-NOLOSS) a hand-off that can refuse a write (try_send on a bounded queue) makes send() fail instead of reporting success; (S-BOUND) in Socket::recv every amount appended to the result inside the accumulation loop is bounded by a value "
    "that depends on the buffer's current length, so recv(n) cannot return more than n; (S-REMAINDER) whenever a message "
    "is truncated the remainder is sliced at the same bound and stored; (S-FIFO) the queue that parks messages arriving before accept() is filled at one end and replayed from the other; (S-PEER) SocketAPI::demux looks the session up "
    "under the datagram's (local, remote) endpoints and consults listen bindings only on the miss. Not decided: "
    "byte-exact stream equality across the stack, datagram integrity and loss recovery (runtime behaviour).")
ASSUMPTIONS = ["tokio mpsc channels are FIFO per sender"]

SPAWN = "tokio::task::spawn::spawn"


def _closure_tree(prog, key, seen=None):
    """All closure/coroutine bodies created (transitively) inside body `key`."""
    seen = seen if seen is not None else set()
    b = prog.bodies.get(key)
    if b is None:
        return seen
    for bb, ck in K.closure_creations(b):
        if ck not in seen:
            seen.add(ck)
            _closure_tree(prog, ck, seen)
    return seen


def _handoffs(body):
    """Calls that pass a write on: dyn/static Session::send, mpsc (Unbounded)Sender::send/try_send."""
    out = []
    for bb, t in K.calls(body):
        c = F.callee(t)
        if not c:
            continue
        ck = c.get("res") or c["fn"]
        if c["fn"] == K.SESSION_SEND or (ck.startswith("tokio::sync::mpsc::") and ck.rsplit("::", 1)[-1] in ("send", "try_send", "blocking_send", "send_timeout")) or \
           ("{closure#" in ck and "tokio::sync::mpsc::" in ck and "::send::" in ck):
            out.append((bb, t, ck))
    return out


FLAVOUR_APIS = {
    "block_in_place": "tokio::task::block_in_place panics on a current_thread runtime",
    "block_on": "block_on inside the simulation panics (a runtime cannot be entered from within a runtime)",
    "spawn_local": "spawn_local needs a LocalSet: it panics on a plain runtime of either flavour",
    "run_until": "LocalSet::run_until pins the tasks to one thread: behaviour depends on how the simulation was started",
    "runtime_flavor": "the code branches on the runtime flavour",
    "num_workers": "the code branches on the number of worker threads",
}


def s_runtime(ctx):
    """S-RUNTIME (who-may-call, expected count zero): nothing in the library crate or in the applications calls a tokio
    API whose behaviour depends on the runtime flavour or worker count; the only block_on is the program's entry point."""
    prog = ctx.prog()
    n = 0
    for b in prog.bodies.values():
        for bb, t in K.calls(b):
            k = F.callee_key(t) or ""
            if not k.startswith("tokio::"):
                continue
            n += 1
            name = k.rsplit("::", 1)[-1]
            if name.startswith("{closure"):
                continue
            if name in FLAVOUR_APIS:
                ok = name == "block_on" and b.key == "elvis::main"
                (ctx.ok if ok else ctx.bad)("S-RUNTIME", "S-RUNTIME:%s@%s" % (name, b.key), F.call_loc(t),
                    "the program's entry point starts the runtime" if ok else
                    "%s calls %s: %s, so what a socket delivers depends on the runtime the simulation runs on" % (b.pretty, K.short(k), FLAVOUR_APIS[name]))
    ctx.require(n >= 50, "S-RUNTIME: only %d tokio call sites seen (facts incomplete)" % n)
    ctx.ok("S-RUNTIME", "S-RUNTIME:scan", None, "%d tokio call sites in both crates, none flavour dependent outside main" % n)


def run(ctx):
    prog = ctx.prog()
    s_runtime(ctx)
    # the stream a socket reads is the TCB's: the reordering heap pops segments in circular sequence order (shared with C01 / C12)
    from . import c01
    c01.check_heap_order(ctx, "S-HEAPORD")
    # ---------------------------------------------------------------- S-ORDER
    writers = [prog.method("Socket", "send")]
    for b in prog.trait_impl_bodies(K.SESSION_SEND):
        if b.key.startswith("elvis_core::protocols::socket_api") or b.key.startswith("elvis_core::protocols::tcp::") or b.key.startswith("elvis_core::protocols::tcp_"):
            writers.append(b)
    ctx.require(len(writers) >= 3, "S-ORDER: expected Socket::send + SocketSession::send + TcpSession::send, found %d" % len(writers))
    for b in writers:
        name = b.pretty.replace("protocols::", "")
        st = b.types[b.self_ty]["d"].rsplit("::", 1)[-1] if b.self_ty is not None and b.types[b.self_ty].get("k") == "adt" else "?"
        key = "S-ORDER:%s::%s" % (st, b.name)
        direct = _handoffs(b)
        detached = []
        for ck in sorted(_closure_tree(prog, b.key)):
            cb = prog.bodies[ck]
            for bb, t, hk in _handoffs(cb):
                detached.append((cb, bb, hk))
        spawns = K.calls_to(b, SPAWN)
        if detached and spawns:
            cb, bb, hk = detached[0]
            ctx.bad("S-ORDER", key, K.loc_of_block(b, spawns[0][0]),
                    "%s hands the write on (%s) from inside a task it spawns: the order in which back-to-back writes are enqueued depends on the scheduler, not on program order" % (name, K.short(hk)))
        elif not direct and not detached:
            ctx.bad("S-ORDER", key, b.span, "%s no longer hands the write on at all (anchor lost)" % name)
        elif detached:
            ctx.bad("S-ORDER", key, b.span, "%s hands the write on from a nested closure (%s)" % (name, detached[0][0].pretty))
        else:
            ctx.ok("S-ORDER", key, b.span, "write handed on synchronously (%s)" % ", ".join(sorted({K.short(h[2]).rsplit("::", 2)[-2] + "::" + h[2].rsplit("::", 1)[-1] for h in direct})))
        # S-NOLOSS: a hand-off that can refuse the write (try_send on a bounded queue) must make send() fail
        for bb, t, hk in direct:
            nm = hk.rsplit("::", 1)[-1]
            if not hk.startswith("tokio::sync::mpsc::") or nm not in ("try_send", "send_timeout"):
                continue
            lkey = "S-NOLOSS:%s::%s" % (st, b.name)
            g = cfg(b)
            d = F.call_dest(t)
            sw = [s_ for s_ in range(len(b.blocks)) if b.term(s_)[0] == "switch" and (dep.switch_condition(b, s_) or {}).get("kind") == "discr" and dep.switch_condition(b, s_)["place"][0] == d[0]]
            errs = [x for x, stt in K.aggregates(b, "core::result::Result", "Err") if stt[1] == [0, []] or True]
            okk = False
            if len(sw) == 1:
                err_arm = K.skip_false_edges(b, dep.switch_target(b, sw[0], 1))
                okk = bool(errs) and g.all_paths_through(err_arm, g.returns, errs)
            (ctx.ok if okk else ctx.bad)("S-NOLOSS", lkey, F.call_loc(t),
                "a refused hand-off makes send() return an error" if okk else
                "%s hands the write to a bounded queue with %s and reports success even when the queue refuses it: the bytes of that write are lost for good (nothing retransmits what never reached the TCB) while later writes are delivered" % (name, nm))
    # the TCB task: Outgoing instructions reach Tcb::send in channel order
    hi = prog.one("protocols::tcp::tcp_session::handle_instruction")
    ts = K.calls_to(hi, "tcb::{impl#0}::send")
    okk = len(ts) == 1 and not _closure_tree(prog, hi.key)
    (ctx.ok if okk else ctx.bad)("S-ORDER", "S-ORDER:handle_instruction", hi.span,
        "handle_instruction applies Outgoing(message) with Tcb::send directly" if okk else "Outgoing instructions are not applied to the TCB directly/once")
    task = [prog.bodies[k] for k in _closure_tree(prog, prog.method("TcpSession", "new").key) if K.calls_to(prog.bodies[k], hi.key)]
    probs = []
    if len(task) != 1:
        probs.append("expected one TCB task calling handle_instruction, found %d" % len(task))
    else:
        tk = task[0]
        for bb, t in K.calls_to(tk, hi.key):
            o = dep.arg_origins(tk, bb, 0)
            if not any(a[0] == "call" and a[1] and "tokio::sync::mpsc::" in a[1] and ("recv" in a[1]) for a in o):
                probs.append("an instruction handled by the TCB task does not come from the channel receiver")
        if K.calls_to(tk, SPAWN):
            probs.append("the TCB task spawns further tasks")
    (ctx.bad if probs else ctx.ok)("S-ORDER", "S-ORDER:TcpSession-task", prog.method("TcpSession", "new").span, "; ".join(probs) if probs else
        "the TCB task takes instructions from the mpsc receiver and handles them in arrival order")

    # ---------------------------------------------------------------- S-BOUND / S-REMAINDER
    rc = prog.coroutine_of(prog.method("Socket", "recv"))
    g = cfg(rc)
    # the accumulation buffer: the Vec<u8> local that the Ok(..) result carries (whatever it is called)
    cands = set()
    for bb, st in K.aggregates(rc, "core::result::Result", "Ok"):
        for o in st[2][2]:
            r = ndl_root(rc, o)
            if r is not None and rc.local_tystr(r).startswith("alloc::vec::Vec<u8"):
                cands.add(r)
    ctx.require(len(cands) == 1, "Socket::recv: the result buffer (Vec<u8> returned in Ok) is not a single local (%d candidates)" % len(cands))
    buf = cands.pop()
    exts = []
    for bb, t in K.calls(rc):
        c = F.callee(t)
        if c and c["fn"].endswith("iter::traits::collect::Extend::extend") and ndl_root(rc, F.call_args(t)[0]) == buf:
            exts.append((bb, t))
    ctx.require(len(exts) >= 2, "Socket::recv: expected appends to the result buffer before and inside the loop, found %d" % len(exts))
    takes = {bb: t for bb, t in K.calls(rc) if (F.callee(t) or {}).get("fn", "").endswith("Iterator::take")}
    n_loop = 0
    for bb, t in exts:
        in_loop = g.in_loop(bb)
        src = dep.arg_origins(rc, bb, 1, through_calls=True)
        tk = [tb for tb in takes if any(a[0] == "call" and a[2] == tb for a in src) and g.dominates(tb, bb)]
        tk.sort(key=lambda tb: len(g.dom_chain(tb)), reverse=True)   # the nearest dominating take feeds this append
        loc = F.call_loc(t)
        if tk:
            ko = dep.arg_origins(rc, tk[0], 1)
            bound_ok = _depends_on_buf_len(rc, ko, buf) or not in_loop
            what = "take(k)"
        else:
            # whole-message append: must be guarded by message.len() <= k with k depending on buf.len()
            guard = None
            for s in g.dom_chain(bb):
                if rc.term(s)[0] == "switch":
                    info = K.compare_info(rc, s)
                    if info:
                        oa = dep.origins(rc, info["a"], at=K.at_term(rc, s))
                        ob = dep.origins(rc, info["b"], at=K.at_term(rc, s))
                        for succ in (info["true"], info["false"]):
                            rel = K.relation_on(info, succ)
                            if rel and rel[0] in ("Le", "Lt") and g.dominates(succ, bb):
                                xo, yo = (oa, ob) if rel[1] is info["a"] else (ob, oa)
                                if dep.has_call(xo, "message::{impl#0}::len"):
                                    guard = (s, yo)
            if guard is None:
                bound_ok = False
                ko = frozenset()
            else:
                ko = guard[1]
                bound_ok = _depends_on_buf_len(rc, ko, buf) or not in_loop
            what = "whole message (guard len <= k)"
        if in_loop:
            n_loop += 1
        key = "S-BOUND:recv:%s:%s" % ("loop" if in_loop else "prefix", "take" if tk else "whole")
        if bound_ok and (dep.has_param(ko, "bytes") or any(a[0] == "upvar" and a[1] == "bytes" for a in ko)):
            ctx.ok("S-BOUND", key, loc, "%s bounded by %s" % (what, "bytes - buf.len()" if in_loop else "bytes (buffer still empty)"))
        else:
            ctx.bad("S-BOUND", key, loc, "append of %s inside the accumulation loop is bounded by a value that does not depend on buf.len(): recv(n) can return more than n bytes" % what if in_loop else
                    "append before the loop is not bounded by the requested size")
    ctx.require(n_loop >= 1, "Socket::recv: loop appends not found")
    # remainder
    for tb, t in sorted(takes.items()):
        if not any(any(a[0] == "call" and a[2] == tb for a in dep.arg_origins(rc, bb, 1)) and g.dominates(tb, bb) for bb, _ in exts):
            continue
        stores = [bb for bb, st in K.assigns_to_field(rc, "socket::Socket", ("stored_message",)) if g.dominates(tb, bb)]
        slices = [(bb, t2) for bb, t2 in K.calls_to(rc, "message::{impl#0}::slice") if g.dominates(tb, bb)]
        key = "S-REMAINDER:recv:%s" % ("loop" if g.in_loop(tb) else "prefix")
        probs = []
        if not slices:
            probs.append("the truncated message is not sliced to its remainder")
        if not stores:
            probs.append("the remainder of a truncated message is not stored: bytes are lost")
        else:
            # once the message has been cut to its tail, every path to the loop head / return stores it
            if slices and not g.all_paths_through(slices[0][0], g.returns, stores):
                probs.append("a path after truncation does not store the remainder")
        if slices:
            # the tail kept for the next read must start exactly where the copy stopped: slice(k..) with the very
            # value k that bounded take(k) (same definition, not merely something computed from the same inputs)
            kid = _value_id(rc, F.call_args(t)[1])
            sid = None
            sop = F.call_args(slices[0][1])[1]
            r = dep.single_def_rvalue(rc, F.op_place(sop)[0]) if F.op_place(sop) is not None and not F.op_place(sop)[1] else None
            if r is not None and r[1][0] == "agg" and r[1][2]:
                sid = _value_id(rc, r[1][2][0])
                open_ended = "RangeFrom" in str(r[1][1].get("d", ""))
            else:
                open_ended = False
            if sid is None or not open_ended:
                probs.append("the remainder is not cut as slice(k..) of the truncated message")
            elif sid != kid and not _len_of_fresh_buf(rc, g, sid, buf, exts, tb):
                probs.append("the tail kept for the next read starts at %s but the copy stopped after %s bytes of the message: bytes in between are lost (or the slice panics)" % (
                    dep.tree_str(dep.expr_tree(rc, r[1][2][0], 8)), dep.tree_str(dep.expr_tree(rc, F.call_args(t)[1], 8))))
        (ctx.bad if probs else ctx.ok)("S-REMAINDER", key, F.call_loc(t), "; ".join(probs) if probs else "truncation: take(k), slice(k..), stored_message = Some(rest)")

    # ---------------------------------------------------------------- S-FIFO
    # messages that arrive before accept() are parked in SocketSession.stored_messages and replayed by accept():
    # the queue must be used first-in first-out
    IN_BACK, IN_FRONT = {"push_back", "extend", "append"}, {"push_front"}
    OUT_FRONT, OUT_BACK = {"pop_front", "drain", "into_iter", "iter", "front", "front_mut"}, {"pop_back", "back", "back_mut"}
    NEUTRAL = {"is_empty", "len", "new", "default", "clear", "with_capacity", "next", "clone"}
    ops = []
    for b in prog.bodies.values():
        if not b.key.startswith("elvis_core::protocols::socket_api"):
            continue
        for bb, t in K.calls(b):
            ck = F.callee_key(t) or ""
            pretty = (F.callee(t) or {}).get("pretty", "")
            if not ("vec_deque" in ck or "VecDeque" in pretty) or not F.call_args(t):
                continue
            if not dep.has_field(dep.arg_origins(b, bb, 0), "SocketSession", "stored_messages"):
                continue
            ops.append((ck.rsplit("::", 1)[-1], b, F.call_loc(t)))
    ins = [o for o in ops if o[0] in IN_BACK | IN_FRONT]
    outs = [o for o in ops if o[0] in OUT_FRONT | OUT_BACK and o[0] not in ("front", "front_mut", "back", "back_mut")]
    ctx.require(len(ins) >= 2 and len(outs) >= 1, "S-FIFO: stored_messages queue operations not found (%d in, %d out)" % (len(ins), len(outs)))
    odd = [o for o in ops if o[0] not in IN_BACK | IN_FRONT | OUT_FRONT | OUT_BACK | NEUTRAL]
    back_in = all(o[0] in IN_BACK for o in ins)
    front_in = all(o[0] in IN_FRONT for o in ins)
    for nm, b, loc in outs:
        okk = (back_in and nm in OUT_FRONT) or (front_in and nm in OUT_BACK)
        (ctx.ok if okk else ctx.bad)("S-FIFO", "S-FIFO:stored_messages:%s@%s" % (nm, b.key.rsplit("::", 1)[-1]), loc,
            "messages parked before accept() are replayed oldest first (%s after %s)" % (nm, "/".join(sorted({o[0] for o in ins}))) if okk else
            "messages parked before accept() are stored with %s but replayed with %s: the accepted socket receives them in reverse order" % ("/".join(sorted({o[0] for o in ins})), nm))
    for nm, b, loc in odd:
        ctx.bad("S-FIFO", "S-FIFO:stored_messages:%s@%s" % (nm, b.key.rsplit("::", 1)[-1]), loc,
                "operation %s on the pre-accept message queue is not part of a first-in first-out discipline" % nm)
    if not (back_in or front_in):
        ctx.bad("S-FIFO", "S-FIFO:stored_messages:mixed-insert", ins[0][2], "messages are parked at both ends of the queue (%s)" % sorted({o[0] for o in ins}))

    # ---------------------------------------------------------------- S-PEER
    dm = prog.method("SocketAPI", "demux", "Protocol")
    dg = cfg(dm)
    probs = []
    ent = [(bb, t) for bb, t in K.calls(dm) if (F.callee_key(t) or "").startswith("dashmap::") and (F.callee_key(t) or "").endswith("::entry") and "mapref" not in (F.callee_key(t) or "")]
    if len(ent) != 1:
        probs.append("expected one socket_sessions.entry(..) lookup")
    else:
        ko = dep.arg_origins(dm, ent[0][0], 1, prog=prog)
        mo = dep.arg_origins(dm, ent[0][0], 0)
        if not dep.has_field(mo, "SocketAPI", "socket_sessions"):
            probs.append("the lookup is not on socket_sessions")
        # the key is the datagram's own Endpoints value as taken from the control block (whatever the local is called):
        # it originates from Control::get::<Endpoints>() and no field is picked out of it or replaced
        ko2 = dep.arg_origins(dm, ent[0][0], 1, through_calls=False)
        from_control = dep.has_call(ko2, "control::{impl#0}::get") or dep.has_call(dep.arg_origins(dm, ent[0][0], 1, through_calls=True), "control::{impl#0}::get")
        kty = dm.local_tystr(F.op_place(F.call_args(ent[0][1])[1])[0]) if F.op_place(F.call_args(ent[0][1])[1]) is not None else ""
        PASS = {"get", "deref", "unwrap", "expect", "copied", "cloned", "clone", "branch", "from_residual", "ok_or", "as_ref", "borrow", "into"}
        rebuilt = any(a[0] == "agg" and str(a[1]).endswith("Endpoints") for a in ko2) or any(a[0] == "const" for a in ko2) or \
            any(a[0] == "call" and a[1] and a[1].rsplit("::", 1)[-1] not in PASS for a in ko2)
        if not from_control or not kty.endswith("utility::Endpoints") or rebuilt:
            probs.append("the session is looked up under something other than the full (local, remote) endpoints of the datagram")
        gets = [(bb, t) for bb, t in K.calls(dm) if (F.callee_key(t) or "").startswith("dashmap::") and (F.callee_key(t) or "").endswith("::get") and dep.has_field(dep.arg_origins(dm, bb, 0), "SocketAPI", "listen_bindings")]
        sw = None
        for s in range(len(dm.blocks)):
            if dm.term(s)[0] == "switch":
                c = dep.switch_condition(dm, s)
                if c and c["kind"] == "discr" and c["place"] == F.call_dest(ent[0][1]):
                    sw = s
        if sw is None:
            probs.append("the Entry is not matched")
        else:
            vac = K.skip_false_edges(dm, dep.switch_target(dm, sw, 1))
            occ = K.skip_false_edges(dm, dep.switch_target(dm, sw, 0))
            for bb, t in gets:
                if not dg.dominates(vac, bb):
                    probs.append("a listen binding is consulted although a connected session exists")
            rcv = K.calls_to(dm, "socket_session::{impl#0}::receive")
            if len(rcv) != 1 or not dg.dominates(occ, rcv[0][0]):
                probs.append("the datagram is not handed to the session found")
    idn = [(bb, t) for bb, t in K.calls(dm) if (F.callee(t) or {}).get("pretty", "").endswith("Endpoints::new_from_headers")]
    (ctx.bad if probs else ctx.ok)("S-PEER", "S-PEER:SocketAPI::demux", dm.span, "; ".join(probs) if probs else
        "session looked up under (local, remote); listen bindings only on the miss")
    nf = [b for b in prog.bodies.values() if b.pretty.endswith("Endpoints::new_from_headers")]
    if nf:
        b = nf[0]
        ag = [(bb, t) for bb, t in K.calls(b) if (F.callee(t) or {}).get("pretty", "").endswith("Endpoint::new")]
        exprs = sorted(tuple(dep.tree_str(dep.expr_tree(b, a, 10)).split(".")[-1] for a in F.call_args(t)) for bb, t in ag)
        rem = set()
        loc = set()
        en = K.aggregates(b, "utility::Endpoints")
        okk = len(en) == 1
        if okk:
            lo = dep.origins(b, K.agg_field_operand(en[0][1], "local"), at=K.at_stmt(b, *en[0]))
            ro = dep.origins(b, K.agg_field_operand(en[0][1], "remote"), at=K.at_stmt(b, *en[0]))
            okk = dep.has_field(lo, "Ipv4Header", "destination") and dep.has_field(lo, "UdpHeader", "destination") and not dep.has_field(lo, "Ipv4Header", "source") \
                and dep.has_field(ro, "Ipv4Header", "source") and dep.has_field(ro, "UdpHeader", "source") and not dep.has_field(ro, "UdpHeader", "destination")
        (ctx.ok if okk else ctx.bad)("S-PEER", "S-PEER:Endpoints::new_from_headers", b.span,
            "identifier = (local = datagram destination, remote = datagram source)" if okk else "Endpoints::new_from_headers does not map destination->local, source->remote")


def _depends_on_buf_len(body, atoms, buf):
    """Do the origin atoms include a Vec::len() call whose receiver is `buf`?"""
    for a in atoms:
        if a[0] == "call" and a[1] and a[1].endswith("::len") and a[2] >= 0:
            t = body.term(a[2])
            if t[0] == "call" and ndl_root(body, F.call_args(t)[0]) == buf:
                return True
    return False


def ndl_root(body, op):
    from .ndl import _root_local
    return _root_local(body, op)



def _value_id(body, op):
    """Identity of the value an operand holds: the definition site it was copied from (through plain moves/copies of
    single-definition temporaries), or the captured variable / parameter it reads."""
    for _ in range(12):
        pl = F.op_place(op)
        if pl is None:
            return ("const", repr(F.op_const(op)))
        if pl[1]:
            return ("place", pl[0], repr(pl[1]))
        l = pl[0]
        if l <= body.argc:
            return ("param", l)
        r = dep.single_def_rvalue(body, l)
        if r is not None and r[1][0] == "use" and F.op_place(r[1][1]) is not None:
            op = r[1][1]
            continue
        if r is not None:
            return ("def", l)
        c = dep.single_def_call(body, l)
        if c is not None:
            return ("call", c[0])
        return ("local", l)
    return None



def _len_of_fresh_buf(rc, g, sid, buf, exts, take_bb):
    """slice(buf.len()..) evaluated after the append is the number of bytes just taken only when the buffer was empty
    before that append, i.e. no other append can precede it."""
    if not sid or sid[0] != "call":
        return False
    t = rc.term(sid[1])
    if not (F.callee_key(t) or "").endswith("vec::{impl#1}::len") or ndl_root(rc, F.call_args(t)[0]) != buf:
        return False
    mine = [bb for bb, _t in exts if g.dominates(take_bb, bb) and g.dominates(bb, sid[1])]
    if len(mine) != 1 or g.in_loop(mine[0]):
        return False
    return not any(bb != mine[0] and g.reaches(bb, mine[0]) for bb, _t in exts)
