"""C09 — subnet arithmetic decided on formulas extracted from MIR (ea/symx.py) and finite abstractions.

R-MASK     Ipv4Mask::from_bitcount(n) is the mask with the top min(n, 32) bits set: the extracted formula is evaluated
           for every n in 0..=32 and for representatives of the region n > 32 (it compares n with constants only there).
R-BITS     Ipv4Net::contains, Ipv4Net::broadcast and Ipv4Net::new are bit-parallel formulas over (id, mask, address):
           per bit position they equal  (addr & mask) == id,  id | !mask  and  ip & mask  on every feasible combination of
           bits (id <= mask bitwise, by R-CTOR); `+` is accepted where its operands are disjoint on every feasible
           combination (no carries). With a contiguous mask (R-MASK) this is: a network contains exactly id..=broadcast.
R-OVERLAP  Ipv4Net::overlaps equals "the ranges [id, broadcast] intersect" on every weak ordering of the four bounds.
R-RANGE    TryFrom<RangeInclusive> returns Ok(net) only on the branch where net.range() == the given range.
R-ENDIAN   Ipv4Address <-> u32 conversions are big-endian in both directions (the derived byte-wise order of addresses
           is then the numeric order used by overlaps / ranges / the route table).
"""
from .. import facts as F
from .. import symx as S
from . import common as K

SN = "elvis_core::protocols::arp::subnetting::"
IA = "elvis_core::protocols::ipv4::ipv4_address::"
M32 = 1 << 32
CONV = {"to_u32", "into", "from", "to_be_bytes", "from_be_bytes", "to_ipv4_address", "clone", "to_bytes"}


class NotBitParallel(Exception):
    pass


def strip(t):
    """Remove value-preserving conversions between Ipv4Address / Ipv4Mask / [u8;4] / u32 (endianness: R-ENDIAN)."""
    def f(x):
        if x[0] == "call" and len(x[2]) == 1:
            last = x[1].rsplit("::", 1)[-1]
            if last in CONV or x[1].endswith("ipv4_address::{impl#0}::new"):
                return strip(x[2][0])
        if x[0] == "agg" and len(x[2]) == 1 and x[1].rsplit("::", 1)[-1] in ("Ipv4Address", "Ipv4Mask"):
            return strip(x[2][0])
        if x[0] == "field" and x[2] == "0":
            return strip(x[1])
        if x[0] == "cast":
            return strip(x[1])
        return None
    return S.subst(t, f)


def bit(t, env):
    k = t[0]
    if t in env:
        return env[t]
    if k == "const":
        if t[1] == 0:
            return 0
        if t[1] == M32 - 1:
            return 1
        raise NotBitParallel("constant %d" % t[1])
    if k == "not":
        return 1 - bit(t[1], env)
    if k == "bin":
        op = t[1]
        if op in ("BitAnd", "BitOr", "BitXor"):
            a, b = bit(t[2], env), bit(t[3], env)
            return {"BitAnd": a & b, "BitOr": a | b, "BitXor": a ^ b}[op]
        if op in ("Add", "AddUnchecked") or op == "call-wrapping_add":
            a, b = bit(t[2], env), bit(t[3], env)
            if a & b:
                raise NotBitParallel("`+` with overlapping operands (carries)")
            return a | b
    if k == "call" and t[1].rsplit("::", 1)[-1] == "wrapping_add" and len(t[2]) == 2:
        a, b = bit(t[2][0], env), bit(t[2][1], env)
        if a & b:
            raise NotBitParallel("wrapping_add with overlapping operands (carries)")
        return a | b
    raise NotBitParallel(S.term_str(t))


def eval_u32(t, env):
    """Concrete evaluation of an extracted formula whose leaves are all bound (used on the finite domain of R-MASK)."""
    k = t[0]
    if t in env:
        return env[t]
    if k == "const":
        return t[1]
    if k == "bool":
        return t[1]
    if k == "ite":
        return eval_u32(t[2], env) if eval_u32(t[1], env) else eval_u32(t[3], env)
    if k == "not":
        v = eval_u32(t[1], env)
        return (not v) if isinstance(v, bool) else (~v) % M32
    if k == "cast":
        return eval_u32(t[1], env)
    if k == "bin":
        a, b = eval_u32(t[2], env), eval_u32(t[3], env)
        op = t[1]
        if op in ("Eq", "Ne", "Lt", "Le", "Gt", "Ge"):
            return {"Eq": a == b, "Ne": a != b, "Lt": a < b, "Le": a <= b, "Gt": a > b, "Ge": a >= b}[op]
        if op == "Shl" or op == "Shr":
            if not 0 <= b < 32:
                raise OverflowError("shift by %d" % b)
            r = (a << b) if op == "Shl" else (a >> b)
            return r % M32          # Rust `<<` discards the bits shifted out
        r = {"Add": a + b, "Sub": a - b, "Mul": a * b, "BitAnd": a & b, "BitOr": a | b, "BitXor": a ^ b}[op]
        if not 0 <= r < M32:
            raise OverflowError("%s overflows (%d)" % (op, r))
        return r
    if k == "agg" and len(t[2]) == 1:
        return eval_u32(t[2][0], env)
    raise KeyError(t)


def _module_inline(prog, exclude=()):
    return [k for k, b in prog.bodies.items() if (k.startswith(SN) or k.startswith(IA)) and b.kind in ("fn", "method") and not b.derived
            and "::tests" not in k and k.rsplit("::", 1)[-1] not in exclude]


def run(ctx):
    prog = ctx.prog()
    inl = _module_inline(prog)

    # ------------------------------------------------------------------------------------------------ R-MASK
    fb = prog.method("Ipv4Mask", "from_bitcount")
    try:
        t, _ = S.extract(prog, fb, inline=inl)
        size = S.params_of(fb)[0]
        bad = None
        tested = list(range(0, 33)) + [33, 34, 64, 255, 256, 1 << 16, 1 << 31, M32 - 1]
        for n in tested:
            want = ((M32 - 1) << (32 - min(n, 32))) % M32
            try:
                got = eval_u32(t, {size: n})
            except OverflowError as e:
                bad = (n, "panics: %s" % e)
                break
            if got != want:
                bad = (n, "0x%08X, expected 0x%08X" % (got, want))
                break
        if bad:
            ctx.bad("R-MASK", "R-MASK:from_bitcount", fb.span, "Ipv4Mask::from_bitcount(%d) yields %s: masks are no longer the top-n-bits masks that contains/broadcast/ordering rely on" % bad)
        else:
            ctx.ok("R-MASK", "R-MASK:from_bitcount", fb.span, "from_bitcount(n) is the top-min(n,32)-bits mask for every n in 0..=32 and on the region n > 32 (%d points)" % len(tested))
    except (S.Unsupported, KeyError) as e:
        ctx.require(False, "R-MASK: cannot evaluate from_bitcount symbolically (%r)" % (e,))

    # ------------------------------------------------------------------------------------------------ R-BITS
    SELF, ADDR = ("param", "self"), ("param", "address")
    ID, MASK = ("field", SELF, "network_id"), ("field", SELF, "mask")
    feas = [(i, m) for i in (0, 1) for m in (0, 1) if i <= m]

    def formula(adt, name):
        b = prog.method(adt, name)
        try:
            t, _ = S.extract(prog, b, inline=inl)
        except S.Unsupported as e:
            ctx.require(False, "R-BITS: cannot extract %s::%s (%s)" % (adt, name, e))
        return b, strip(t)

    b, t = formula("Ipv4Net", "contains")
    key = "R-BITS:contains"
    if t[0] == "bin" and t[1] == "Eq":
        try:
            diff = None
            for i, m in feas:
                for a in (0, 1):
                    env = {ID: i, MASK: m, ADDR: a}
                    got = bit(t[2], env) == bit(t[3], env)
                    want = (a & m) == i
                    if got != want:
                        diff = (i, m, a, got, want)
            if diff:
                ctx.bad("R-BITS", key, b.span, "contains() = %s: for a bit position with id=%d mask=%d address=%d it says %s, (address & mask) == id says %s" % ((S.term_str(t),) + diff))
            else:
                ctx.ok("R-BITS", key, b.span, "contains(a) = %s  ==  (a & mask) == id on every feasible bit combination" % S.term_str(t))
        except NotBitParallel as e:
            ctx.bad("R-BITS", key, b.span, "contains() = %s is not a bitwise test of the address against mask and id (%s)" % (S.term_str(t), e))
    else:
        ctx.bad("R-BITS", key, b.span, "contains() = %s is not an equality test" % S.term_str(t))

    b, t = formula("Ipv4Net", "broadcast")
    key = "R-BITS:broadcast"
    try:
        diff = None
        for i, m in feas:
            got = bit(t, {ID: i, MASK: m})
            want = i | (1 - m)
            if got != want:
                diff = (i, m, got, want)
        if diff:
            ctx.bad("R-BITS", key, b.span, "broadcast() = %s: for a bit position with id=%d mask=%d it yields %d, id | !mask is %d" % ((S.term_str(t),) + diff))
        else:
            ctx.ok("R-BITS", key, b.span, "broadcast() = %s  ==  id | !mask (no carries: id & !mask = 0)" % S.term_str(t))
    except NotBitParallel as e:
        ctx.bad("R-BITS", key, b.span, "broadcast() = %s is not id + !mask / id | !mask (%s)" % (S.term_str(t), e))

    nb = prog.method("Ipv4Net", "new")
    key = "R-BITS:new"
    try:
        tn, _ = S.extract(prog, nb, inline=inl)
    except S.Unsupported as e:
        ctx.require(False, "R-BITS: cannot extract Ipv4Net::new (%s)" % e)
    IP, PM = ("param", "ip"), ("param", "mask")
    if tn[0] == "agg" and len(tn[2]) == 2:
        idt, mt = strip(tn[2][0]), strip(tn[2][1])
        try:
            diff = None
            for ip in (0, 1):
                for m in (0, 1):
                    if bit(idt, {IP: ip, PM: m}) != (ip & m):
                        diff = (ip, m)
            if diff or mt != PM:
                ctx.bad("R-BITS", key, nb.span, "Ipv4Net::new stores id = %s, mask = %s; the id must be ip & mask and the mask the one given" % (S.term_str(idt), S.term_str(mt)))
            else:
                ctx.ok("R-BITS", key, nb.span, "Ipv4Net::new: id = %s == ip & mask, mask kept" % S.term_str(idt))
        except NotBitParallel as e:
            ctx.bad("R-BITS", key, nb.span, "Ipv4Net::new stores id = %s, not ip & mask (%s)" % (S.term_str(idt), e))
    else:
        ctx.bad("R-BITS", key, nb.span, "Ipv4Net::new does not build (id, mask): %s" % S.term_str(tn)[:200])

    n1 = prog.method("Ipv4Net", "new_1")
    try:
        t1, _ = S.extract(prog, n1, inline=inl)
        okk = t1[0] == "agg" and len(t1[2]) == 2 and strip(t1[2][0]) == ("param", "ip") and strip(t1[2][1]) == ("const", M32 - 1)
        (ctx.ok if okk else ctx.bad)("R-BITS", "R-BITS:new_1", n1.span, "Ipv4Net::new_1(ip) = (ip, /32)" if okk else
            "Ipv4Net::new_1 builds %s, expected the /32 network of the address" % S.term_str(t1)[:160])
    except S.Unsupported as e:
        ctx.require(False, "R-BITS: cannot extract Ipv4Net::new_1 (%s)" % e)

    # ------------------------------------------------------------------------------------------------ R-OVERLAP
    ob = prog.method("Ipv4Net", "overlaps")
    key = "R-OVERLAP:overlaps"
    try:
        t, _ = S.extract(prog, ob, inline=[])
    except S.Unsupported as e:
        ctx.require(False, "R-OVERLAP: cannot extract overlaps (%s)" % e)
    OTHER = ("param", "other")

    def bound(x):
        if x[0] == "call" and len(x[2]) == 1 and x[1].startswith(SN) and x[1].rsplit("::", 1)[-1] in ("id", "broadcast") and x[2][0] in (SELF, OTHER):
            return (x[1].rsplit("::", 1)[-1], x[2][0][1])
        return None

    CMPN = {"le": "Le", "lt": "Lt", "ge": "Ge", "gt": "Gt", "eq": "Eq", "ne": "Ne"}

    def norm(x):
        if x[0] == "call" and len(x[2]) == 2 and x[1].rsplit("::", 1)[-1] in CMPN and x[1].startswith("core::cmp::"):
            return ("bin", CMPN[x[1].rsplit("::", 1)[-1]], x[2][0], x[2][1])
        return None
    t = S.subst(t, norm)
    leaves = S.atoms(t, lambda x: x[0] == "call")
    unknown = [x for x in leaves if bound(x) is None]
    if unknown:
        ctx.bad("R-OVERLAP", key, ob.span, "overlaps() depends on %s besides the ids and broadcast addresses of the two networks" % ", ".join(S.term_str(x) for x in unknown[:3]))
    else:
        names = [("id", "self"), ("broadcast", "self"), ("id", "other"), ("broadcast", "other")]
        diff = None
        n = 0
        for ranks in S.weak_orderings(4):
            if ranks[0] > ranks[1] or ranks[2] > ranks[3]:
                continue
            rk = dict(zip(names, ranks))
            n += 1
            got = bool(S.evaluate(t, lambda x: rk[bound(x)]))
            want = rk[("id", "self")] <= rk[("broadcast", "other")] and rk[("id", "other")] <= rk[("broadcast", "self")]
            if got != want:
                diff = (rk, got, want)
                break
        if diff:
            rk, got, want = diff
            ctx.bad("R-OVERLAP", key, ob.span, "overlaps() = %s: for the ordering %s it yields %s but the ranges %s" % (
                S.term_str(t), ", ".join("%s(%s)=%d" % (a, b_, r) for (a, b_), r in sorted(rk.items())), got, "intersect" if want else "are disjoint"))
        else:
            ctx.ok("R-OVERLAP", key, ob.span, "overlaps() == ranges [id, broadcast] intersect, on all %d orderings of the four bounds" % n)

    # ------------------------------------------------------------------------------------------------ R-RANGE
    tf = [b_ for b_ in prog.bodies.values() if b_.kind == "method" and b_.name == "try_from" and b_.key.startswith(SN) and b_.self_ty is not None
          and b_.types[b_.self_ty].get("d", "").endswith("::Ipv4Net")]
    ctx.require(len(tf) == 1, "R-RANGE: TryFrom<RangeInclusive> for Ipv4Net not found (%d)" % len(tf))
    tf = tf[0]
    key = "R-RANGE:try_from"
    try:
        t, _ = S.extract(prog, tf, inline=[])
    except S.Unsupported as e:
        ctx.require(False, "R-RANGE: cannot extract try_from (%s)" % e)
    VALUE = S.params_of(tf)[0]
    oks = []

    def walk(x, conds):
        if x[0] == "ite":
            walk(x[2], conds + [(x[1], True)])
            walk(x[3], conds + [(x[1], False)])
        elif x[0] == "switch":
            for v, y in x[2]:
                walk(y, conds)
            walk(x[3], conds)
        elif x[0] == "agg" and x[1].endswith("Result::Ok") or (x[0] == "agg" and x[1].rsplit("::", 1)[-1] == "Ok"):
            oks.append((x, conds))
    walk(t, [])
    if not oks:
        ctx.bad("R-RANGE", key, tf.span, "TryFrom<RangeInclusive> never returns Ok")
    for okx, conds in oks:
        net = okx[2][0] if okx[2] else None
        good = False
        for c, pol in conds:
            if pol and c[0] == "call" and c[1].rsplit("::", 1)[-1] == "eq" and len(c[2]) == 2:
                a, b_ = c[2]
                for r, v in ((a, b_), (b_, a)):
                    if v == VALUE and r[0] == "call" and r[1].endswith("subnetting::{impl#7}::range") and r[2][0] == net:
                        good = True
        (ctx.ok if good else ctx.bad)("R-RANGE", key, tf.span,
            "Ok(net) only on the branch where net.range() == the given range" if good else
            "Ok(%s) is returned without checking that its range equals the given range: unaligned or non-power-of-two ranges convert to a different network" % S.term_str(net)[:120])

    # ------------------------------------------------------------------------------------------------ R-ENDIAN
    FORBID = ("to_le_bytes", "from_le_bytes", "to_ne_bytes", "from_ne_bytes", "swap_bytes", "to_le", "from_le", "to_be", "from_be", "reverse", "reverse_bits", "rotate_left", "rotate_right")
    bad = []
    nconv = 0
    for k, b_ in prog.bodies.items():
        if not (k.startswith(SN) or k.startswith(IA)) or "::tests" in k:
            continue
        for bb, tt in K.calls(b_):
            nm = (F.callee_key(tt) or "").rsplit("::", 1)[-1]
            if nm in FORBID:
                bad.append((F.call_loc(tt), nm, b_.pretty))
            if nm in ("to_be_bytes", "from_be_bytes"):
                nconv += 1
    ctx.require(nconv >= 3, "R-ENDIAN: only %d big-endian conversions found in ipv4_address.rs / subnetting.rs" % nconv)
    f_u32 = [b_ for b_ in prog.bodies.values() if b_.key.startswith(IA) and b_.name == "from" and b_.impl_trait and b_.impl_trait.endswith("convert::From")]
    dirs = {}
    for b_ in f_u32:
        try:
            t, _ = S.extract(prog, b_, inline=[k for k in inl if k != b_.key])
        except S.Unsupported:
            continue
        s = S.term_str(t)
        if "from_be_bytes" in s:
            dirs["to_u32"] = s
        if "to_be_bytes" in s:
            dirs["from_u32"] = s
    if bad:
        for loc, nm, where in bad:
            ctx.bad("R-ENDIAN", "R-ENDIAN:%s@%s" % (nm, where.rsplit("::", 1)[-1]), loc, "%s in %s: address <-> u32 conversions must be big-endian both ways (numeric order = byte-wise order)" % (nm, where))
    elif set(dirs) != {"to_u32", "from_u32"}:
        ctx.bad("R-ENDIAN", "R-ENDIAN:conversions", "elvis-core/src/protocols/ipv4/ipv4_address.rs", "Ipv4Address <-> u32 is not from_be_bytes / to_be_bytes in both directions (found %s)" % sorted(dirs))
    else:
        ctx.ok("R-ENDIAN", "R-ENDIAN:conversions", "elvis-core/src/protocols/ipv4/ipv4_address.rs",
               "u32::from(addr) = %s; Ipv4Address::from(n) = %s; no other byte-order operation in the two modules (%d be conversions)" % (dirs["to_u32"], dirs["from_u32"], nconv))


# ------------------------------------------------------------------------------------------------ R-ORDER (semantic)
class CannotEvaluate(Exception):
    pass


def _ord_eval(prog, t, env, depth=0):
    """Evaluate a formula built from comparisons to a Python value (int, bool, -1/0/1 for Ordering, tuples for tuples /
    wrappers). `env` maps leaf terms to values. Understands the core::cmp vocabulary used to write comparators."""
    if depth > 40:
        raise CannotEvaluate("nesting too deep")
    if t in env:
        return env[t]
    k = t[0]
    ev = lambda x: _ord_eval(prog, x, env, depth + 1)
    if k == "const":
        return t[1]
    if k == "bool":
        return t[1]
    if k == "variant" and t[1].endswith("cmp::Ordering"):
        return {"Less": -1, "Equal": 0, "Greater": 1}[t[2]]
    if k == "cast":
        v = ev(t[1])
        ty = t[2] if len(t) > 2 else None
        w = S.INT_WIDTH.get(ty)
        if w and isinstance(v, int) and not isinstance(v, bool):
            v %= (1 << w)
            if ty.startswith("i") and v >= (1 << (w - 1)):
                v -= (1 << w)          # reinterpretation as a signed value
        return v
    if k == "field" and t[2] == "0":
        v = ev(t[1])
        return v[1][0] if isinstance(v, tuple) and v and v[0] in ("wrap", "rev") else v
    if k == "pair":
        return ("tup", (ev(t[1]), ev(t[2])))
    if k == "agg":
        name = t[1].rsplit("::", 1)[-1]
        vals = tuple(ev(x) for x in t[2])
        if name == "Reverse" and len(vals) == 1:
            return ("rev", vals)
        if len(vals) == 1:
            return vals[0]            # newtype wrappers (Ipv4Mask, Ipv4Address, Obm)
        return ("tup", vals)
    if k == "not":
        v = ev(t[1])
        return (not v) if isinstance(v, bool) else (~v) % M32
    if k == "ite":
        return ev(t[2]) if ev(t[1]) else ev(t[3])
    if k == "discr":
        return ev(t[1])
    if k == "switch":
        c = ev(t[1])
        if isinstance(c, bool):
            c = int(c)
        for v, x in t[2]:
            if v == c or (isinstance(c, int) and c < 0 and v in (c % 256, c % (1 << 64), c % M32)):
                return ev(x)
        return ev(t[3])
    if k == "bin":
        return eval_u32(("bin", t[1], ("const", _as_int(ev(t[2]))), ("const", _as_int(ev(t[3])))), {})
    if k == "call":
        name = t[1].rsplit("::", 1)[-1]
        args = t[2]
        if name in CONV | {"mask", "id", "deref", "borrow", "as_ref"} and len(args) == 1 and not (t[1].startswith(SN) and name in ("mask", "id") and False):
            return ev(args[0])
        if name in ("cmp", "partial_cmp") and len(args) == 2:
            return _cmp(ev(args[0]), ev(args[1]))
        if name in ("lt", "le", "gt", "ge", "eq", "ne") and len(args) == 2 and t[1].startswith("core::cmp"):
            c = _cmp(ev(args[0]), ev(args[1]))
            return {"lt": c < 0, "le": c <= 0, "gt": c > 0, "ge": c >= 0, "eq": c == 0, "ne": c != 0}[name]
        if name == "reverse" and len(args) == 1:
            return -ev(args[0])
        if name == "then" and len(args) == 2:
            a = ev(args[0])
            return a if a != 0 else ev(args[1])
        if name in ("then_with", "unwrap_or_else") and len(args) == 2:
            a = ev(args[0])
            if name == "then_with" and a != 0:
                return a
            clo = args[1]
            if clo[0] == "agg" and clo[1].split("::{closure")[0] and clo[1] in prog.bodies or (clo[0] == "agg" and clo[1].rsplit("::", 1)[0] in prog.bodies):
                key = clo[1] if clo[1] in prog.bodies else clo[1].rsplit("::", 1)[0]
                cb = prog.bodies[key]
                ct, _ = S.extract(prog, cb, args=(clo,) + tuple(("param", "_c%d" % i) for i in range(cb.argc - 1)), inline=_module_inline(prog))
                return ev(ct)
            raise CannotEvaluate("closure %s" % S.term_str(clo))
        if name in ("unwrap", "expect", "unwrap_or") and args:
            return ev(args[0])
        if name == "count_ones" and len(args) == 1:
            return bin(_as_int(ev(args[0]))).count("1")
        if name == "leading_ones" and len(args) == 1:
            v = _as_int(ev(args[0]))
            n = 0
            while n < 32 and v & (1 << (31 - n)):
                n += 1
            return n
        if name == "trailing_zeros" and len(args) == 1:
            v = _as_int(ev(args[0]))
            n = 0
            while n < 32 and not v & (1 << n):
                n += 1
            return n
        if name == "leading_zeros" and len(args) == 1:
            v = _as_int(ev(args[0]))
            n = 0
            while n < 32 and not v & (1 << (31 - n)):
                n += 1
            return n
        if name in ("wrapping_add", "wrapping_sub") and len(args) == 2:
            a, b = _as_int(ev(args[0])), _as_int(ev(args[1]))
            return (a + b) % M32 if name == "wrapping_add" else (a - b) % M32
        if name in ("saturating_sub",) and len(args) == 2:
            return max(0, _as_int(ev(args[0])) - _as_int(ev(args[1])))
        if name in ("min", "max") and len(args) == 2:
            a, b = ev(args[0]), ev(args[1])
            return (a if _cmp(a, b) <= 0 else b) if name == "min" else (b if _cmp(a, b) <= 0 else a)
    raise CannotEvaluate(S.term_str(t)[:120])


def _as_int(v):
    if isinstance(v, bool):
        return int(v)
    if isinstance(v, int):
        return v
    if isinstance(v, tuple) and v and v[0] in ("wrap",) and len(v[1]) == 1:
        return _as_int(v[1][0])
    raise CannotEvaluate("not an integer: %r" % (v,))


def _cmp(a, b):
    if isinstance(a, tuple) and isinstance(b, tuple) and a and b and a[0] == b[0]:
        if a[0] == "rev":
            return _cmp(b[1][0], a[1][0])
        for x, y in zip(a[1], b[1]):
            c = _cmp(x, y)
            if c:
                return c
        return 0
    a, b = _as_int(a), _as_int(b)
    return (a > b) - (a < b)


def check_obm_order(ctx, rule="R-ORDER"):
    """Ord for the route-table key, evaluated for every pair of mask lengths and every relation of the ids."""
    prog = ctx.prog()
    oc = prog.method("Obm", "cmp", "Ord")
    key = rule + ":Obm::cmp"
    inl = _module_inline(prog)
    try:
        t, _ = S.extract(prog, oc, inline=inl)
    except S.Unsupported as e:
        ctx.require(False, "%s: cannot extract Obm::cmp (%s)" % (rule, e))
        return
    SELF, OTHER = ("param", "self"), ("param", "other")
    net = lambda p: ("field", p, "0")
    leaves = {"ms": ("field", net(SELF), "mask"), "mo": ("field", net(OTHER), "mask"), "is": ("field", net(SELF), "network_id"), "io": ("field", net(OTHER), "network_id")}
    mask_of = lambda n: ((M32 - 1) << (32 - n)) % M32
    bad = None
    n = 0
    try:
        for n1 in range(33):
            for n2 in range(33):
                for (i1, i2) in ((1, 2), (2, 2), (2, 1)):
                    env = {leaves["ms"]: mask_of(n1), leaves["mo"]: mask_of(n2), leaves["is"]: i1, leaves["io"]: i2}
                    got = _ord_eval(prog, t, env)
                    want = ((n2 > n1) - (n2 < n1)) if n1 != n2 else ((i1 > i2) - (i1 < i2))
                    n += 1
                    if got != want and bad is None:
                        bad = (n1, n2, i1, i2, got, want)
    except CannotEvaluate as e:
        ctx.require(False, "%s: Obm::cmp uses a construct the order evaluator does not model (%s): no verdict" % (rule, e))
        return
    nm = {-1: "Less", 0: "Equal", 1: "Greater"}
    if bad:
        n1, n2, i1, i2, got, want = bad
        ctx.bad(rule, key, oc.span,
                "Obm::cmp = %s: for a /%d key against a /%d key (ids %s) it returns %s, the route table needs %s (longest mask first, then id): lookup is no longer longest-prefix match / distinct networks alias" % (
                    S.term_str(t)[:200], n1, n2, "equal" if i1 == i2 else "self < other" if i1 < i2 else "self > other", nm.get(got, got), nm[want]))
    else:
        ctx.ok(rule, key, oc.span, "Obm::cmp orders by mask length descending, then network id, on all %d (mask length pair, id relation) cases" % n)


def check_cidr(ctx, rule="R-CIDR"):
    """CIDR text parses to the network it denotes: cidr_to_ip(text) = (address parsed from the piece before the first
    '/', from_bitcount(number parsed from the piece after it)), and from_cidr builds Ipv4Net::new of that pair."""
    prog = ctx.prog()
    b = prog.one("subnetting::cidr_to_ip")
    key = rule + ":cidr_to_ip"
    try:
        ex = S.Extractor(prog, (), effects=True, max_nodes=20000)
        t = ex.run(b, S.params_of(b))
    except S.Unsupported as e:
        ctx.require(False, "%s: cannot extract cidr_to_ip (%s)" % (rule, e))
    CIDR = S.params_of(b)[0]
    oks = S.ok_paths(t, lambda x: x[0] == "agg" and x[1].endswith("Result::Ok"))
    probs = []

    def unwrap(x):
        """strip `?` plumbing: downcast(branch(r)).0 -> r ; or(r, e) -> r ; ok_or(o, e) -> o"""
        while True:
            if x[0] == "field" and x[2] == "0" and x[1][0] == "downcast" and x[1][1][0] == "call" and x[1][1][1].endswith("::branch"):
                x = x[1][1][2][0]
            elif x[0] == "call" and x[1].rsplit("::", 1)[-1] in ("or", "ok_or", "map_err", "or_else") and x[2]:
                x = x[2][0]
            else:
                return x

    def piece(x):
        """which '/'-separated piece a term is: 0, 1, ... or None"""
        x = unwrap(x)
        if not (x[0] == "call" and "{closure#" in x[1] and x[2]):
            return None
        env, n = x[2][0], 0
        clo = x[1]
        while env[0] == "upd" and env[1] == clo:
            env = env[3][0]
            n += 1
        if env[0] == "agg" and env[1] == clo and len(env[2]) == 1:
            sp = env[2][0]
            if sp[0] == "call" and sp[1].rsplit("::", 1)[-1] == "split" and sp[2] == (CIDR, ("const", ord("/"))):
                cb = prog.bodies.get(clo)
                if cb is not None:
                    ct, _ = S.extract(prog, cb, effects=True)
                    v = unwrap(ct[1] if ct[0] == "state" else ct)
                    if v[0] == "call" and v[1].rsplit("::", 1)[-1] == "next":
                        return n
        return None
    if len(oks) != 1:
        probs.append("cidr_to_ip has %d Ok results" % len(oks))
    else:
        v = oks[0][1][2][0]
        if v[0] != "pair":
            probs.append("cidr_to_ip does not return an (address, mask) pair")
        else:
            a, m = v[1], v[2]
            while a[0] == "call" and a[1].rsplit("::", 1)[-1] in ("into", "from", "octets", "new") and len(a[2]) == 1:
                a = a[2][0]
            a = unwrap(a)
            if not (a[0] == "call" and a[1].startswith("core::net::") and a[1].endswith("::from_str") and piece(a[2][0]) == 0):
                probs.append("the address is not parsed (dotted quad) from the text before the first '/': %s" % S.term_str(a)[:120])
            if not (m[0] == "call" and m[1].endswith("subnetting::{impl#2}::from_bitcount") and len(m[2]) == 1):
                probs.append("the mask is not from_bitcount(prefix length): %s" % S.term_str(m)[:120])
            else:
                n_ = unwrap(m[2][0])
                if not (n_[0] == "call" and n_[1].startswith("core::num::") and n_[1].endswith("::from_str") and piece(n_[2][0]) == 1):
                    probs.append("the prefix length is not the number parsed from the text after the first '/': %s" % S.term_str(n_)[:120])
    (ctx.bad if probs else ctx.ok)(rule, key, b.span, "; ".join(probs) if probs else
        "cidr_to_ip(text) = (Ipv4Addr::from_str(piece 0 of split('/')), from_bitcount(u32::from_str(piece 1)))")
    fc = prog.method("Ipv4Net", "from_cidr")
    t3, _ = S.extract(prog, fc, effects=True)
    okk = t3[0] == "call" and t3[1].rsplit("::", 1)[-1] == "map" and t3[2][0] == ("call", b.key, (S.params_of(fc)[0],)) and t3[2][1][0] == "fn"
    if okk:
        fb = prog.bodies.get(t3[2][1][1])
        ft = S.extract(prog, fb, effects=True)[0] if fb is not None else None
        v = S.params_of(fb)[0] if fb is not None else None
        okk = ft is not None and ft[0] == "call" and ft[1].endswith("subnetting::{impl#7}::new") and ft[2] == (("field", v, "0"), ("field", v, "1"))
    (ctx.ok if okk else ctx.bad)(rule, rule + ":from_cidr", fc.span, "from_cidr(text) = cidr_to_ip(text).map(|(ip, mask)| Ipv4Net::new(ip, mask))" if okk else
        "from_cidr no longer builds Ipv4Net::new(ip, mask) from the parsed pair: %s" % S.term_str(t3)[:160])
