"""C16 — routers forward along the route and TTL bounds every packet's life (DESIGN.md §4 C16)."""
from .. import facts as F
from ..cfg import cfg
from .. import dep
from . import common as K

LEVEL = "other"
EXPLANATION = (
    "Must-pass-through and data-dependence rules on ArpRouter::demux: the forwarding task is created exactly once, "
    "outside any loop, dominated by a decrement-by-one of the header's TTL and by the branch on which the decremented "
    "TTL is non-zero; the re-serialised header is the decremented copy; next hop and interface originate from "
    "IpTable::get_recipient(header.destination) and a missing route returns without forwarding and a found route always leads to the forwarding task; the task performs one "
    "send_pci; (X-RESOLVED) the task's formula specialised to the outcome of Arp::resolve: failure puts nothing on the "
    "wire, success sends one frame to Some(the resolved hardware address). TTL-0 arrival must not panic (shared with C14). Decides these structural clauses for all inputs; "
    "multi-hop delivery and network silence are runtime behaviour and not decided.")
ASSUMPTIONS = []


def run(ctx):
    prog = ctx.prog()
    dm = prog.method("ArpRouter", "demux", "Protocol")
    g = cfg(dm)
    spawns = K.calls_to(dm, "tokio::task::spawn::spawn")
    # ---------------------------------------------------------------- X-ONE
    probs = []
    task = None
    if len(spawns) != 1:
        probs.append("expected exactly one tokio::spawn in ArpRouter::demux, found %d" % len(spawns))
    else:
        sbb = spawns[0][0]
        if g.in_loop(sbb):
            probs.append("the forwarding task is spawned inside a loop (packet multiplication)")
        fo = dep.arg_origins(dm, sbb, 0, through_calls=False)
        tasks = [a[1] for a in fo if a[0] == "agg" and a[2] in ("coroutine", "closure")]
        if len(tasks) != 1:
            probs.append("the spawned future is not a single async block")
        else:
            task = prog.body(tasks[0])
            tg = cfg(task)
            sp = K.calls_to(task, K.SEND_PCI)
            if len(sp) != 1:
                probs.append("the forwarding task performs %d send_pci calls, expected 1" % len(sp))
            elif tg.in_loop(sp[0][0]):
                probs.append("send_pci in the forwarding task sits in a loop")
            others = [(bb, t) for bb, t in K.calls(task) if (F.callee(t) or {}).get("fn") in (K.SESSION_SEND,) or (F.callee_key(t) or "").endswith("::send_with_ttl")]
            if others:
                probs.append("the forwarding task sends through additional sessions")
            if [bb for bb, ck in K.closure_creations(task)]:
                probs.append("the forwarding task creates further tasks/closures")
    other_sends = [(bb, t) for bb, t in K.calls(dm) if (F.callee_key(t) or "") == K.SEND_PCI or (F.callee(t) or {}).get("fn") == K.SESSION_SEND]
    if other_sends:
        probs.append("ArpRouter::demux sends directly (%d sites) besides the forwarding task" % len(other_sends))
    (ctx.bad if probs else ctx.ok)("X-ONE", "X-ONE:ArpRouter::demux", dm.span, "; ".join(probs) if probs else "one forwarding task, created outside loops, performing one send_pci")
    if len(spawns) != 1 or task is None:
        return
    sbb = spawns[0][0]

    # ---------------------------------------------------------------- X-TTL
    probs = []
    decs = []
    for bb, st in K.assigns_to_field(dm, "Ipv4Header", ("time_to_live",)):
        o = dep.origins(dm, _rv_operands(st[2]), at=K.at_stmt(dm, bb, st)) if False else _rv_origins(dm, bb, st)
        ops = {a[1] for a in o if a[0] == "op"}
        is_dec = (ops & {"SubWithOverflow", "Sub"} or dep.has_call(o, "saturating_sub") or dep.has_call(o, "checked_sub")) and 1 in dep.consts_of(o) and dep.has_field(o, "Ipv4Header", "time_to_live")
        if is_dec and not (ops & {"AddWithOverflow", "Add", "Mul", "MulWithOverflow"}) and not dep.has_call(o, "wrapping_sub"):
            decs.append(bb)
        else:
            probs.append("time_to_live is written with something other than a decrement by one (bb%d, %s)" % (bb, st[3]))
    if len(decs) != 1:
        probs.append("expected exactly one decrement of time_to_live, found %d" % len(decs))
    else:
        d = decs[0]
        if not g.dominates(d, sbb):
            probs.append("the forwarding task is not dominated by the TTL decrement")
        if g.in_loop(d):
            probs.append("the TTL decrement sits in a loop")
        # zero test
        zero = None
        for s in range(len(dm.blocks)):
            if dm.is_cleanup(s) or dm.term(s)[0] != "switch":
                continue
            info = K.compare_info(dm, s)
            if not info:
                continue
            oa = dep.origins(dm, info["a"], at=K.at_term(dm, s), through_calls=False)
            ob = dep.origins(dm, info["b"], at=K.at_term(dm, s), through_calls=False)
            if dep.has_field(oa | ob, "Ipv4Header", "time_to_live"):
                zero = (s, info, oa, ob)
        if zero is None:
            probs.append("no test of the TTL guards the forwarding")
        else:
            s, info, oa, ob = zero
            after = g.dominates(d, s)
            want_c = 0 if after else 1      # after the decrement: ttl != 0 ; before it: ttl > 1
            passb = None
            for succ in (info["true"], info["false"]):
                rel = K.relation_on(info, succ)
                if not rel:
                    continue
                op, x, y = rel
                xo = oa if x is info["a"] else ob
                yo = ob if x is info["a"] else oa
                x_ttl = dep.has_field(xo, "Ipv4Header", "time_to_live")
                cy = dep.consts_of(yo if x_ttl else xo)
                if after and ((op == "Ne" and cy == {0}) or (op == "Lt" and not x_ttl and cy == {0}) or (op == "Le" and not x_ttl and cy == {1})):
                    passb = succ
                if not after and ((op == "Lt" and not x_ttl and cy == {1}) or (op == "Le" and not x_ttl and cy == {2})):
                    passb = succ
            if passb is None:
                probs.append("the TTL test (%s, %s the decrement) does not establish a non-zero TTL after the hop" % (info["op"], "after" if after else "before"))
            else:
                if not g.dominates(passb, sbb):
                    probs.append("the forwarding task is not dominated by the TTL-non-zero branch")
                drop = info["false"] if passb == info["true"] else info["true"]
                if g.reaches(drop, sbb) or drop == sbb:
                    probs.append("a packet whose TTL is exhausted can still be forwarded")
        # serialised header = decremented copy
        ser = K.calls_to(dm, "ipv4_parsing::{impl#0}::serialize")
        if len(ser) != 1:
            probs.append("expected one Ipv4Header::serialize, found %d" % len(ser))
        else:
            if not g.dominates(d, ser[0][0]):
                probs.append("the header is serialised before the TTL decrement")
            so = dep.arg_origins(dm, ser[0][0], 0, through_calls=False)
            pl = F.op_place(F.call_args(ser[0][1])[0])
            hdr_local = _ttl_local(dm)
            if hdr_local is None or not any(a == ("local", hdr_local) for a in so) and not _refs_local(dm, F.call_args(ser[0][1])[0], hdr_local):
                probs.append("the serialised header is not the decremented copy")
            hd = K.calls_to(dm, "message::{impl#0}::header")
            if len(hd) != 1 or not g.dominates(ser[0][0], hd[0][0]) or not g.dominates(hd[0][0], sbb):
                probs.append("the forwarded message is not given the re-serialised header before forwarding")
            elif not any(a[0] == "call" and a[2] == ser[0][0] for a in dep.arg_origins(dm, hd[0][0], 1)):
                probs.append("the header prepended is not the serialised decremented header")
    (ctx.bad if probs else ctx.ok)("X-TTL", "X-TTL:ArpRouter::demux", dm.span, "; ".join(probs) if probs else
        "forwarding is dominated by TTL-1 and by the non-zero branch; the decremented header is re-serialised and prepended")

    # ---------------------------------------------------------------- X-LPM
    probs = []
    gr = K.calls_to(dm, "ip_table::{impl#0}::get_recipient")
    if len(gr) != 1:
        probs.append("expected one IpTable::get_recipient, found %d" % len(gr))
    else:
        gbb = gr[0][0]
        ko = dep.arg_origins(dm, gbb, 1, through_calls=False)
        if not dep.has_field(ko, "Ipv4Header", "destination") or any(a[0] in ("op", "const") for a in ko):
            probs.append("the route lookup key is not the datagram's destination")
        to = dep.arg_origins(dm, gbb, 0, through_calls=False)
        if not dep.has_field(to, "ArpRouter", "ip_table"):
            probs.append("the route lookup is not on the router's ip_table")
        if not g.dominates(gbb, sbb):
            probs.append("forwarding is not dominated by the route lookup")
        # closure captures: address_pair.remote (gateway) and slot
        agg = None
        for bb, blk in enumerate(dm.blocks):
            for st in blk["s"]:
                if st[0] == "a" and st[2][0] == "agg" and st[2][1].get("d") == task.key:
                    agg = (bb, st)
        caps = task.types[task.locals[1][0]]
        if agg is None:
            probs.append("task capture not found")
        else:
            alls = set()
            for op in agg[1][2][2]:
                alls |= dep.origins(dm, op, at=K.at_stmt(dm, *agg))
            if not any(a[0] == "call" and a[2] == gbb for a in alls):
                probs.append("next hop / interface handed to the forwarding task do not originate from the route found")
        ap = K.aggregates(dm, "AddressPair")
        if len(ap) != 1:
            probs.append("expected one AddressPair for ARP resolution")
        else:
            ro = dep.origins(dm, K.agg_field_operand(ap[0][1], "remote"), at=K.at_stmt(dm, *ap[0]), through_calls=True)
            if not (any(a[0] == "call" and a[2] == gbb for a in ro) and dep.has_field(ro, "Ipv4Header", "destination")):
                probs.append("the address resolved is not (route gateway | datagram destination)")
        # None route: no forwarding. The lookup result goes through ok_or(..)? -> the Break arm returns
        # (Try::branch switch): removing the Continue edge must make the spawn unreachable
        okor = [bb for bb, t in K.calls(dm) if g.dominates(gbb, bb) and (F.callee(t) or {}).get("fn", "").endswith("Try::branch") and any(a[0] == "call" and a[2] == gbb for a in dep.arg_origins(dm, bb, 0))]
        if not okor:
            probs.append("a missing route is not turned into an early return")
        else:
            nb = dm.term(okor[0])[4]
            cont = K.skip_false_edges(dm, dep.switch_target(dm, nb, 0))
            if not g.dominates(cont, sbb):
                probs.append("forwarding is reachable when no route matches")
            # ... and every datagram for which a route was found is forwarded: no other way out of demux between the
            # route and the forwarding task (such as "do not send back out of the arrival interface")
            if not g.all_paths_through(cont, g.returns, [sbb]):
                ret_path = g.path(cont, g.returns[0], removed=[sbb]) if g.returns else None
                where = ""
                if ret_path:
                    for x in ret_path:
                        if dm.term(x)[0] == "switch":
                            where = " (decided at %s)" % K.loc_of_block(dm, x)
                probs.append("a datagram with a live TTL and a matching route can leave demux without being forwarded%s: it is silently dropped although the routing table says where it goes" % where)
    # the task resolves that pair on that slot and sends to the MAC resolved
    tp = K.calls_to(task, K.SEND_PCI)
    rs = K.calls_to(task, "arp::{impl#0}::resolve")
    if len(rs) != 1:
        probs.append("the forwarding task does not resolve the next hop exactly once")
    elif tp:
        mo = dep.arg_origins(task, tp[0][0], 2)
        if not any(a[0] == "call" and a[1] and a[1].endswith("arp::{impl#0}::resolve::{closure#0}") or (a[0] == "call" and a[1] and "resolve" in a[1]) for a in mo):
            probs.append("the frame is not sent to the MAC that ARP resolved")
        so = dep.origins(task, F.call_args(tp[0][1])[0], at=K.at_term(task, tp[0][0]))
        if not any(a[0] == "upvar" and a[1] == "slot" for a in so):
            probs.append("the frame is not sent on the interface of the route")
        po = dep.arg_origins(task, tp[0][0], 1, through_calls=False)
        if not any(a[0] == "upvar" and a[1] == "message" for a in po):
            probs.append("the frame sent is not the received message")
    (ctx.bad if probs else ctx.ok)("X-LPM", "X-LPM:ArpRouter::demux", dm.span, "; ".join(probs) if probs else
        "next hop and interface come from get_recipient(header.destination); no route => early return; task sends on that interface to the resolved MAC")
    x_resolved(ctx, prog, task)
    # "leads nowhere => dropped" rests on the route lookup answering None when no entry contains the destination
    gr = prog.method("IpTable", "get_recipient")
    scope = [gr] + [b for b in prog.bodies.values() if b.parent == gr.key]
    fb, has_contains = [], False
    for b in scope:
        for bb, t in K.calls(b):
            nm = (F.callee_key(t) or "").rsplit("::", 1)[-1]
            if nm == "contains" and "subnetting" in (F.callee_key(t) or ""):
                has_contains = True
            if nm in ("or", "or_else", "unwrap_or", "unwrap_or_else", "unwrap_or_default", "next_back", "last", "rev", "first", "nth", "get_or_insert"):
                fb.append((nm, F.call_loc(t)))
    gp = []
    if not has_contains:
        gp.append("IpTable::get_recipient no longer tests whether an entry contains the address")
    if fb:
        gp.append("IpTable::get_recipient has a fallback (%s at %s): a destination that no entry contains still gets a recipient, so a router forwards datagrams it has no route for along an unrelated route instead of dropping them" % fb[0])
    (ctx.bad if gp else ctx.ok)("X-LPM", "X-LPM:IpTable::get_recipient", gr.span, "; ".join(gp) if gp else "the lookup answers only with an entry that contains the address, None otherwise")
    # the decremented copy survives re-serialisation: serialize() hands the header's own TTL (and addresses, length,
    # fragment fields) to the encoder - a fresh default TTL would make every hop forward with a full time-to-live
    from . import c08
    sp = c08.ipv4_serialize_problems(ctx, prog)
    ser = prog.method("Ipv4Header", "serialize")
    (ctx.bad if sp else ctx.ok)("X-TTL", "X-TTL:Ipv4Header::serialize", ser.span, "; ".join(sp[:2]) + (": the datagram leaves the router with a time-to-live that is not the decremented one" if any("time_to_live" in x for x in sp) else "") if sp else
        "serialize() re-encodes the header's own time_to_live and every other field")
    run_panics(ctx)


def _leaves(t):
    if t[0] == "ite":
        return _leaves(t[2]) + _leaves(t[3])
    if t[0] == "switch":
        out = []
        for _, y in t[2]:
            out += _leaves(y)
        return out + _leaves(t[3])
    return [t]


def x_resolved(ctx, prog, task):
    """X-RESOLVED: the forwarding task, reduced to a formula over the outcome of Arp::resolve: when resolution fails
    nothing is put on the wire (send_pci with no hardware address is a broadcast: every host and router on the network
    would get the datagram, and routers would forward it again); when it succeeds the one frame goes to Some(that MAC)."""
    from .. import symx as S
    try:
        t, ex = S.extract(prog, task, effects=True)
    except S.Unsupported as e:
        ctx.bad("X-RESOLVED", "X-RESOLVED:forwarding-task", task.span, "the forwarding task cannot be reduced to a formula (%s)" % e)
        return
    is_res = lambda x: x[0] == "await" and x[1][0] == "call" and "arp::{impl#0}::resolve" in x[1][1]
    rs = set(S.atoms(t, is_res))
    if len(rs) != 1:
        ctx.bad("X-RESOLVED", "X-RESOLVED:forwarding-task", task.span, "expected one awaited Arp::resolve in the forwarding task, found %d" % len(rs))
        return
    R = rs.pop()
    MAC = ("param", "resolved_mac")
    is_send = lambda x: x[0] == "call" and x[1].endswith(K.SEND_PCI.split("::", 1)[-1]) or (x[0] == "call" and x[1] == K.SEND_PCI)

    def case(ok):
        def f(x):
            if x == ("discr", R):
                return ("const", 0 if ok else 1)
            if x[0] == "field" and x[1][0] == "downcast" and x[1][1] == R:
                return MAC if ok else ("opaque", "resolve-error")
            if x[0] == "call" and x[1].endswith("::ok") and len(x[2]) == 1 and x[2][0] == R:      # Result::ok(r)
                return ("agg", "core::option::Option::Some", (MAC,)) if ok else ("variant", "core::option::Option", "None", 0)
            return None
        return [S.atoms(l, is_send) for l in _leaves(S.subst(t, f))]
    probs = []
    for sends in case(False):
        if sends:
            dst = sends[0][2][2] if len(sends[0][2]) > 2 else None
            probs.append("when the next hop cannot be resolved the datagram is still put on the wire (destination hardware address %s%s)" % (
                S.term_str(dst) if dst else "?", ": a broadcast, every host and router on that network receives it" if dst and dst[0] == "variant" and dst[2] == "None" else ""))
            break
    okc = case(True)
    if not okc or any(len(sends) != 1 for sends in okc):
        probs.append("when the next hop is resolved the task does not send exactly one frame on every path")
    else:
        for sends in okc:
            dst = sends[0][2][2]
            if dst != ("agg", "core::option::Option::Some", (MAC,)):
                probs.append("the frame goes to %s, not to Some(the hardware address ARP resolved)" % S.term_str(dst))
                break
    (ctx.bad if probs else ctx.ok)("X-RESOLVED", "X-RESOLVED:forwarding-task", task.span, "; ".join(probs) if probs else
        "formula of the task: resolve fails => no send_pci; resolve = Ok(mac) => one send_pci(.., Some(mac), ..)")


def run_panics(ctx):
    from . import panic_common as PC
    prog = ctx.prog()
    dm = prog.method("ArpRouter", "demux", "Protocol")

    def scope(k):
        return k.startswith("elvis::applications::arp_router") or k.startswith("elvis_core::ip_table") or \
            k.startswith("elvis_core::protocols::ipv4::ipv4_parsing") or k.startswith("elvis_core::protocols::arp::subnetting")
    st = PC.scan(ctx, "P-PANIC", [dm.key], scope, PC.load_table("panic_c16.json"),
                 stops=[K.SEND_PCI, "elvis_core::protocols::arp::{impl#0}::resolve"])
    ctx.require(st["sites"] >= 5, "P-PANIC: only %d sites enumerated on the router path" % st["sites"])


def _rv_origins(body, bb, st):
    out = set()
    for o in dep.rvalue_operands(st[2]):
        out |= dep.origins(body, o, at=K.at_stmt(body, bb, st))
    for p in dep.rvalue_places(st[2]):
        out |= dep.origins(body, p, at=K.at_stmt(body, bb, st))
    return out


def _rv_operands(rv):
    return None


def _ttl_local(dm):
    # the router's working copy of the header: the one user-named local of type Ipv4Header (whatever it is called)
    c = [l for l, (tix, name, _u) in enumerate(dm.locals) if name and l > dm.argc and dm.local_tystr(l).endswith("ipv4_parsing::Ipv4Header") and not dm.local_tystr(l).startswith("&")]
    return c[0] if len(c) == 1 else None


def _refs_local(body, op, l):
    """Does operand `op` hold a reference to local l (through &/reborrow copies)?"""
    for _ in range(6):
        pl = F.op_place(op)
        if pl is None:
            return False
        if pl[0] == l:
            return True
        r = dep.single_def_rvalue(body, pl[0])
        if r is None:
            return False
        rv = r[1]
        if rv[0] == "ref":
            if rv[2][0] == l:
                return True
            op = ["cp", [rv[2][0], []]]
        elif rv[0] == "use":
            op = rv[1]
        else:
            return False
    return False
