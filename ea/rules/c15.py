"""C15 — address allocation never hands the same address to two holders (DESIGN.md §4 C15)."""
import re
from .. import facts as F
from ..cfg import cfg
from .. import dep
from . import common as K

LEVEL = "other"
EXPLANATION = (
    "Must-pass-through and data-dependence rules on IpGenerator and the DHCP pair: (G-BLOCK) every Some(net) returned "
    "by fetch_net is preceded on its path by block_subnet(net) of the same value, which lies inside the available "
    "range just tested, and fetch_ip is fetch_net(/32); (G-SCAN) block_range visits every free range (no early-terminating or skipping iterator adaptor, no break) and splits those that overlap the blocked one, which is what keeps nested free ranges consistent; (G-SPLIT) the body of that loop, reduced to a formula, removes the overlapping free range and puts back exactly its parts below and above the blocked range; (G-ENDS) new_sub offers (net.id(), net.broadcast()) and "
    "new_sub_no_ends offers (net.id()+1, net.broadcast()-1); (D-LEASE) the server's Offer carries fetch_ip()'s result, "
    "its Ack echoes the Request's address, Release returns the released address to the generator; the client's "
    "Request echoes the Offer and the address it stores is the Ack's; every pool operation of the server acts on its own "
    "generator through the exclusive lock only (pick-and-reserve is one step under one write guard, never on a clone or "
    "under a shared guard). Not decided: uniqueness over arbitrary "
    "block/fetch/return histories and concurrent clients (a history property over sets of ranges).")
ASSUMPTIONS = []


def run(ctx):
    prog = ctx.prog()
    fn = prog.method("IpGenerator", "fetch_net")
    g = cfg(fn)
    # ---------------------------------------------------------------- G-BLOCK
    probs = []
    somes = [(bb, st) for bb, st in K.aggregates(fn, "core::option::Option", "Some") if st[1] == [0, []]]
    blocks = K.calls_to(fn, "ip_generator::{impl#0}::block_subnet")
    nexts = K.calls_to(fn, "ip_generator::next")
    if len(somes) != 1 or len(blocks) != 1 or len(nexts) != 1:
        probs.append("unexpected shape (Some=%d, block_subnet=%d, next=%d)" % (len(somes), len(blocks), len(nexts)))
    else:
        sbb, sst = somes[0]
        if not g.dominates(blocks[0][0], sbb):
            probs.append("fetch_net can return a network without blocking it first: the next fetch hands it out again")
        so = dep.origins(fn, sst[2][2][0], at=K.at_stmt(fn, sbb, sst), through_calls=False)
        bo = dep.arg_origins(fn, blocks[0][0], 1, through_calls=False)
        if not any(a[0] == "call" and a[2] == nexts[0][0] for a in so) or not any(a[0] == "call" and a[2] == nexts[0][0] for a in bo):
            probs.append("the network blocked and the network returned are not the same value")
        if any(a[0] in ("op", "const") for a in so | bo):
            probs.append("the returned/blocked network is modified on the way")
        # inside the available range
        cont = K.calls_to(fn, "ip_generator::{impl#6}::contains")
        cont = [(bb, t) for bb, t in K.calls(fn) if (F.callee(t) or {}).get("pretty", "").endswith("IpRange::contains")]
        if len(cont) != 1:
            probs.append("no availability test (IpRange::contains) before handing out")
        else:
            sw = F.call_target(cont[0][1])
            tr, fa = dep.bool_branches(fn, sw)
            if not g.dominates(tr, blocks[0][0]) or not g.dominates(tr, sbb):
                probs.append("a network is handed out although the available range does not contain it")
            a0 = dep.arg_origins(fn, cont[0][0], 0, through_calls=False)
            a1 = dep.arg_origins(fn, cont[0][0], 1)
            if not any(a[0] == "call" and a[2] == nexts[0][0] for a in a1):
                probs.append("the availability test is not about the candidate network")
            no = dep.arg_origins(fn, nexts[0][0], 0, through_calls=False)
            if not dep.has_field(no, "IpRange", "start"):
                probs.append("the candidate is not aligned from the start of an available range")
            mo = dep.arg_origins(fn, nexts[0][0], 1, through_calls=False)
            if not dep.has_param(mo, "mask"):
                probs.append("the candidate does not use the requested mask")
    (ctx.bad if probs else ctx.ok)("G-BLOCK", "G-BLOCK:fetch_net", fn.span, "; ".join(probs) if probs else
        "Some(net) only after block_subnet(net), net ⊆ an available range, aligned by next(range.start, mask)")
    fi = prog.method("IpGenerator", "fetch_ip")
    fc = K.calls_to(fi, fn.key)
    okk = len(fc) == 1 and dep.tree_str(dep.expr_tree(fi, F.call_args(fc[0][1])[1], 12)) == "from_bitcount(32)"
    why = "fetch_ip = fetch_net(/32).map(id)"
    if not okk:
        # an own implementation must keep what fetch_net guarantees: the address handed out was tested to lie inside
        # a (non-empty) free range, and it is blocked before it is returned
        fg = cfg(fi)
        somes_i = [bb for bb, st in K.aggregates(fi, "core::option::Option", "Some") if st[1] == [0, []]]
        tests = []
        for s_ in range(len(fi.blocks)):
            if fi.is_cleanup(s_) or fi.term(s_)[0] != "switch":
                continue
            c = dep.switch_condition(fi, s_)
            if c and c["kind"] == "call" and (F.callee_key(c["term"]) or "").rsplit("::", 1)[-1] in ("contains", "is_empty"):
                tr, fa = dep.bool_branches(fi, s_)
                tests.append(tr if (F.callee_key(c["term"]) or "").endswith("contains") else fa)
        blocks_i = [bb for bb, t in K.calls(fi) if (F.callee_key(t) or "").rsplit("::", 1)[-1] in ("block_subnet", "block_range")]
        inside = somes_i and all(any(fg.dominates(tb, sb) for tb in tests) for sb in somes_i)
        blocked = somes_i and all(any(fg.dominates(bb_, sb) for bb_ in blocks_i) for sb in somes_i)
        okk = bool(inside and blocked)
        why = "fetch_ip tests that the address lies in a free range and blocks it before returning it" if okk else (
            "fetch_ip hands out the start of a free range without testing that the range actually contains it: an empty range (start > end, e.g. the host range of a /31 or /32 from new_sub_no_ends) yields an address outside the pool that may be held elsewhere"
            if not inside else "fetch_ip returns an address without blocking it first")
    (ctx.ok if okk else ctx.bad)("G-BLOCK", "G-BLOCK:fetch_ip", fi.span, why)
    bs = prog.method("IpGenerator", "block_subnet")
    br = K.calls_to(bs, "ip_generator::{impl#0}::block_range")
    okk = len(br) == 1 and dep.has_param(dep.arg_origins(bs, br[0][0], 1), "network")
    (ctx.ok if okk else ctx.bad)("G-BLOCK", "G-BLOCK:block_subnet", bs.span, "block_subnet(net) = block_range(IpRange::from(net))" if okk else "block_subnet no longer blocks the range of its argument")
    cands = [b for b in prog.bodies.values() if b.name == "from" and b.impl_trait == "core::convert::From" and b.key.startswith("elvis::ip_generator") and any(K.calls_to(b, "subnetting::{impl#7}::broadcast"))]
    okk = False
    if len(cands) == 1:
        b = cands[0]
        ag = K.aggregates(b, "ip_generator::IpRange")
        if len(ag) == 1:
            s = dep.tree_str(dep.expr_tree(b, K.agg_field_operand(ag[0][1], "start"), 10))
            e = dep.tree_str(dep.expr_tree(b, K.agg_field_operand(ag[0][1], "end"), 10))
            okk = (s, e) == ("id(net)", "broadcast(net)")
    (ctx.ok if okk else ctx.bad)("G-BLOCK", "G-BLOCK:IpRange::from(Ipv4Net)", cands[0].span if cands else fn.span, "range of a network = (id, broadcast)" if okk else "IpRange::from(Ipv4Net) is not (net.id(), net.broadcast())")

    # ---------------------------------------------------------------- G-SCAN
    # block_range must split *every* free range that overlaps the blocked one. Free ranges may nest (return_range just
    # inserts), so overlapping ranges need not be neighbours in the ordered set: the scan has to be exhaustive.
    br = prog.method("IpGenerator", "block_range")
    scope = [br] + [prog.bodies[k] for k in _closures_of(prog, br.key)]
    EARLY = {"take_while", "skip_while", "take", "skip", "find", "find_map", "position", "rposition", "nth", "nth_back", "step_by", "range", "range_mut",
             "split_off", "first", "last", "pop_first", "pop_last", "map_while", "scan", "try_for_each", "try_fold", "any", "all", "next_back"}
    probs = []
    scans = 0
    for b in scope:
        bg = cfg(b)
        for bb, t in K.calls(b):
            ck = F.callee_key(t) or ""
            decl = (F.callee(t) or {}).get("fn", "")
            nm = ck.rsplit("::", 1)[-1]
            dnm = decl.rsplit("::", 1)[-1]
            if not F.call_args(t):
                continue
            o = dep.arg_origins(b, bb, 0)
            from_free = dep.has_field(o, "IpGenerator", "available_ranges") or dep.has_call(o, "ip_generator::{impl#0}::available")
            if not from_free:
                continue
            if nm in EARLY or dnm in EARLY:
                probs.append("the free ranges are scanned with %s (%s): overlapping ranges that are not adjacent in the set (nested free ranges after returns) are never split and stay available" % (dnm or nm, F.call_loc(t)))
            if dnm == "next" and "Iterator" in decl:
                scans += 1
                # the loop over the free ranges is left only when the iterator is exhausted
                d = F.call_dest(t)
                sw = None
                for s_ in range(len(b.blocks)):
                    if b.term(s_)[0] == "switch":
                        c = dep.switch_condition(b, s_)
                        if c and c["kind"] == "discr" and c["place"][0] == d[0]:
                            sw = s_
                if sw is not None:
                    none_arm = K.skip_false_edges(b, dep.switch_target(b, sw, 0))
                    some_arm = K.skip_false_edges(b, dep.switch_target(b, sw, 1))
                    if not bg.all_paths_through(some_arm, bg.returns, [bb]):
                        probs.append("the scan of the free ranges can stop before the set is exhausted (break at %s)" % F.call_loc(t))
    filt = [1 for b in scope for bb, t in K.calls(b) if (F.callee(t) or {}).get("fn", "").endswith("Iterator::filter") or (F.callee(t) or {}).get("fn", "").endswith("Iterator::collect")]
    ctx.require(scans + len(filt) >= 1, "G-SCAN: no scan of the free ranges found in block_range")
    ov = [1 for b in scope for bb, t in K.calls(b) if (F.callee_key(t) or "").endswith("::overlaps")]
    if not ov:
        probs.append("block_range no longer selects the free ranges by overlaps(range)")
    (ctx.bad if probs else ctx.ok)("G-SCAN", "G-SCAN:block_range", br.span, "; ".join(probs) if probs else
        "every free range is visited and those overlapping the blocked range are split (exhaustive scan)")

    # ---------------------------------------------------------------- G-SPLIT
    # what happens to one overlapping free range: it is removed and replaced by its part below the blocked range
    # [av.start, range.start - 1] and its part above it [range.end + 1, av.end] (each only when it exists)
    g_split(ctx, prog, br)

    # ---------------------------------------------------------------- G-ENDS
    ns = prog.method("IpGenerator", "new_sub")
    rn = [(bb, t) for bb, t in K.calls(ns) if (F.callee(t) or {}).get("pretty", "").endswith("IpRange::new")]
    okk = len(rn) == 1 and [dep.tree_str(dep.expr_tree(ns, a, 10)) for a in F.call_args(rn[0][1])] == ["id(net)", "broadcast(net)"]
    (ctx.ok if okk else ctx.bad)("G-ENDS", "G-ENDS:new_sub", ns.span, "new_sub(net) offers (net.id(), net.broadcast())" if okk else "new_sub does not offer exactly (net.id(), net.broadcast())")
    ne = prog.method("IpGenerator", "new_sub_no_ends")
    adds = K.calls_to(ne, "ip_generator::add")
    exprs = sorted(dep.tree_str(dep.expr_tree(ne, F.call_args(t)[0], 10)) + ("%+d" % (F.const_int(F.call_args(t)[1]) or 0)) for bb, t in adds)
    want = sorted(["id(net)+1", "broadcast(net)-1"])
    probs = []
    if exprs != want:
        probs.append("new_sub_no_ends builds its bounds from %s, expected %s: the pool is not exactly the host addresses of the subnet" % (exprs, want))
    else:
        rn = [(bb, t) for bb, t in K.calls(ne) if (F.callee(t) or {}).get("pretty", "").endswith("IpRange::new")]
        if len(rn) != 1:
            probs.append("no IpRange::new(start, end)")
        else:
            so = dep.arg_origins(ne, rn[0][0], 0)
            eo = dep.arg_origins(ne, rn[0][0], 1)
            if not (dep.has_call(so, "subnetting::{impl#7}::id") and 1 in dep.consts_of(so) and not dep.has_call(so, "broadcast")):
                probs.append("range start is not id+1")
            if not (dep.has_call(eo, "subnetting::{impl#7}::broadcast") and -1 in dep.consts_of(eo) and not dep.has_call(eo, "::id")):
                probs.append("range end is not broadcast-1")
    (ctx.bad if probs else ctx.ok)("G-ENDS", "G-ENDS:new_sub_no_ends", ne.span, "; ".join(probs) if probs else "new_sub_no_ends(net) offers (net.id()+1, net.broadcast()-1)")

    # ---------------------------------------------------------------- D-LEASE
    sd = prog.method("DhcpServer", "demux", "Protocol")
    probs = _lease_server(prog, sd)
    (ctx.bad if probs else ctx.ok)("D-LEASE", "D-LEASE:DhcpServer::demux", sd.span, "; ".join(probs) if probs else
        "Offer.your_ip = fetch_ip(); Ack.your_ip = Request.your_ip; Release -> return_ip(Release.your_ip)")
    cd = prog.method("DhcpClient", "demux", "Protocol")
    probs = _lease_client(prog, cd)
    (ctx.bad if probs else ctx.ok)("D-LEASE", "D-LEASE:DhcpClient::demux", cd.span, "; ".join(probs) if probs else
        "Request echoes the Offer's your_ip; the stored address is the Ack's your_ip")


MT = "dhcp_parsing::MessageType"


def _arms(body):
    """variant name -> first block of the match arm on the decoded message's msg_type"""
    for s in range(len(body.blocks)):
        if body.is_cleanup(s) or body.term(s)[0] != "switch":
            continue
        c = dep.switch_condition(body, s)
        if c and c["kind"] == "discr" and F.place_fields(c["place"]) and F.place_fields(c["place"])[-1][1] == "msg_type":
            return s
    return None


def _your_ip_writes(body):
    out = []
    for bb, st in K.assigns_to_field(body, "dhcp_parsing::DhcpMessage", ("your_ip",)):
        out.append((bb, st))
    return out


def _lease_server(prog, sd):
    probs = []
    g = cfg(sd)
    sw = _arms(sd)
    if sw is None:
        return ["no match on the decoded message type"]
    adt = prog.adt(MT)
    disc = {v["name"]: int(v["discr"]) for v in adt["variants"]}
    arm = {n: K.skip_false_edges(sd, dep.switch_target(sd, sw, d)) for n, d in disc.items()}
    writes = _your_ip_writes(sd)
    fetch = K.calls_to(sd, "ip_generator::{impl#0}::fetch_ip")
    ret = K.calls_to(sd, "ip_generator::{impl#0}::return_ip")
    if len(fetch) != 1 or not g.dominates(arm["Discover"], fetch[0][0]):
        probs.append("fetch_ip is not called exactly once, on Discover")
    if len(ret) != 1 or not g.dominates(arm["Release"], ret[0][0]):
        probs.append("return_ip is not called exactly once, on Release")
    elif not dep.has_field(dep.arg_origins(sd, ret[0][0], 1, through_calls=False), "DhcpMessage", "your_ip") or not dep.has_call(dep.arg_origins(sd, ret[0][0], 1), "dhcp_parsing::{impl#1}::from_bytes"):
        probs.append("the address returned to the pool is not the released message's your_ip")
    offer = [(bb, st) for bb, st in writes if g.dominates(arm["Discover"], bb)]
    ack = [(bb, st) for bb, st in writes if g.dominates(arm["Request"], bb)]
    if len(offer) != 1:
        probs.append("the Offer's your_ip is not set exactly once")
    elif fetch:
        o = dep.origins(sd, offer[0][1][2][1], at=K.at_stmt(sd, *offer[0]))
        if not any(a[0] == "call" and a[2] == fetch[0][0] for a in o):
            probs.append("the address offered is not the one fetch_ip() handed out")
    if len(ack) != 1:
        probs.append("the Ack's your_ip is not set exactly once")
    else:
        o = dep.origins(sd, ack[0][1][2][1], at=K.at_stmt(sd, *ack[0]), through_calls=False)
        if not dep.has_field(o, "DhcpMessage", "your_ip") or dep.has_call(o, "fetch_ip"):
            probs.append("the address acknowledged is not the one requested")
    types = {}
    for bb, st in K.assigns_to_field(sd, "dhcp_parsing::DhcpMessage", ("msg_type",)):
        o = dep.origins(sd, st[2][1], at=K.at_stmt(sd, bb, st), through_calls=False)
        v = {a[2] for a in o if a[0] == "agg" and a[1].endswith(MT)}
        for n, ab in arm.items():
            if g.dominates(ab, bb):
                types[n] = v
    if types.get("Discover") != {"Offer"} or types.get("Request") != {"Ack"}:
        probs.append("reply types are %s, expected Discover->Offer, Request->Ack" % types)
    for fld, bbs in (("ip_generator", [x[0] for x in fetch + ret]),):
        for bb in bbs:
            o = dep.arg_origins(sd, bb, 0)
            if not dep.has_field(o, "DhcpServer", "ip_generator"):
                probs.append("the pool used is not the server's own generator")
                continue
            # pick-and-reserve is one call on the shared pool itself under its exclusive lock: every call between the
            # field and the receiver is the lock acquisition, the unwrap of its result or the guard's deref_mut.  A
            # clone, a shared (read) guard or any other detour means two concurrent Discovers can be handed the same address.
            chain = sorted({a[1] for a in o if a[0] == "call" and a[1]})
            odd = [c for c in chain if not _EXCL.search(c) and not _PASS.search(c)]
            if odd:
                probs.append("the pool operation at bb%d does not act on the shared generator under its exclusive lock (receiver goes through %s): concurrent requests can be handed the same address" % (bb, ", ".join(_short(c) for c in odd)))
            elif not any(_EXCL.search(c) for c in chain):
                probs.append("the pool operation at bb%d is not under the generator's exclusive lock" % bb)
    return probs


_EXCL = re.compile(r"rwlock::.*::write$|mutex::.*::lock$|RwLock.*::write$|Mutex.*::lock$")
_PASS = re.compile(r"result::\{impl#\d+\}::(unwrap|expect)$|::deref_mut$|sync::\{impl#\d+\}::deref$|::as_mut$|::borrow_mut$")


def _short(c):
    return "::".join(c.split("::")[-2:])


def _lease_client(prog, cd):
    probs = []
    g = cfg(cd)
    sw = _arms(cd)
    if sw is None:
        return ["no match on the decoded message type"]
    adt = prog.adt(MT)
    disc = {v["name"]: int(v["discr"]) for v in adt["variants"]}
    arm = {n: K.skip_false_edges(cd, dep.switch_target(cd, sw, d)) for n, d in disc.items()}
    writes = _your_ip_writes(cd)
    req = [(bb, st) for bb, st in writes if g.dominates(arm["Offer"], bb)]
    if len(req) != 1:
        probs.append("the Request's your_ip is not set exactly once on Offer")
    else:
        o = dep.origins(cd, req[0][1][2][1], at=K.at_stmt(cd, *req[0]), through_calls=False)
        if not dep.has_field(o, "DhcpMessage", "your_ip"):
            probs.append("the Request does not echo the offered address")
    stores = []
    for bb, blk in enumerate(cd.blocks):
        if blk["c"]:
            continue
        for st in blk["s"]:
            if st[0] == "a" and st[1][1] and st[1][1][0] == "*" and not F.place_fields(st[1]):
                # *guard = Some(..)
                o = dep.origins(cd, [st[1][0], []], at=K.at_stmt(cd, bb, st))
                if dep.has_field(o, "DhcpClient", "ip_address"):
                    stores.append((bb, st))
    if len(stores) != 1 or not g.dominates(arm["Ack"], stores[0][0]):
        probs.append("the leased address is not stored exactly once, on Ack")
    else:
        vo = set()
        for op in dep.rvalue_operands(stores[0][1][2]):
            vo |= dep.origins(cd, op, at=K.at_stmt(cd, *stores[0]))
        if not dep.has_field(vo, "DhcpMessage", "your_ip") or not dep.has_call(vo, "dhcp_parsing::{impl#1}::from_bytes"):
            probs.append("the address stored is not the Ack's your_ip")
    return probs



def _closures_of(prog, key, seen=None):
    seen = seen if seen is not None else []
    b = prog.bodies.get(key)
    if b is None:
        return seen
    for bb, ck in K.closure_creations(b):
        if ck not in seen:
            seen.append(ck)
            _closures_of(prog, ck, seen)
    return seen



def g_split(ctx, prog, br):
    from .. import symx as S
    g = cfg(br)
    rem = [(bb, t) for bb, t in K.calls(br) if "btree" in (F.callee_key(t) or "") and (F.callee_key(t) or "").endswith("::remove")
           and dep.has_field(dep.arg_origins(br, bb, 0), "IpGenerator", "available_ranges")]
    if len(rem) != 1 or not g.in_loop(rem[0][0]):
        ctx.require(False, "G-SPLIT: the loop that replaces overlapping free ranges was not found (%d removals)" % len(rem))
    nx = [(bb, t) for bb, t in K.calls(br) if (F.callee(t) or {}).get("fn", "").endswith("Iterator::next") and g.dominates(bb, rem[0][0])]
    ctx.require(len(nx) >= 1, "G-SPLIT: loop header not found")
    hdr, ht = nx[-1]
    d = F.call_dest(ht)
    sw = [s_ for s_ in range(len(br.blocks)) if br.term(s_)[0] == "switch" and (dep.switch_condition(br, s_) or {}).get("kind") == "discr" and dep.switch_condition(br, s_)["place"][0] == d[0]]
    ctx.require(len(sw) == 1, "G-SPLIT: loop item match not found")
    some = K.skip_false_edges(br, dep.switch_target(br, sw[0], 1))
    try:
        t, _ = S.extract_from(prog, br, some, stop=[hdr])
    except S.Unsupported as e:
        ctx.require(False, "G-SPLIT: the loop body cannot be reduced to a formula (%s)" % e)
    SELF, RANGE = ("local", 1), ("local", 2)
    FREE = ("field", SELF, "available_ranges")

    def strip(x):
        def f(y):
            if y[0] == "call" and y[1].rsplit("::", 1)[-1] in ("expect", "unwrap") and y[2]:
                return strip(y[2][0])
            return None
        return S.subst(x, f)
    t = strip(t)
    leaves = S.ok_paths(t, lambda x: True)
    # the loop item: the value removed
    probs = []
    av = None
    seen = 0
    for conds, leaf in leaves:
        pass
    def chain(v):
        ins, rm = [], []
        while v[0] == "upd" and v[2] == 0 and len(v[3]) == 2:
            (ins if v[1].endswith("::insert") else rm if v[1].endswith("::remove") else probs).append(v[3][1])
            v = v[3][0]
        return v, ins, rm
    def paths(x, conds):
        if x[0] == "ite":
            yield from paths(x[2], conds + [(x[1], True)])
            yield from paths(x[3], conds + [(x[1], False)])
        else:
            yield conds, x
    npaths = 0
    for conds, leaf in paths(t, []):
        npaths += 1
        if leaf[0] != "state":
            probs.append("a path through the loop body leaves the free set untouched")
            continue
        st = dict(leaf[2])
        v = st.get(SELF)
        if v is None:
            probs.append("a path through the loop body does not update the free set")
            continue
        root, fs = S.with_fields(v)
        base, ins, rm = chain(fs.get("available_ranges", ("?",)))
        if base != FREE or len(rm) != 1:
            probs.append("the overlapping free range is not removed exactly once (%d removals)" % len(rm))
            continue
        item = rm[0]
        ZERO = lambda x: x[0] == "call" and x[1].endswith("ipv4_address::{impl#0}::new") and x[2][0][0] == "agg" and all(e == ("const", 0) for e in x[2][0][2])
        MAX = lambda x: x[0] == "call" and x[1].endswith("ipv4_address::{impl#0}::new") and x[2][0][0] == "agg" and all(e == ("const", 255) for e in x[2][0][2])
        def rng(x):
            return x if x[0] == "call" and x[1].rsplit("::", 1)[-1] == "new" and len(x[2]) == 2 and "IpRange" in (prog.bodies[x[1]].pretty if x[1] in prog.bodies else x[1]) else None
        LEFT = lambda x: rng(x) and x[2][0] == ("field", item, "start") and x[2][1][0] == "call" and x[2][1][1].endswith("::add") and x[2][1][2] == (("field", RANGE, "start"), ("const", -1))
        RIGHT = lambda x: rng(x) and x[2][1] == ("field", item, "end") and x[2][0][0] == "call" and x[2][0][1].endswith("::add") and x[2][0][2] == (("field", RANGE, "end"), ("const", 1))
        has_low = has_high = None      # does a part below / above the blocked range exist on this path?
        low_ne = high_ne = None
        for c, val in conds:
            nm = c[1].rsplit("::", 1)[-1] if c[0] == "call" else None
            if nm in ("gt", "ne") and c[2][0] == ("field", RANGE, "start") and ZERO(c[2][1]):
                has_low = val
            elif nm == "lt" and ZERO(c[2][0]) and c[2][1] == ("field", RANGE, "start"):
                has_low = val
            elif nm in ("lt", "ne") and c[2][0] == ("field", RANGE, "end") and MAX(c[2][1]):
                has_high = val
            elif nm == "gt" and MAX(c[2][0]) and c[2][1] == ("field", RANGE, "end"):
                has_high = val
            elif nm == "is_empty" and LEFT(c[2][0]):
                low_ne = not val
            elif nm == "is_empty" and RIGHT(c[2][0]):
                high_ne = not val
            elif nm == "is_empty":
                pass      # emptiness of some other range: whatever is put back is judged below
            else:
                ctx.require(False, "G-SPLIT: unrecognised condition %s in the loop body: no verdict" % S.term_str(c)[:120])
        want_low = bool(has_low) and bool(low_ne)
        want_high = bool(has_high) and bool(high_ne)
        got_low = [x for x in ins if LEFT(x)]
        got_high = [x for x in ins if RIGHT(x)]
        other = [x for x in ins if not LEFT(x) and not RIGHT(x)]
        if other:
            probs.append("a range other than [av.start, range.start-1] / [range.end+1, av.end] is put back: %s" % S.term_str(other[0])[:160])
        if bool(got_low) != want_low:
            probs.append("the part of the free range below the blocked range is %s" % ("lost" if want_low else "put back although it is empty or would underflow"))
        if bool(got_high) != want_high:
            probs.append("the part of the free range above the blocked range is %s" % ("lost" if want_high else "put back although it is empty or would overflow"))
    probs = sorted(set(p_ for p_ in probs if isinstance(p_, str)))
    (ctx.bad if probs else ctx.ok)("G-SPLIT", "G-SPLIT:block_range", br.span, "; ".join(probs[:3]) if probs else
        "each overlapping free range av is replaced by [av.start, range.start-1] and [range.end+1, av.end], each exactly when it exists (%d paths)" % npaths)
