"""Helpers shared by the rule modules."""
from .. import facts as F
from ..cfg import cfg
from .. import dep

BARRIER_WAIT_POLL = "tokio::sync::barrier::{impl#0}::wait::{closure#0}"
PROTOCOL_START = "elvis_core::protocol::Protocol::start"
PROTOCOL_DEMUX = "elvis_core::protocol::Protocol::demux"
SESSION_SEND = "elvis_core::session::Session::send"
SEND_PCI = "elvis_core::protocols::pci::pci_session::{impl#0}::send_pci"
PCI_RECEIVE = "elvis_core::protocols::pci::pci_session::{impl#0}::receive"
NETWORK_SEND = "elvis_core::network::{impl#1}::send"


def short(key):
    """Readable short form of a canonical key."""
    return key.replace("elvis_core::", "").replace("protocols::", "")


def calls(body):
    """[(bb, term)] of all call terminators in non-cleanup blocks."""
    out = []
    for bb, blk in enumerate(body.blocks):
        if blk["c"]:
            continue
        if blk["t"][0] == "call":
            out.append((bb, blk["t"]))
    return out


def calls_to(body, *suffixes):
    """[(bb, term)] of calls whose declared or resolved callee ends with one of the suffixes."""
    out = []
    for bb, t in calls(body):
        names = F.callee_names(t)
        if any(n == s or n.endswith("::" + s) or n.endswith(s) for n in names for s in suffixes):
            out.append((bb, t))
    return out


def is_await_poll(body, bb, t):
    mac = F.call_mac(t)
    if not mac or not any("await" in m for m in mac):
        return False
    c = F.callee(t)
    if c is None or len(F.call_args(t)) != 2:
        return False
    nm = c.get("res") or c["fn"]
    return "{closure#" in nm or nm.endswith("::poll") or c["fn"].endswith("Future::poll")


def await_points(body):
    """[{poll_bb, callee, ready_bb, pending_bb}] for every `.await` in a coroutine body."""
    out = []
    g = cfg(body)
    for bb, t in calls(body):
        if not is_await_poll(body, bb, t):
            continue
        nxt = F.call_target(t)
        if nxt is None:
            continue
        sw = body.term(nxt)
        ready = pending = None
        if sw[0] == "switch":
            ready = dep.switch_target(body, nxt, 0)
            pending = dep.switch_target(body, nxt, 1)
            # skip the false edges
            while body.term(ready)[0] == "false_edge":
                ready = body.term(ready)[1]
        c = F.callee(t)
        out.append({"poll_bb": bb, "callee": c.get("res") or c["fn"], "declared": c["fn"],
                    "ready_bb": ready, "pending_bb": pending, "loc": F.call_loc(t),
                    "awaitee": F.call_args(t)[0]})
    return out


def awaitee_local(body, ap):
    """The local holding the future polled at await point `ap` (follows
    `Pin::new_unchecked(&mut *(&mut __awaitee))`)."""
    op = ap["awaitee"]
    for _ in range(8):
        pl = F.op_place(op)
        if pl is None:
            return None
        l = pl[0]
        c = dep.single_def_call(body, l)
        if c is not None:
            args = F.call_args(c[1])
            if not args:
                return None
            op = args[0]
            continue
        r = dep.single_def_rvalue(body, l)
        if r is None:
            return l
        rv = r[1]
        if rv[0] == "ref":
            inner = rv[2]
            if inner[1] and inner[1][0] == "*":
                op = ["cp", [inner[0], []]]
                continue
            if not inner[1]:
                return inner[0]
            return None
        if rv[0] == "use":
            op = rv[1]
            continue
        return l
    return None


def awaited_future_type(body, ap):
    """Type string of the future polled at await point `ap`."""
    l = awaitee_local(body, ap)
    if l is None:
        return None
    return body.local_tystr(l)


def start_impls(prog):
    """[(wrapper fn body, coroutine body)] for every impl of Protocol::start in the workspace."""
    out = []
    for b in prog.trait_impl_bodies(PROTOCOL_START):
        kids = [k for k in prog.children(b) if k.kind == "coroutine"]
        out.append((b, kids[0] if len(kids) == 1 else None, kids))
    return out


def loc_of_block(body, bb):
    t = body.term(bb)
    if t[0] == "call":
        return F.call_loc(t)
    for st in body.stmts(bb):
        if st[0] == "a":
            return st[3]
    return body.span


def closure_creations(body):
    """[(bb, closure/coroutine key)] created in body."""
    out = []
    for bb, blk in enumerate(body.blocks):
        if blk["c"]:
            continue
        for st in blk["s"]:
            if st[0] == "a" and st[2][0] == "agg" and st[2][1]["k"] in ("closure", "coroutine", "coroutine_closure"):
                out.append((bb, st[2][1]["d"]))
    return out


# ------------------------------------------------------------------ comparisons
_CMP = {"Lt", "Le", "Gt", "Ge", "Eq", "Ne"}
_NEG = {"Lt": "Ge", "Le": "Gt", "Gt": "Le", "Ge": "Lt", "Eq": "Ne", "Ne": "Eq"}
_METHOD_OP = {"lt": "Lt", "le": "Le", "gt": "Gt", "ge": "Ge", "eq": "Eq", "ne": "Ne"}


def compare_info(body, bb):
    """If the switch at bb tests a comparison, return {op, a, b, true, false} (a, b operands;
    for PartialOrd/PartialEq method calls they are the reference arguments)."""
    cond = dep.switch_condition(body, bb)
    if not cond:
        return None
    tr, fl = dep.bool_branches(body, bb)
    if cond["kind"] == "bin" and cond["op"] in _CMP:
        return {"op": cond["op"], "a": cond["a"], "b": cond["b"], "true": tr, "false": fl, "bb": bb}
    if cond["kind"] == "call":
        c = F.callee(cond["term"])
        if c:
            decl = c["fn"]
            m = decl.rsplit("::", 1)[-1]
            if m in _METHOD_OP and ("PartialOrd" in decl or "PartialEq" in decl) and len(F.call_args(cond["term"])) == 2:
                a, b = F.call_args(cond["term"])
                return {"op": _METHOD_OP[m], "a": a, "b": b, "true": tr, "false": fl, "bb": bb, "method": c.get("res") or decl}
    return None


def relation_on(info, succ):
    """Canonical relation (op in Lt/Le/Eq/Ne, x, y) known to hold on successor `succ` of the switch."""
    if succ == info["true"] and succ != info["false"]:
        op = info["op"]
    elif succ == info["false"] and succ != info["true"]:
        op = _NEG[info["op"]]
    else:
        return None
    a, b = info["a"], info["b"]
    if op == "Gt":
        return ("Lt", b, a)
    if op == "Ge":
        return ("Le", b, a)
    return (op, a, b)


def skip_false_edges(body, bb):
    while body.term(bb)[0] == "false_edge" and not body.stmts(bb):
        bb = body.term(bb)[1]
    return bb


def assigns_to_field(body, owner_suffix, names=None):
    """[(bb, stmt)] of assignments whose destination place projects through a field of the ADT."""
    out = []
    for bb, blk in enumerate(body.blocks):
        if blk["c"]:
            continue
        for st in blk["s"]:
            if st[0] != "a":
                continue
            for (owner, name) in F.place_fields(st[1]):
                if (owner == owner_suffix or owner.endswith("::" + owner_suffix)) and (names is None or name in names):
                    out.append((bb, st))
    return out


def mut_borrows_of_field(body, owner_suffix, names=None):
    out = []
    for bb, blk in enumerate(body.blocks):
        if blk["c"]:
            continue
        for st in blk["s"]:
            if st[0] == "a" and st[2][0] == "ref" and st[2][1] == "mut":
                fs = F.place_fields(st[2][2])
                if fs:
                    owner, name = fs[-1]
                    if (owner == owner_suffix or owner.endswith("::" + owner_suffix)) and (names is None or name in names):
                        out.append((bb, st))
    return out


def aggregates(body, adt_suffix, variant=None):
    """[(bb, stmt)] constructing the ADT (optionally a given variant)."""
    out = []
    for bb, blk in enumerate(body.blocks):
        if blk["c"]:
            continue
        for st in blk["s"]:
            if st[0] == "a" and st[2][0] == "agg" and st[2][1]["k"] == "adt":
                d = st[2][1]["d"]
                if (d == adt_suffix or d.endswith("::" + adt_suffix)) and (variant is None or st[2][1]["v"] == variant):
                    out.append((bb, st))
    return out


def agg_field_operand(st, field):
    names = st[2][1]["fields"]
    return st[2][2][names.index(field)]


def at_stmt(body, bb, st):
    """Position (bb, index) of statement `st` in block bb, for flow-sensitive origin queries."""
    for i, s in enumerate(body.stmts(bb)):
        if s is st:
            return (bb, i)
    return (bb, len(body.stmts(bb)))


def at_term(body, bb):
    return (bb, len(body.stmts(bb)))
