"""Finite-domain abstract interpretation of the TCB methods (DESIGN.md §3/R3, §4 C03/C17).

Observables: S0 (Tcb.state on entry), S (current Tcb.state), the four control-flag predicates of the segment
header being processed (syn, ack, rst, fin — pure functions of the unmodified `seg.ctl`), and CHK (has the
sequence-acceptability test `is_seq_ok` been passed on this path: 'N' no, 'A' accepted).
The abstract state is a set of tuples (S0, S, syn, ack, rst, fin, CHK): exact for these observables.
"""
import itertools

from .. import facts as F
from ..cfg import cfg
from .. import dep, fdai
from . import common as K

STATE_ADT = "elvis_core::protocols::tcp::tcb::state::State"
FLAGS = ("syn", "ack", "rst", "fin")


class TcbModel:
    def __init__(self, prog, body, with_flags=True, header_local_names=("seg",)):
        self.prog = prog
        self.body = body
        self.g = cfg(body)
        adt = prog.adts[STATE_ADT]
        self.states = [v["name"] for v in adt["variants"]]
        self.discr = {int(v["discr"]): v["name"] for v in adt["variants"]}
        self.with_flags = with_flags
        self.hdr_names = header_local_names
        self._classify_switches()
        self._find_state_writes()
        flagvals = list(itertools.product((False, True), repeat=4)) if with_flags else [(None,) * 4]
        init = frozenset((s, s) + fv + ("N",) for s in self.states for fv in flagvals)
        self.sol = fdai.Solver(body, init, self._stmt, None, self._edge).run()

    # ------------------------------------------------------------------ classification
    def _is_state_place(self, pl):
        fs = F.place_fields(pl)
        return len(fs) == 1 and fs[0][1] == "state" and fs[0][0].endswith("tcb::Tcb") and pl[0] == 1

    def _flag_of_call(self, term, at):
        ck = F.callee_key(term) or ""
        name = ck.rsplit("::", 1)[-1]
        c = F.callee(term)
        if name in FLAGS and c and "tcp_parsing::Control" in self.body.tystr(self._arg_ty(term, 0)):
            o = dep.origins(self.body, F.call_args(term)[0], at=at, through_calls=False)
            if dep.has_field(o, "TcpHeader", "ctl"):
                # must be the header of the segment being processed (local `seg`), not an outgoing header
                if any(a[0] == "call" and a[1] and a[1].endswith("segment::{impl#0}::into_inner") for a in dep.origins(self.body, F.call_args(term)[0], at=at)) or \
                   any(a[0] == "param" for a in dep.origins(self.body, F.call_args(term)[0], at=at)):
                    return name
        return None

    def _arg_ty(self, term, i):
        op = F.call_args(term)[i]
        pl = F.op_place(op)
        if pl is None:
            return op[1]
        # type of the place: last field projection type or local type
        for e in reversed(pl[1]):
            if isinstance(e, list) and e[0] == "f":
                return e[4]
        return self.body.locals[pl[0]][0]

    def _classify_switches(self):
        b = self.body
        self.sw = {}
        for bb in range(len(b.blocks)):
            if b.is_cleanup(bb) or b.term(bb)[0] != "switch":
                continue
            c = dep.switch_condition(b, bb)
            if not c:
                continue
            if c["kind"] == "discr" and self._is_state_place(c["place"]):
                self.sw[bb] = ("state",)
                continue
            if c["kind"] == "call":
                t = c["term"]
                at = K.at_term(b, c["call_bb"])
                fl = self._flag_of_call(t, at)
                tr, fa = dep.bool_branches(b, bb)
                if fl:
                    self.sw[bb] = ("flag", fl, tr, fa)
                    continue
                ck = F.callee_key(t) or ""
                if ck.endswith("tcb::{impl#0}::is_seq_ok"):
                    self.sw[bb] = ("seqok", tr, fa)
                    continue
                info = K.compare_info(b, bb)
                if info and info["op"] in ("Eq", "Ne"):
                    oa = dep.origins(b, info["a"], at=K.at_term(b, bb), through_calls=False)
                    ob = dep.origins(b, info["b"], at=K.at_term(b, bb), through_calls=False)
                    def is_state(o):
                        return any(a[0] == "field" and a[2] == "state" and a[1].endswith("tcb::Tcb") for a in o)
                    def const_of(o):
                        return {a[2] for a in o if a[0] == "agg" and a[1] == STATE_ADT}
                    sa = False
                    consts = set()
                    if is_state(oa) and not is_state(ob):
                        sa, consts = True, const_of(ob)
                    elif is_state(ob) and not is_state(oa):
                        sa, consts = True, const_of(oa)
                    if sa and len(consts) == 1:
                        rel = K.relation_on(info, info["true"])
                        eqb = info["true"] if rel and rel[0] == "Eq" else info["false"]
                        neb = info["false"] if eqb == info["true"] else info["true"]
                        self.sw[bb] = ("state_eq", next(iter(consts)), eqb, neb)

    def _find_state_writes(self):
        b = self.body
        self.state_writes = {}   # (bb, i) -> new state name or None (unknown)
        for bb, blk in enumerate(b.blocks):
            if blk["c"]:
                continue
            for i, st in enumerate(blk["s"]):
                if st[0] == "a" and self._is_state_place(st[1]):
                    val = None
                    rv = st[2]
                    if rv[0] == "use":
                        op = dep.resolve_copy(b, rv[1])
                        pl = F.op_place(op)
                        if pl is not None and not pl[1]:
                            r = dep.single_def_rvalue(b, pl[0])
                            if r and r[1][0] == "agg" and r[1][1].get("d") == STATE_ADT:
                                val = r[1][1]["v"]
                    elif rv[0] == "agg" and rv[1].get("d") == STATE_ADT:
                        val = rv[1]["v"]
                    self.state_writes[(bb, i)] = val

    # ------------------------------------------------------------------ transfer
    def _stmt(self, state, bb, i, st):
        if (bb, i) in self.state_writes:
            new = self.state_writes[(bb, i)]
            if new is None:
                return frozenset((t[0], s2) + t[2:] for t in state for s2 in self.states)
            return frozenset((t[0], new) + t[2:] for t in state)
        return state

    def _edge(self, state, bb, su):
        k = self.sw.get(bb)
        if not k:
            return state
        b = self.body
        if k[0] == "state":
            t = b.term(bb)
            vals = {v: tg for v, tg in t[2]}
            allowed = set()
            for d, name in self.discr.items():
                tg = vals.get(d, t[3])
                if tg == su:
                    allowed.add(name)
            return frozenset(x for x in state if x[1] in allowed)
        if k[0] == "flag":
            _, fl, tr, fa = k
            ix = 2 + FLAGS.index(fl)
            if not self.with_flags:
                return state
            if tr == fa:
                return state
            if su == tr:
                return frozenset(x for x in state if x[ix])
            if su == fa:
                return frozenset(x for x in state if not x[ix])
            return state
        if k[0] == "seqok":
            _, tr, fa = k
            if su == tr and tr != fa:
                return frozenset(x[:6] + ("A",) for x in state)
            return state
        if k[0] == "state_eq":
            _, name, eqb, neb = k
            if eqb == neb:
                return state
            if su == eqb:
                return frozenset(x for x in state if x[1] == name)
            if su == neb:
                return frozenset(x for x in state if x[1] != name)
        return state

    # ------------------------------------------------------------------ queries
    def at_stmt(self, bb, i):
        return self.sol.before_stmt.get((bb, i), frozenset())

    def at_term(self, bb):
        return self.sol.at_term(bb)

    def transitions(self):
        """[(bb, i, loc, to_state, tuples-before)] for every write to Tcb.state."""
        out = []
        for (bb, i), new in sorted(self.state_writes.items()):
            st = self.body.stmts(bb)[i]
            out.append((bb, i, st[3], new, self.at_stmt(bb, i)))
        return out


def flags_str(tuples):
    """Literals common to all tuples, e.g. 'syn ∧ ¬rst'."""
    lits = []
    for j, f in enumerate(FLAGS):
        vals = {t[2 + j] for t in tuples}
        if vals == {True}:
            lits.append(f)
        elif vals == {False}:
            lits.append("¬" + f)
    return " ∧ ".join(lits) or "any flags"
