#!/bin/sh
# Build the fact generator and warm the dependency target dir (offline; nothing under /tmp is needed).
set -e
cd "$(dirname "$0")"
export CARGO_NET_OFFLINE=true
(cd driver && cargo +nightly build --release --offline)
python3 -m ea.factgen default >/dev/null
python3 -m ea.factgen checksum >/dev/null
echo "setup ok"
